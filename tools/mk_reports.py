#!/usr/bin/env python3
"""Writes selftest/RESULTS.md (hand-written mutants) and seeded/README.md (independent seeds)."""
import json, glob, os
V='/verif'
suite={}
try:
    for l in open(f'{V}/selftest/suite_results.txt'):
        p=l.split()
        if len(p)>=2: suite[p[0]]=p[1]
except FileNotFoundError: pass
rows=[]
try:
    for l in open(f'{V}/selftest/results.tsv'):
        f=l.rstrip('\n').split('\t')
        if len(f)>=3: rows.append(f+['']*(6-len(f)))
except FileNotFoundError: pass
out=["# Detection self-test: hand-written mutants","",
"Each mutant is a textual replacement against /repo HEAD (`selftest/mk_mutants.py`), applied in a scratch worktree and",
"checked with the quick tier of its property (`selftest/run_all.sh`, i.e. `VERIF_REPO=<worktree> ./check <ID> --tier quick`).",
"`check` = exit status of the check (1 = VIOLATION reported, 0 = missed, 2 = machinery). `suite` = does the repository's own",
"test suite still pass with the mutant (`selftest/suite_check.sh`; PASS means the existing tests cannot see it).","",
"| mutant | property | check | smallest bound | time | signatures | suite |","|---|---|---|---|---|---|---|"]
caught=missed=0
for f in rows:
    name,pid,rc,bound,t,sigs=f[:6]
    if rc=='1': caught+=1
    elif rc in('0','2','NOAPPLY'): missed+=1
    out.append(f"| {name} | {pid} | {rc} | {bound.replace('bound Some(','B=').replace(')','')} | {t} | {sigs.strip()} | {suite.get(name,'?')} |")
out.insert(7,f"**{caught} of {caught+missed} mutants detected.** Mutants whose suite column says FAIL are also caught by the repository's tests (kept for completeness).\n")
open(f'{V}/selftest/RESULTS.md','w').write('\n'.join(out)+'\n')
# seeded
out=["# Independently seeded property-breaking changes","",
"Each change was written by a fresh sub-agent that was given only the text of one property and its own scratch worktree of",
"google/tarpc (nothing from /verif). `confirm.sh` re-established, in a scratch worktree, that the change compiles, that the",
"repository's tests pass with it, that the agent's demonstration fails with it and passes without it, and then ran the",
"quick checks against the changed tree. `patch.diff`, `seed_demo.rs`, `notes.md` (the author's account of what it needs",
"to manifest) and `meta.json` are kept per change.","",
"| property | confirmed | what it needs to manifest (author's notes, abridged) | caught by | missed by | strengthening it triggered |","|---|---|---|---|---|---|"]
notes={
 'C01':"stale response for an abandoned call + another call outstanding; dispatch returns Pending without re-arming its read waker",
 'C02':"in-flight limit reached, a further call queued, the slot freed by *deadline expiry* (not by a reply), wake-only polling",
 'C03':"request transmitted, call abandoned, transport not ready (and flush does not help) at the poll that dequeues the cancellation",
 'C04':"handler completed and response buffered (sink blocked / stream not yet polled), then Cancel arrives",
 'C05':"request in flight, transport back-pressured (poll_ready Pending) past the deadline: expiry is not processed",
 'C06':"duplicate of an in-flight id carrying a *shorter* deadline: its orphan timer aborts the original early",
 'C07':"remaining duration exactly zero at serialization over a serde hop: decoded as ~136 years instead of now",
 'C08':"Cancel X then reuse of X read before the aborted handler is polled again, then a duplicate of X: second handler offered",
 'C09':"poll_ready Pending, poll_flush Ready(Ok), next poll_ready Ready(Err) within one dispatch poll: error swallowed",
 'C10':"as C03's seed, at shutdown: cancellation dropped under back-pressure, transport closed without it",
 'C11':"handler finished, suspended handing over its response (full response buffer), execute future dropped there: entry and timer leak",
 'C12':"at the limit, two further requests readable in one poll, sink readiness consumed by one item: second refusal written unchecked",
 'C13':"last channel of a key dropped and a same-key arrival pending at one poll: new tracker never recorded (dead Weak kept)",
 'C14':"as C12's seed: second throttle reply in one poll without poll_ready",
 'C15':"in-memory unbounded channel: writer dropped with messages still unread: reader reports end-of-stream early",
 'C16':"io::ErrorKind decoder rewritten as a table with an off-by-one bound: a response whose error kind number is exactly 18 panics the client's decoder",
 'C17':"service whose methods are not declared in alphabetical order: RequestName returns another method's name",
 'C18':"a Sampled context without an OpenTelemetry layer: child contexts drop the sampling decision",
 'C19':"before_and_after hook whose before part mutates the context and whose after part reads it",
 'C20':"retry stub: an attempt returns DeadlineExceeded and the policy wants to retry",
}
notes.update({
 'C01b':"in-flight table refactor: a call expires, the next call reuses its timer slot, then a late response for the expired id arrives: delivered to the other call",
 'C02b':"unmatched response read while the write side is Pending: dispatch returns Pending without a read waker; a later reply wakes nobody",
 'C03b':"guard drop reordered (cancel before close): needs the dispatch to run between the two steps while the abandoned call is queued behind the in-flight limit",
 'C04b':"cascade A->B->C: B's outbound client sink not ready at the poll that dequeues the nested call's cancellation: Cancel to C lost",
 'C05b':"deadline >= 2^32 ms (49.7 days) away: timer armed with timeout mod 2^32 ms (u32 truncation)",
 'C06b':"responses drained before expiry processing: a response buffered before the deadline is written by the first poll after it",
 'C07b':"Channel::call clamps the caller's deadline to context::current() (default now+10s): any deadline more than 10 s away is shortened",
 'C08b':"a request read and a response written in the same stream poll: the write arm wins and the read request is dropped un-offered",
 'C09b':"server: a write-path failure in the same poll that reads a fresh request is discarded",
 'C10b':"server: inbound side ended, last response written, poll_flush Pending at that moment: stream ends with the response unflushed",
 'C11b':"client: cancellation dequeued before the writability check; entry and timer never reclaimed under back-pressure",
 'C12b':"two excess requests readable in one poll at the limit: a double decrement of a local count admits the second",
 'C13b':"two keys: notifications polled before the listener and removed unconditionally: another key's stale notification erases a live entry",
 'C14b':"client: idle flush skipped when the in-flight map is empty: a just-written Cancel stays unflushed",
 'C15b':"ServerError.detail skipped when empty: not decodable under bincode",
 'C16b':"a per-poll work budget in BaseChannel::poll_next: >= 33 non-request steps in ONE poll with the 32nd a duplicate of an in-flight request (e.g. 33 duplicates, or 31 unknown cancels + 2 duplicates); arithmetic-overflow panic, so only in builds with overflow checks",
 'C17b':"methods with >= 11 arguments: server passes them in lexicographic order of generated names",
 'C18b':"under an OpenTelemetry layer the server reads the span's context before linking it to the transmitted one",
 'C19b':"before-hook lists of >= 3 hooks: `then` inserts after the head instead of appending",
 'C20b':"round-robin cursor folded back with a separate store after fetch_add: lost updates at the wrap under real threads",
})
notes.update({
 'C01c':"request id read before the send to the dispatch and incremented after it: calls that park on a full request buffer share an id; a late reply for the first completes the second",
 'C02c':"ensure_writeable returns Pending right after a successful flush: hangs only over a sink that never wakes a task it told 'not ready' when that task's own flush freed the room",
 'C03c':"pump_write: once the request queue is closed the cancellation queue is assumed closed too: call abandoned and last handle dropped before the next dispatch poll, Cancel never sent",
 'C04c':"same site as C03c seen from the chain: a handler that owns its downstream client is aborted, the nested call and the last handle go together, the Cancel to the next hop is lost",
 'C05c':"cancel_request keeps the timer and poll_expired yields None for an untracked id: after an abandoned earlier-deadline call's timer fires, nobody is registered for the later deadline",
 'C06c':"BaseChannel::poll_next returns None at once when the transport is done: expiry (and cancellation) of requests still in flight after a half-close is never processed",
 'C07c':"serde default for a missing deadline removed: a JSON request without a deadline member is rejected instead of getting the 10 s default",
 'C08c':"deadline timer armed before the duplicate check: an ignored duplicate leaves a timer that later 'expires' whatever request then uses the id; the next duplicate gets a second handler",
 'C09c':"terminal error taken (not cloned) at the start of shutdown: if the drain returns Pending the failure is forgotten and the dispatch carries on over the failed transport",
 'C10c':"a stale cancellation (request no longer in flight) is read as 'cancellation queue closed': live cancellations behind it are not sent before the transport is closed",
 'C11c':"same change as C08c seen as a leak: every duplicate leaves a timer nothing removes",
 'C12c':"response guard moved into the handler future and disarmed only after a response: an aborted handler's guard untracks the request that has taken over its id, so the limit admits one too many",
 'C13c':"'saturated key' cache set when a key is shed and cleared only on the key's LAST close: after a partial close arrivals are shed below the limit",
 'C14c':"server: a write-half failure coinciding with a freshly read request is swallowed; the next poll writes to the failed transport",
 'C15c':"serde transport: 'needs flush' flag cleared before the inner flush completes: after one Pending write the send resolves with bytes still buffered; dropping the writer loses them",
 'C16c':"timer cap applied only above 2 years: on an aged connection with a long-lived request in flight a mid-range deadline (693 days at age 300 days) leaves the timer wheel's range",
 'C17c':"server sets the span's remote parent after reading the span's context: under an OpenTelemetry layer the implementor is handed a context of another trace",
 'C18c':"trace id serialized big-endian, read little-endian: byte-reversed at every serializing hop",
 'C19c':"before-hook list uses Result::and: the rest of the list runs although an earlier hook failed",
 'C20c':"round robin picks the backend by peeking and advances the cursor after the await: overlapping calls all go to the same backend",
})
notes.update({
 'C01d':"Clone gives each handle its own id block; a clone of a clone overlaps its grandparent's block: two live handles issue the same ids, a late reply for one completes the other's call",
 'C02d':"the 'skip abandoned queued request' loop uses try_recv and returns Pending on Empty: no waker is registered on the request queue, the next call wakes nobody",
 'C03d':"a failed write of the Cancel message is only logged and the dispatch carries on: transmitted, abandoned, no Cancel, connection not lost",
 'C04d':"the at-capacity check moved into ensure_writeable, which cancellations also pass through: a client at max_in_flight_requests stops sending Cancel",
 'C05d':"the age of the deadline queue is read before an idle queue is replaced: the first call after an idle period is capped by 730 d minus the idle time (fails early / at once after 800 idle days)",
 'C06d':"MaxRequests waits for sink readiness before every read, also far below the limit: while the sink is not ready no expiry is processed",
 'C07d':"span.set_context skipped when the request's trace id is zero: behind an untraced caller a traced server's context::current() loses the request deadline (now + 10 s instead)",
 'C08d':"a request whose deadline has already passed when it is read is skipped like a duplicate: no handler is offered for it",
 'C09d':"server: a flush failure after the client's half-close with nothing in flight is only logged, the stream ends cleanly and the last response is lost",
 'C10d':"client: on read end-of-stream the dispatch first waits for poll_close: with the write side backed up it neither stops nor fails the calls",
 'C11d':"client complete_request returns early when the caller is already gone and leaves the deadline timer armed",
 'C12d':"server pump flushes only after a handler response: a refusal written by the limiter is never flushed on a buffering transport",
 'C13d':"the open-channel table is keyed by the key's hash: two unequal keys with equal hashes share one count",
 'C14d':"server: at half-close with nothing in flight a Pending flush falls through and the stream ends with the response unflushed",
 'C15d':"tcp::connect / unix::connect ignore config_mut(): a non-default framing configured on both ends is honoured by the listener only",
 'C16d':"deadline timer armed before the duplicate check AND poll_expired expects every timer to have an entry: one duplicate of an in-flight id panics the channel when its timer fires",
 'C17d':"(not a C17 violation: RequestName::name() is untouched) the span's otel.name is recorded inside the handler future, so a request aborted before its first poll keeps the placeholder span name",
 'C18d':"client: a caller-supplied trace id of 0 is replaced by a random id",
 'C19d':"HookThenServe clamps the deadline a before-hook set to the request's: a hook that extends the deadline is undone for everything behind the wrapper",
 'C20d':"consistent hash takes the index from the hash's high bits for power-of-two backend counts: with exactly one backend the shift is by 64 (panic)",
})
notes.update({
 'C01e':"in-flight table remembers the last inserted id and drops replies for larger ids as 'never sent': requests reach the dispatch out of id order when two callers that waited for buffer room hand over in reverse (needs 4 callers, buffer 2); the dropped reply is the call's own",
 'C02e':"deadline timers polled only after the flush completed: while a flush is pending nobody is registered with the timer, an expiring call is not woken",
 'C03e':"the cancellation queue becomes bounded by max_in_flight_requests with try_send: more abandonments than that between two dispatch polls lose the transmitted call's Cancel",
 'C04e':"server: a Cancel for an unknown id returns Pending from poll_next with no wake-up arranged: everything behind it stays unread",
 'C05e':"an error reply whose kind is TimedOut is turned into DeadlineExceeded: a call fails with the deadline error long before its deadline",
 'C06e':"decoder treats a wire deadline of exactly zero like an overflow: a request that has expired on arrival over a serializing hop gets a deadline 136 years away and is never aborted",
 'C07e':"time_until saturates at two years and the serializer uses it: deadlines further away are shortened at every serializing hop",
 'C08e':"BaseChannel's sink transmits every response handed to it, tracked or not: on the requests()/execute() routes a response still buffered when its request is cancelled goes out",
 'C09e':"a failed write of a Cancel is treated like a failed request write (only that 'call' fails, which no longer exists): the transport error is lost",
 'C10e':"run() loops again when a reply was read in the iteration that closed the write half: poll_ready / a second poll_close on a closed sink",
 'C11e':"cancellation queue bounded to 1024 with try_send: more than 1024 abandonments between two polls of the reclaiming task leave entries and timers behind",
 'C12e':"BaseChannel::poll_next drains its queue of application-side cancellations after the transport read: a slot given back by an abandoned handler is not counted when the next request is read - refused below the limit",
 'C13e':"match arm order: an admitted arrival is thrown away when a close notification is ready in the same iteration",
 'C14e':"same dirty-flag idea as C12d, found independently: throttle replies bypass the flag and stay unflushed",
 'C15e':"serde transport reports end-of-stream on its READ side once its own sink was closed: after a half-close the other end's messages are lost",
 'C16e':"client: after a reply that matches no call, run() returns Pending although the transport had items and registered no waker: valid replies behind it are not read",
 'C17e':"macro adds serde aliases with the method's own name: `GetItem` (variant Getitem, alias GetItem) shadows `get_item` (variant GetItem) under JSON when declared first - the wrong implementor method runs",
 'C18e':"span -> context conversion treats 'span enabled' as 'span has OpenTelemetry data': under a plain fmt subscriber contexts become all-zero",
 'C19e':"after-hook skipped when the context's deadline (possibly shortened by an outer before-hook) has lapsed",
 'C20e':"retry policy consulted a second time inside a trace! field: only when the callsite is enabled (TRACE subscriber)",
})
notes.update({
 'C01f':"in-flight table keyed by the low 32 bits of the request id: a response for an id that differs from a live call's id only above bit 31 completes that call",
 'C02f':"a work budget of 16 read/write passes per dispatch poll; when it runs out after write-side progress no waker is registered: a burst of >= 17 calls leaves requests queued and timers unarmed",
 'C03f':"no deadline timer is armed for a call whose deadline is more than two years away, and cancel_request bails out when there is no timer: the Cancel for such an abandoned call is never written",
 'C04f':"MaxRequests' re-check after reading a request drops the '- 1' (the request counts itself): a Cancel and a new request read in one poll at the limit - the new request is refused although a slot was freed",
 'C05f':"the Stub impl for Channel turns an Ok reply into DeadlineExceeded when the caller is polled after the deadline, although the dispatch processed the reply in time",
 'C06f':"server side of C05d: the first request after an idle period is capped by 730 days minus the idle time",
 'C07f':"the Retry stub gives a retry whose deadline has already passed a fresh default deadline (now + 10 s)",
 'C08f':"an expiry budget of 16 per BaseChannel::poll_next iteration: with >= 17 requests expiring together and a fresh request readable, responses of the rest are still transmitted",
 'C09f':"a failed write of the limiter's refusal is only logged: no ChannelError::Write, the channel keeps serving over the failed transport",
 'C10f':"the flush flag of C12d/C14e once more: after a half-close the stream ends with the limiter's refusal unflushed",
 'C11f':"the client's in-flight gate compares against pending_request_buffer instead of max_in_flight_requests: more requests in flight than the maximum when the buffer is the larger one",
 'C12f':"Incoming::max_concurrent_requests_per_channel(0) silently becomes 1",
 'C13f':"a yielded channel gives its per-key slot back as soon as its request stream ends (peer hung up) although the application still holds it",
 'C14f':"MaxRequests flushes and retries in a loop when the sink is not ready: an unbounded retry inside one poll over a transport whose flush completes without freeing room",
 'C15f':"error kind table: the writer searches only the first 16 entries, UnexpectedEof (17) is written as Other",
 'C16f':"the deadline serializer subtracts a 1 ms margin with a plain '-': panics when less than 1 ms is left",
 'C17f':"trace::Context::new_child fills the rest with Default: a child context loses the Sampled flag, the implementor is handed Unsampled",
 'C18f':"set_context returns early for Unsampled requests: under an OpenTelemetry layer behind an untraced caller the server span becomes a root span with a random trace id",
 'C19f':"an inherent HookThenServe::before shadows RequestHook::before and folds the hooks in the wrong order - only when .before(a).before(b) is chained on the concrete type",
 'C20f':"RoundRobin clones copy the cursor's value instead of sharing it",
})
strength={
 'C01f':"unknown ids now include ids that agree with live ids in their low 32 bits / all bits but the top one",
 'C02f':"burst part in C02: n in {1..300} (thorough ..2049) calls at once to a silent peer, wake-only polling: all transmitted, all fail at the deadline",
 'C03f':"abandoned calls with a 10-year deadline (another handle kept alive so that the dispatch keeps running)",
 'C04f':"C04 applies the admission rule of C12 when a cancellation has been read (C04-c-still-counted-by-limiter)",
 'C05f':"callers with their own handle go through the Stub trait (as generated clients and the stubs do)",
 'C06f':"server connections idle for 2 / 500 / 800 days before the first request (start_age_ms)",
 'C07f':"caught by C20 (the change is in the retry stub): every attempt must be made with the caller's context, also when its deadline has already passed",
 'C08f':"burst part in C06 and C08: n requests expiring together, handlers finishing afterwards, a fresh request arriving",
 'C12f':"the limit configured through the Incoming adaptor (limit_via_incoming)",
 'C13f':"new event HangUp(i): the peer of a held channel ends its stream, the application polls it once and keeps it",
 'C16f':"a panic raised by tarpc (or below it) while the harness prepares or feeds well-typed values outside the guarded runs is a verdict (was: the checker's own crash, exit 2)",
 'C17f':"the sampling decision is part of what the grid compares (caller's vs on the wire vs implementor's)",
 'C18f':"OpenTelemetry cells with an untraced head caller, Sampled and Unsampled",
 'C19f':"106 nestings are additionally chained directly on the concrete types (generated source hooks_concrete.rs)",
 'C01e':"judged a C05 violation (the reply is the call's own and is not delivered) rather than C01: 4 callers over a buffer of 2 added to C05",
 'C05e':"error replies now carry kind TimedOut for even ids; C05 configurations answered with an error",
 'C06e':"requests delivered through a serializing hop (bincode round trip at delivery) in C06, judged against the deadline the peer meant",
 'C07e':"remaining durations beyond two years (1100 days, 109 years) in the C07 grid: the propagated deadline is not subject to the timers' cap",
 'C11e':"new part of C11: bursts of n in {1..2049} (thorough ..10000) calls / requests abandoned between two polls, on both ends",
 'C12e':"application-side handler drops in C12's alphabet; a request given up before the reading poll began no longer counts as in flight",
 'C15e':"socket grid: one end closes its writing side, the other keeps writing, then drops",
 'C16e':"the C16 client driver polls tasks only when woken",
 'C17e':"every grid definition also runs over the JSON and bincode transports; twin-name collision candidates (GetItem / get_item in both orders); a mass of compile failures is machinery, not 'rejected definitions'",
 'C20e':"C20's grids run a second time with all tracing callsites enabled; so does every DFS harness (bounds 0-1)",
 'C01d':"handle topologies Root / Middle / Grand (the original, a clone that has been cloned, the grandchild)",
 'C03d':"transient Send/Ready/Flush faults in C03's configurations",
 'C04d':"chains whose clients have max_in_flight_requests = 1",
 'C05d':"connections that have been idle for 2 / 800 days before the first call (start_age_ms)",
 'C06d':"the known-finding discriminator now requires the limit to be REACHED (reported in-flight count >= limit); before, any 'limit configured + sink not ready + no read' poll was filed under the known signature - which would have hidden this change",
 'C07d':"OpenTelemetry cells with an untraced head caller (only server-side tasks polled under the subscriber) and the all-zero trace id",
 'C12d':"Coupled transport transmits only what it was asked to flush (poll_flush / poll_close / poll_ready on a full buffer), FlushFrees is never drained by the environment, Coupled cap 2 in C12; new rule C12-refusal-not-delivered",
 'C13d':"the keys of the BFS are unequal but hash alike",
 'C15d':"the shipped tcp and unix socket transports, six framing configurations set alike on both ends, both codecs, real loopback / unix sockets",
 'C16d':"every sequence of <= 5 (thorough 6) actions on one id out of {held request with 1/10/30 s deadline, answered request, cancel, wait 2 s, wait 40 s}, then a probe",
 'C17d':"none: outside C17's observables (arguments, context, result, RequestName::name())",
 'C18d':"caller-supplied trace ids now include 0 and u128::MAX; the engine reports a violation that reproduces by signature even when the two replays differ (the change draws a random id)",
 'C02c':"NOT counted as a miss: the sink in the demonstration breaks futures::Sink::poll_ready's contract (and C02's stated environment: capacity returning wakes the task); a FlushFrees transport flavour that frees room in poll_flush AND wakes was added - with it the change costs one extra poll and nothing else",
 'C04c':"chain harness gained own_clients (each handle owned by the future that uses it, nothing keeps it alive)",
 'C05c':"abandonment added to C05's alphabet and scripted (one of two calls with different deadlines abandoned)",
 'C08c':"C08 configurations with a duplicate carrying a shorter deadline, the clock and a second duplicate; the peer model no longer lets an ignored duplicate shorten 'in flight'; tracked() no longer calls an unexplained abort uncertain",
 'C12c':"cancel + immediate id reuse scripted in C12 and C11 (no application-side handler drops in that alphabet)",
 'C15c':"medium returns Pending on every subset of the first three writes and first two flushes, with and without a final close: a resolved send is on the medium",
 'C16c':"mid-range deadlines (10 s .. 796 d) and more ages in the connection-age grid",
 'C17c':"the grid taps the wire at the server transport and runs a second time under a tracing-opentelemetry layer",
 'C04b':"chain harness gained Gated hops (client-side sink made not-ready by a harness event)",
 'C06b':"time-based oracle C06-response-after-deadline; it then exposed D-C06b on the unchanged tree (fixed)",
 'C17b':"grid extended to arities 10, 11, 13 and an all-u8 type row",
 'C20b':"second loom plan: 2 threads x 4 calls + 1 over 2 backends at preemption bound 4 (an imbalance needs two racing wraps)",
 'C16b':"flood grid with a request really held in flight (all run-length pairs <= N, one poll); harness built with overflow-checks and debug-assertions; wake-honouring C16 drivers; the author's asides led to D-C16d/e",
 'C05':"new oracle C05-expiry-not-processed (caller woken after a dispatch poll past D+1ms); snap records wake masks",
 'C06':"duplicates with a shorter deadline (dup_deadline_ms) added to the C06 alphabet",
 'C08':"scripted cancels + burst delivery + clean id reuse after cancel/expiry added to the server alphabet",
 'C09':"independent-readiness flavour added to the C09 bases",
 'C12':"mock bounded sinks now reject writes when full (strict), so the lost refusal shows as C12-dropped",
 'C14':"(same strict sink)",
 'C20':"retry grid now ranges over every RpcError kind, not only server errors",
}
for d in sorted(glob.glob(f'{V}/seeded/C*/meta.json')):
    m=json.load(open(d)); pid=os.path.basename(os.path.dirname(d))
    m['needs_to_manifest']=notes.get(pid,''); m['strengthening_triggered']=strength.get(pid,'')
    json.dump(m,open(d,'w'),indent=1)
    out.append(f"| {pid} | {'yes' if m.get('confirmed') else 'NO'} | {notes.get(pid,'')} | {m.get('checks_that_catch_it','')} | {m.get('checks_that_miss_it','')} | {strength.get(pid,'')} |")
open(f'{V}/seeded/README.md','w').write('\n'.join(out)+'\n')
print("reports written")
