#!/usr/bin/env python3
"""Regenerates /verif/MANIFEST.json from the table below and validates it against the schema."""
import json, sys, subprocess
HOOK_COMMITS = subprocess.run(
    ["git", "-C", "/repo", "log", "--format=%h %s", "--grep=^verif hook"],
    capture_output=True, text=True).stdout.strip().splitlines()

TRUST = ("tokio mpsc/oneshot, futures Abortable and tokio-util DelayQueue internals are trusted; "
         "interleavings are explored at the granularity of whole task polls, environment events and the "
         "yield points in the client call guard's drop / tracker drop; bounds as in evidence")

CHECKS = {
 # id: (level, technique, text, design_ref, engine)
 "C01": ("model_checking", "stateless deviation-bounded DFS over schedules and peer answers on the real client dispatch; differential rerun for stray replies",
         "every execution (<= B deviations) of 1-3 concurrent calls over cloned handles against the real RequestDispatch: each success carries a token the peer sent for that call's own id, no token reaches two calls, ids never repeat, and removing a stray reply leaves outcomes and wire unchanged", "5/C01", "mc"),
 "C02": ("model_checking", "stateless deviation-bounded DFS with wake-only polling; quiescence oracles at frozen and final clock",
         "tasks are polled only after their waker fired - each poll hands over a fresh waker and only the latest counts -, so a lost wakeup is a reachable stuck state; the shipped in-memory transports are driven through all two-way histories with wake obligations; all executions within the bound end with every call resolved and no enabled work left undone", "5/C02", "mc"),
 "C03": ("model_checking", "stateless deviation-bounded DFS incl. parking inside the call guard's drop (yield hooks); exhaustive size sweep (one abandonment among n calls in flight, n = 1..130 and around hash-table-full sizes)",
         "abandonment at every suspension point x parking between close() and cancel() x capacity/transport states x peer policy; wire-level rules R1-R4 on every execution", "5/C03", "mc"),
 "C04": ("model_checking", "stateless deviation-bounded DFS over cancel position x handler stage x limit x sink state on the real server channel; differential rerun for stray cancels",
         "after the channel poll that read Cancel(id) for a tracked request its handler is never polled again, is dropped by quiescence, no response follows, in_flight excludes it; cancels for unknown/finished ids change nothing (requests and execute routes)", "5/C04", "mc"),
 "C05": ("model_checking", "stateless deviation-bounded DFS over schedules and virtual-clock steps {D-1ms, D, D+1ms}",
         "deadline grid x clock stepping x reply/timer order x queueing on the real dispatch with a hooked virtual clock: never early, reply-before-deadline wins, resolved once D+1ms has passed", "5/C05", "mc"),
 "C06": ("model_checking", "stateless deviation-bounded DFS over deadline grid x virtual-clock steps x handler completion order (values and rejections) x limit x blocked sink; exhaustive size sweeps of n expirations (hand-driven, spawned, spawned with distinct deadlines and a queued response)",
         "handlers are never aborted before their deadline; once a channel poll has run at >= D+1ms the handler makes no progress and nothing is sent for it; other requests untouched", "5/C06", "mc"),
 "C07": ("exploration", "exhaustive grid over chain depth x transport assignment x remaining duration x transit delay x subscriber regime on real client/server hops with a hooked virtual clock (exact arithmetic)",
         "handler-observed deadline == caller's deadline + transit exactly (serde hops) / == caller's Instant (in-memory), never earlier, never beyond accumulated transit, already-passed arrives as the receive instant, nested calls carry the handler's context, omitted deadline = +10s", "5/C07", "mc"),
 "C08": ("model_checking", "stateless deviation-bounded DFS over peer sequences (fresh/duplicate/reused ids, cancels, eof, channel drop) x completion orders",
         "one offer per request read unless its id is tracked; at most one response per request instance, only after its handler finished and before cancel/drop; every response matches a request read on the channel", "5/C08", "mc"),
 "C09": ("fault_enumeration", "exhaustive fault-plan enumeration over every transport call of every <=1-deviation base execution (one-shot, sticky, EOF), replayed on the real client dispatch and server channel",
         "for every base and every k-th poll_ready/start_send/poll_flush/poll_close/poll_next: activity-tagged error, outstanding calls fail with a connection error, per-request send failure contained, nothing hangs, no panic; server stream reports the activity, handlers aborted on drop", "5/C09", "mc"),
 "C10": ("model_checking", "stateless deviation-bounded DFS over handle drops, peer close and abandonment; exhaustive size sweep of the shutdown drain on a spawned dispatch (n = 1..140 calls x replies x unsent calls, tokio's cooperative budget on)",
         "handle drop / peer close at every step: owed cancels precede the single close, nothing after close, prompt stop on EOF with all calls failing", "5/C10", "mc"),
 "C11": ("model_checking", "stateless deviation-bounded DFS with in-flight/timer accessors after every dispatch poll",
         "tracked count bounded by the configured maximum and by the wire-derived count at every poll; zero entries and zero timers at frozen-clock quiescence once all calls ended, over runs that reuse slots", "5/C11", "mc"),
 "C12": ("model_checking", "stateless deviation-bounded DFS over L in 0..3 x arrivals/cancels/duplicates x completion and write order x sink state against a counting reference model",
         "a request is handed over only below the limit, refused (exactly one WouldBlock reply, never executed) only at the limit, duplicates ignored", "5/C12", "mc"),
 "C13": ("model_checking", "explicit-state breadth-first search over all event histories of the real MaxChannelsPerKey (replayed from scratch), incl. a listener poll inside the tracker's drop; scripted families beyond the search depth (many keys, revivals under a backlog of close notices, spawn_incoming resets)",
         "every history up to the depth over {arrive a, arrive b, poll, close i, close i with nested poll at the yield point} for n in {1,2} agrees with a per-key counter at every admission decision", "5/C13", "mc"),
 "C14": ("model_checking", "stateless deviation-bounded DFS over four transport shapes (always ready, socket-like, bounded-queue-like, own buffer freed by flush) with a Sink-contract monitor on the call log",
         "ready-before-send, no write after close/error, no idle with unflushed items, no retry inside one poll, on every execution within the bound", "5/C14", "mc"),
 "C15": ("exploration", "exhaustive enumeration of fragmentation schedules (all <=3-chunk cuts, write sizes, Pending placements on writes and flushes, truncations), channel histories, and framing configurations of the shipped tcp/unix socket transports, over a message corpus on the real transports",
         "every corpus sequence (length 1-3) through the real serde_transport (Json, Bincode) under every listed write policy and every <=3-chunk read cut reads back identical and ends with end-of-stream; every io::ErrorKind per the 18-entry table; omitted optional fields decode to defaults; in-memory channels over all send/recv/drop histories", "5/C15", "mc"),
 "C16": ("exploration", "exhaustive single-byte mutation / truncation / boundary-value enumeration into real endpoints with catch_unwind, three subscriber regimes; exhaustive grids of histories (flood run-length pairs within one poll, connection age x deadline, short timed action sequences on one id)",
         "every 1-byte substitution and truncation of valid frames, boundary length prefixes, all bodies <=2 bytes, boundary-valued well-typed messages: no panic at either end, nothing stuck, a probe request is still served after every well-formed odd message", "5/C16", "mc"),
 "C18": ("model_checking", "stateless deviation-bounded DFS with distinct caller trace contexts; wire-level trace oracle",
         "request and cancel trace fields on the wire for every schedule incl. cancellation at every point", "5/C18", "mc"),
 "C17": ("exploration", "exhaustive enumeration over a grid of programs (service definitions; pairwise cover in quick, cover + 900 grid points in thorough), each compiled with the real macro and executed over a real client/server pair, without a subscriber and under a tracing-opentelemetry layer",
         "for every accepted definition and every method: exactly one invocation of that method with the arguments in order and the request's context, the right value back, RequestName '<Service>.<method>'; collision candidates are rejected at compile time or behave", "5/C17", "macro_grid"),
 "C19": ("exploration", "exhaustive enumeration of hook nestings (<=3 wrappers, 259 generic instantiations) x behaviour assignments against a reference interpreter; end-to-end grid through execute on a real channel + a real client (failing stage x error-detail length)",
         "for every nesting and every assignment of before/after/handler behaviours the invocation log (order, context seen, result seen) and the final Result equal the reference interpreter's", "5/C19", "mc"),
 "C20": ("exploration", "exhaustive grids over backends x call sequences x clone patterns x first-poll orders x hashers x retry tables; loom (preemption-bounded exhaustive interleavings) on the extracted round-robin cursor module",
         "round robin balanced at every prefix incl. across clones and concurrent first polls, and under every thread interleaving within the loom bound; consistent hash valid and stable for boundary hashers; retry passes the identical request, attempts 1,2,3.. and the last result", "5/C20", "mc + mc-loom"),
}

NOT_YET = {}

def main():
    props = [json.loads(l)["id"] for l in open("/verif/properties.jsonl")]
    checks = []
    for pid in props:
        if pid not in CHECKS: continue
        level, tech, text, ref, engine = CHECKS[pid]
        checks.append({
            "property_id": pid,
            "quick_cmd": f"./check {pid} --tier quick",
            "thorough_cmd": f"./check {pid} --tier thorough",
            "evidence_file": f"/verif/evidence/{pid}.json",
            "replay_cmd_template": f"./check {pid} --replay {{path}}",
            "engine": engine,
            "level_claimed": {"category": level, "text": text, "design_ref": f"DESIGN.md §{ref}"},
            "level_note": TRUST,
            "technique": tech,
        })
    na = [{"property_id": p, "reason": NOT_YET.get(p, "check not built yet in this round (see DESIGN.md §11); will be claimed once its harness exists")}
          for p in props if p not in CHECKS]
    m = {
        "version": 1,
        "setup_cmd": "./setup.sh",
        "hooks": {
            "guard": "--cfg tarpc_verif",
            "enable": "RUSTFLAGS=\"--cfg tarpc_verif\" (set by ./check; the harness crate depends on /repo/tarpc by path)",
            "baseline_off_cmd": "cd /repo && CARGO_NET_OFFLINE=true cargo test --workspace --no-fail-fast --offline",
            "source_commits": HOOK_COMMITS,
            "add_only": True,
        },
        "engines": [
            {"name": "mc", "path": "/verif/mc", "serves_properties": [c for c in CHECKS if CHECKS[c][4].startswith("mc")],
             "kind_free_text": "stateless model checker: deviation-bounded exhaustive DFS over choice sequences, every transition a call into the real tarpc code under a harness-owned scheduler, clock, transport and fault injector"},
            {"name": "macro_grid", "path": "/verif/macro_grid", "serves_properties": ["C17"],
             "kind_free_text": "program-family enumerator: generates the service-definition grid, compiles it against /repo with the real proc macro, runs every accepted definition"},
            {"name": "mc-loom", "path": "/verif/mc-loom", "serves_properties": ["C20"],
             "kind_free_text": "loom model of the round-robin cursor: build.rs cuts `mod cycle` out of /repo's load_balance.rs and swaps std::sync for loom::sync; exhaustive interleavings within a preemption bound"},
        ],
        "checks": checks,
        "not_applicable": na,
        "notes": "See DESIGN.md. known_findings.json lists genuine defects (fixed or recorded).",
    }
    json.dump(m, open("/verif/MANIFEST.json", "w"), indent=1)
    try:
        import jsonschema
        jsonschema.validate(m, json.load(open("/root/.vp/MANIFEST.schema.json")))
        print("MANIFEST valid;", len(checks), "checks;", len(na), "not_applicable")
    except ImportError:
        print("jsonschema not available; wrote MANIFEST without validating")
if __name__ == "__main__":
    main()
