#!/usr/bin/env python3
"""Generates selftest/mutants/*.diff from (file, old, new) replacements against /repo HEAD."""
import subprocess, sys, os
R='/repo/tarpc/src/'
M = {
 'c02_stop_loop_after_read': ('client.rs',
  "                (Poll::Ready(Some(())), _) | (_, Poll::Ready(Some(()))) => {}\n",
  "                (Poll::Ready(Some(())), _) => return Poll::Pending,\n                (_, Poll::Ready(Some(()))) => {}\n"),
 'c05_no_expiry_poll': ('client.rs',
  "        if let Poll::Ready(Some(_)) = self\n            .in_flight_requests()\n            .poll_expired(cx, || Err(RpcError::DeadlineExceeded))\n        {",
  "        if let (true, Poll::Ready(Some(_))) = (false, Poll::<Option<u64>>::Pending)\n        {"),
 'c05_timer_double': ('client/in_flight_requests.rs',
  "                let timeout = ctx.deadline.time_until();",
  "                let timeout = ctx.deadline.time_until() * 2;"),
 'c05_timer_half': ('client/in_flight_requests.rs',
  "                let timeout = ctx.deadline.time_until();",
  "                let timeout = ctx.deadline.time_until() / 2;"),
 'c09_flush_reported_as_read': ('client.rs',
  "            .map_err(|e| ChannelError::Flush(Arc::new(e)))",
  "            .map_err(|e| ChannelError::Read(Arc::new(e)))"),
 'c09_server_swallows_write_error': ('server.rs',
  "                .start_send(response)\n                .map_err(|e| ChannelError::Write(Arc::new(e)))\n        } else {",
  "                .start_send(response)\n                .or(Ok(()))\n        } else {"),
 'c09_send_failure_ignored': ('client.rs',
  "                self.in_flight_requests()\n                    .complete_request(request_id, Err(RpcError::Send(Box::new(e))));",
  "                let _ = e;"),
 'c09_read_error_ends_ok': ('client.rs',
  "            .map_err(|e| ChannelError::Read(Arc::new(e)))\n            .map_ok(|response| {",
  "            .map(|r| match r { Some(Err(_)) => None, o => o })\n            .map_err(|e: C::Error| ChannelError::Read(Arc::new(e)))\n            .map_ok(|response| {"),
 'c13_limit_gt': ('server/limits/channels_per_key.rs',
  "                if count >= usize::try_from(*self_.channels_per_key).unwrap() {",
  "                if count > usize::try_from(*self_.channels_per_key).unwrap() {"),
 'c13_stale_notification_removes_live_entry': ('server/limits/channels_per_key.rs',
  "                    if entry.get().strong_count() == 0 {\n                        entry.remove();\n                    }",
  "                    entry.remove();"),
 'c13_dead_tracker_counts_as_one': ('server/limits/channels_per_key.rs',
  "                let count = o.get().strong_count();",
  "                let count = o.get().strong_count().max(1);"),
 'c10_close_before_cancels': ('client.rs',
  "        let canceled_requests_status = match self.as_mut().poll_write_cancel(cx)? {\n",
  "        let canceled_requests_status = if matches!(pending_requests_status, ReceiverStatus::Closed) {\n            ReceiverStatus::Closed\n        } else {\n            match self.as_mut().poll_write_cancel(cx)? {\n                Poll::Ready(Some(())) => return Poll::Ready(Some(Ok(()))),\n                Poll::Ready(None) => ReceiverStatus::Closed,\n                Poll::Pending => ReceiverStatus::Pending,\n            }\n        };\n        #[cfg(any())]\n        let _ = match self.as_mut().poll_write_cancel(cx)? {\n"),
 'c10_close_after_one_cancel': ('client.rs',
  "        let canceled_requests_status = match self.as_mut().poll_write_cancel(cx)? {\n            Poll::Ready(Some(())) => return Poll::Ready(Some(Ok(()))),",
  "        let canceled_requests_status = match self.as_mut().poll_write_cancel(cx)? {\n            _ if matches!(pending_requests_status, ReceiverStatus::Closed) => ReceiverStatus::Closed,\n            Poll::Ready(Some(())) => return Poll::Ready(Some(Ok(()))),"),
 'c11_cancel_keeps_timer': ('client/in_flight_requests.rs',
  "            self.request_data.compact(0.1);\n            self.deadlines.remove(&request_data.deadline_key);\n            Some((request_data.ctx, request_data.span))",
  "            self.request_data.compact(0.1);\n            Some((request_data.ctx, request_data.span))"),
 'c11_capacity_gt': ('client.rs',
  "        if self.in_flight_requests().len() >= self.config.max_in_flight_requests {",
  "        if self.in_flight_requests().len() > self.config.max_in_flight_requests {"),
 'c14_cancel_without_ready': ('client.rs',
  "    ) -> Poll<Option<Result<(context::Context, Span, u64), ChannelError<C::Error>>>> {\n        ready!(self.ensure_writeable(cx)?);\n",
  "    ) -> Poll<Option<Result<(context::Context, Span, u64), ChannelError<C::Error>>>> {\n"),
 'c14_no_flush_before_pending': ('client.rs',
  "                // No more messages to process, so flush any messages buffered in the transport.\n                ready!(self.poll_flush(cx)?);\n",
  "                // No more messages to process, so flush any messages buffered in the transport.\n"),
 'c18_cancel_default_trace': ('client.rs',
  "            trace_context: context.trace_context,\n            request_id,\n        };",
  "            trace_context: { let _ = context; Default::default() },\n            request_id,\n        };"),
 'c04_cancel_no_abort': ('server/in_flight_requests.rs',
  "            self.request_data.compact(0.1);\n            abort_handle.abort();\n            self.deadlines.remove(&deadline_key);",
  "            self.request_data.compact(0.1);\n            let _ = &abort_handle;\n            self.deadlines.remove(&deadline_key);"),
 'c06_timer_half': ('server/in_flight_requests.rs',
  "                let timeout = deadline.time_until();",
  "                let timeout = deadline.time_until() / 2;"),
 'c06_expiry_no_abort': ('server/in_flight_requests.rs',
  "                self.request_data.compact(0.1);\n                abort_handle.abort();\n                tracing::error!(\"DeadlineExceeded\");",
  "                self.request_data.compact(0.1);\n                let _ = &abort_handle;\n                tracing::error!(\"DeadlineExceeded\");"),
 'c08_dup_replaces': ('server/in_flight_requests.rs',
  "            hash_map::Entry::Occupied(_) => Err(AlreadyExistsError),\n        }\n    }\n\n    /// Cancels an in-flight request.",
  "            hash_map::Entry::Occupied(mut o) => {\n                let timeout = deadline.time_until();\n                let (abort_handle, abort_registration) = AbortHandle::new_pair();\n                let deadline_key = self.deadlines.insert(request_id, timeout);\n                let old = o.insert(RequestData { abort_handle, deadline_key, span });\n                self.deadlines.remove(&old.deadline_key);\n                Ok(abort_registration)\n            }\n        }\n    }\n\n    /// Cancels an in-flight request."),
 'c08_untracked_response_written': ('server.rs',
  "            // If the request isn't tracked anymore, there's no need to send the response.\n            Ok(())",
  "            // If the request isn't tracked anymore, there's no need to send the response.\n            self.project()\n                .transport\n                .start_send(response)\n                .map_err(|e| ChannelError::Write(Arc::new(e)))"),
 'c10_server_ends_on_eof': ('server.rs',
  "                    (Closed, Closed) => Closed,\n                    (Pending, Closed) | (Closed, Pending) | (Pending, Pending) => Pending,",
  "                    (Closed, _) | (_, Closed) => Closed,\n                    (Pending, Pending) => Pending,"),
 'c11_server_guard_never_armed': ('server.rs',
  "                response_guard.cancel = true;\n",
  "                response_guard.cancel = false;\n"),
 'c12_limit_gt': ('server/limits/requests_per_channel.rs',
  "        while self.as_mut().in_flight_requests() >= *self.as_mut().project().max_in_flight_requests\n",
  "        while self.as_mut().in_flight_requests() > *self.as_mut().project().max_in_flight_requests\n"),
 'c14_throttle_without_ready': ('server/limits/requests_per_channel.rs',
  "            ready!(self.as_mut().project().inner.poll_ready(cx)?);\n",
  ""),
 'c14_server_no_flush_idle': ('server.rs',
  "                // No more requests to process, so flush any requests buffered in the transport.\n                ready!(self.channel_pin_mut().poll_flush(cx)?);\n",
  "                // No more requests to process, so flush any requests buffered in the transport.\n"),
}
def main():
    os.makedirs('/verif/selftest/mutants', exist_ok=True)
    assert subprocess.run(['git','-C','/repo','diff','--quiet']).returncode==0, "repo dirty"
    for name,(f,old,new) in M.items():
        p=R+f
        s=open(p).read()
        if old not in s:
            print("NO MATCH", name); continue
        open(p,'w').write(s.replace(old,new,1))
        d=subprocess.run(['git','-C','/repo','diff'],capture_output=True,text=True).stdout
        open(f'/verif/selftest/mutants/{name}.diff','w').write(d)
        subprocess.run(['git','-C','/repo','checkout','--','.'])
        print("ok", name)
main()
