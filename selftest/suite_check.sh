#!/bin/bash
# For every mutant: does the repository's own test suite still pass with it? Runs in a scratch
# worktree (removed afterwards). Output: selftest/suite_results.txt  (mutant PASS|FAIL|NOAPPLY)
set -u
WT=/tmp/mut-wt
OUT=/verif/selftest/suite_results.txt
git -C /repo worktree remove --force $WT 2>/dev/null
git -C /repo worktree add -q --detach $WT HEAD || exit 2
cp /repo/Cargo.lock $WT/
export CARGO_NET_OFFLINE=true CARGO_TARGET_DIR=/tmp/mut-wt-target
touch $OUT; sed -i '/^done$/d' $OUT
cd $WT
for m in /verif/selftest/mutants/*.diff; do
  name=$(basename $m .diff)
  grep -q "^$name " $OUT && continue
  git checkout -q -- . 
  if ! git apply $m 2>/dev/null; then echo "$name NOAPPLY" >> $OUT; continue; fi
  if grep -q "plugins/src" $m; then
    cmd="cargo test --offline -p tarpc-plugins -p tarpc --features tarpc/full --lib --tests -- --skip ui"
  else
    cmd="cargo test --offline -p tarpc --features full --lib --test service_functional --test dataservice"
  fi
  if timeout 900 $cmd >/tmp/mut-wt-last.log 2>&1; then echo "$name PASS" >> $OUT; else echo "$name FAIL $(grep -E '^test .* FAILED|^error' /tmp/mut-wt-last.log | head -3 | tr '\n' ' ')" >> $OUT; fi
done
cd /
git -C /repo worktree remove --force $WT
rm -rf /tmp/mut-wt-target
echo done >> $OUT
