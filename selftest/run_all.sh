#!/bin/bash
# Runs every mutant against the quick check(s) of its property in a scratch worktree
# (VERIF_REPO); writes selftest/results.tsv. Mutant file names start with the property id.
set -u
OUT=/verif/selftest/results.tsv
WT=/tmp/mutant-wt
# RESUME=1 keeps the finished lines of an interrupted batch and runs only the missing mutants
if [ "${RESUME:-0}" = 1 ] && [ -f $OUT ]; then grep -v '^done$' $OUT > $OUT.tmp; mv $OUT.tmp $OUT; else : > $OUT; fi
if [ ! -d $WT ]; then git -C /repo worktree add -q --detach $WT HEAD || exit 2; cp /repo/Cargo.lock $WT/; fi
cd $WT || exit 2
git checkout -q --detach $(git -C /repo rev-parse HEAD)
for m in /verif/selftest/mutants/*.diff; do
  name=$(basename $m .diff)
  id=$(echo ${name%%_*} | tr a-z A-Z)
  grep -q "^$name	" $OUT && continue
  git checkout -q -- .
  git apply $m 2>/dev/null || { echo -e "$name\t$id\tNOAPPLY\t" >> $OUT; continue; }
  t0=$(date +%s)
  out=$(VERIF_REPO=$WT /verif/check $id --tier quick 2>&1); rc=$?
  t1=$(date +%s)
  sigs=$(echo "$out" | grep -A1 "^VIOLATION" | grep -E "^  [A-Za-z0-9]" | sed 's/^  //' | cut -d: -f1 | sort -u | tr '\n' ' ')
  bound=$(echo "$out" | grep -oE "bound Some\([0-9]+\)" | head -1)
  echo -e "$name\t$id\t$rc\t$bound\t$((t1-t0))s\t$sigs" >> $OUT
done
git checkout -q -- .
echo done >> $OUT
