#!/bin/bash
# Runs every mutant against the quick check(s) of its property; writes selftest/results.tsv.
# Mutant file names start with the property id in lower case (c03_...). Always reverts /repo.
set -u
OUT=/verif/selftest/results.tsv
: > $OUT
cd /repo || exit 2
git diff --quiet || { echo "repo dirty" >&2; exit 2; }
for m in /verif/selftest/mutants/*.diff; do
  name=$(basename $m .diff)
  id=$(echo ${name%%_*} | tr a-z A-Z)
  git apply $m 2>/dev/null || { echo -e "$name\t$id\tNOAPPLY\t" >> $OUT; continue; }
  t0=$(date +%s)
  out=$(/verif/check $id --tier quick 2>&1); rc=$?
  t1=$(date +%s)
  sigs=$(echo "$out" | grep -A1 "^VIOLATION" | grep -E "^  [A-Za-z0-9]" | sed 's/^  //' | cut -d: -f1 | sort -u | tr '\n' ' ')
  bound=$(echo "$out" | grep -oE "bound Some\([0-9]+\)" | head -1)
  echo -e "$name\t$id\t$rc\t$bound\t$((t1-t0))s\t$sigs" >> $OUT
  git checkout -q -- .
done
echo done >> $OUT
