#!/bin/bash
# selftest/run_mutant.sh <patch> <ID> [<ID>...]: apply the patch to a scratch worktree of /repo
# (never to /repo itself), run the quick checks against it (VERIF_REPO), expect exit 1.
set -u
PATCH="$(realpath "$1")"; shift
WT=/tmp/mutant-wt
if [ ! -d $WT ]; then git -C /repo worktree add -q --detach $WT HEAD || exit 2; cp /repo/Cargo.lock $WT/; fi
cd $WT || exit 2
git checkout -q --detach $(git -C /repo rev-parse HEAD) 2>/dev/null
git checkout -q -- .
git apply "$PATCH" || { echo "patch does not apply" >&2; exit 2; }
RC=0
for ID in "$@"; do
  out=$(VERIF_REPO=$WT /verif/check "$ID" --tier quick 2>&1); rc=$?
  echo "== $(basename "$PATCH") $ID -> exit $rc"
  echo "$out" | grep -E "VIOLATION|KNOWN|machinery|bound" | head -8
  [ $rc -eq 1 ] || RC=1
done
git checkout -q -- .
exit $RC
