#!/bin/bash
# selftest/run_mutant.sh <patch> <ID> [<ID>...]: apply patch to /repo, run the quick checks,
# expect exit 1 from at least the first ID; always revert.
set -u
PATCH="$(realpath "$1")"; shift
cd /repo || exit 2
if ! git diff --quiet; then echo "repo dirty" >&2; exit 2; fi
git apply "$PATCH" || { echo "patch does not apply" >&2; exit 2; }
trap 'git -C /repo checkout -- . ' EXIT
RC=0
for ID in "$@"; do
  out=$(/verif/check "$ID" --tier quick 2>&1); rc=$?
  echo "== $(basename "$PATCH") $ID -> exit $rc"
  echo "$out" | grep -E "VIOLATION|KNOWN|machinery|bound" | head -8
  [ $rc -eq 1 ] || RC=1
done
exit $RC
