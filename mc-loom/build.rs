//! Cuts the text of `mod cycle { ... }` out of tarpc's load_balance.rs (brace matching), swaps
//! std::sync for loom::sync and drops the unit test, so loom explores the *real* module text.
use std::{env, fs, path::PathBuf};

fn main() {
    let src_path = env::var("TARPC_LOAD_BALANCE")
        .unwrap_or_else(|_| "/repo/tarpc/src/client/stub/load_balance.rs".into());
    println!("cargo:rerun-if-changed={src_path}");
    println!("cargo:rerun-if-env-changed=TARPC_LOAD_BALANCE");
    let out = PathBuf::from(env::var("OUT_DIR").unwrap()).join("cycle.rs");
    let src = fs::read_to_string(&src_path).unwrap_or_default();
    let extracted = extract(&src);
    match extracted {
        Some(text) => {
            fs::write(&out, text).unwrap();
            println!("cargo:rustc-cfg=extracted");
        }
        None => {
            fs::write(&out, "").unwrap();
        }
    }
    println!("cargo:rustc-check-cfg=cfg(extracted)");
}

fn extract(src: &str) -> Option<String> {
    let start = src.find("mod cycle {")?;
    let bytes = src.as_bytes();
    let mut depth = 0i32;
    let mut end = None;
    for (i, b) in bytes.iter().enumerate().skip(start) {
        match b {
            b'{' => depth += 1,
            b'}' => {
                depth -= 1;
                if depth == 0 {
                    end = Some(i + 1);
                    break;
                }
            }
            _ => {}
        }
    }
    let mut text = src[start..end?].to_string();
    // drop the #[test] function (it uses std threads' absence; irrelevant under loom)
    if let Some(t) = text.find("#[test]") {
        // remove from #[test] to the end of that fn by brace matching
        let tb = text.as_bytes();
        let open = text[t..].find('{')? + t;
        let mut d = 0i32;
        let mut e = None;
        for (i, b) in tb.iter().enumerate().skip(open) {
            match b {
                b'{' => d += 1,
                b'}' => {
                    d -= 1;
                    if d == 0 {
                        e = Some(i + 1);
                        break;
                    }
                }
                _ => {}
            }
        }
        text.replace_range(t..e?, "");
    }
    if !text.contains("std::sync") {
        return None;
    }
    let text = text.replace("std::sync", "loom::sync");
    Some(format!("#[allow(dead_code)]\npub {text}\n"))
}
