//! loom exploration of tarpc's round-robin cursor (`mod cycle`, extracted verbatim at build time).
//! Prints one JSON line: {"extracted":bool,"executions":N,"violation":null|"..."}; exit 0/1/3.

#[cfg(extracted)]
include!(concat!(env!("OUT_DIR"), "/cycle.rs"));

#[cfg(extracted)]
fn main() {
    use std::sync::atomic::{AtomicUsize, Ordering};
    use std::sync::{Arc as StdArc, Mutex as StdMutex};
    let threads: usize = std::env::var("LOOM_THREADS").ok().and_then(|s| s.parse().ok()).unwrap_or(2);
    let per_thread: usize = std::env::var("LOOM_CALLS").ok().and_then(|s| s.parse().ok()).unwrap_or(2);
    let elems: usize = std::env::var("LOOM_ELEMS").ok().and_then(|s| s.parse().ok()).unwrap_or(3);
    let execs = StdArc::new(AtomicUsize::new(0));
    let outcomes = StdArc::new(StdMutex::new(std::collections::BTreeSet::<Vec<Vec<usize>>>::new()));
    let e2 = execs.clone();
    let o2 = outcomes.clone();
    let r = std::panic::catch_unwind(move || {
        loom::model(move || {
            e2.fetch_add(1, Ordering::SeqCst);
            let cyc = cycle::AtomicCycle::new((0..elems).collect::<Vec<usize>>());
            let counts = loom::sync::Arc::new(loom::sync::Mutex::new(vec![0usize; elems]));
            let picks = loom::sync::Arc::new(loom::sync::Mutex::new(vec![Vec::<usize>::new(); threads + 1]));
            let mut hs = vec![];
            for t in 0..threads {
                let c = cyc.clone();
                let counts = counts.clone();
                let picks = picks.clone();
                hs.push(loom::thread::spawn(move || {
                    for _ in 0..per_thread {
                        let k = *c.next();
                        counts.lock().unwrap()[k] += 1;
                        picks.lock().unwrap()[t].push(k);
                    }
                }));
            }
            let k = *cyc.next();
            counts.lock().unwrap()[k] += 1;
            picks.lock().unwrap()[threads].push(k);
            for h in hs {
                h.join().unwrap();
            }
            let v = counts.lock().unwrap().clone();
            o2.lock().unwrap().insert(picks.lock().unwrap().clone());
            let (mn, mx) = (v.iter().min().unwrap(), v.iter().max().unwrap());
            assert!(mx - mn <= 1, "per-backend counts {v:?} differ by more than one after {} concurrent calls", threads * per_thread + 1);
            assert_eq!(v.iter().sum::<usize>(), threads * per_thread + 1);
        });
    });
    let n = execs.load(Ordering::SeqCst);
    let outs = outcomes.lock().unwrap().len();
    match r {
        Ok(()) => {
            println!("{{\"extracted\":true,\"executions\":{n},\"distinct_assignments\":{outs},\"violation\":null}}");
        }
        Err(p) => {
            let msg = p
                .downcast_ref::<String>()
                .cloned()
                .or_else(|| p.downcast_ref::<&str>().map(|s| s.to_string()))
                .unwrap_or_else(|| "panic".into());
            println!("{{\"extracted\":true,\"executions\":{n},\"distinct_assignments\":{outs},\"violation\":{:?}}}", msg);
            std::process::exit(1);
        }
    }
}

#[cfg(not(extracted))]
fn main() {
    println!("{{\"extracted\":false,\"executions\":0,\"violation\":null}}");
    std::process::exit(3);
}
