#!/usr/bin/env python3
"""C17 driver: generate the definition grid, compile it against /repo's current tree, run every
accepted definition, classify rejected ones, write evidence/C17.json."""
import json, os, subprocess, sys, time, re
sys.path.insert(0, os.path.dirname(__file__))
import gen

VERIF = os.environ.get("VERIF_DIR", "/verif")

def cargo(root, target, args):
    env = dict(os.environ, CARGO_NET_OFFLINE="true", CARGO_TARGET_DIR=target)
    env.pop("RUSTFLAGS", None)
    return subprocess.run(["cargo"] + args + ["--offline"], cwd=root, env=env, capture_output=True, text=True)

def known(prop):
    try:
        k = json.load(open(f"{VERIF}/known_findings.json"))
        return [f for f in k["findings"] if f.get("status") == "known" and f.get("property") == prop]
    except Exception:
        return []

def main():
    tier = "quick"
    if "--tier" in sys.argv: tier = sys.argv[sys.argv.index("--tier") + 1]
    tier = os.environ.get("VERIF_TIER", tier) if "--tier" not in sys.argv else tier
    t0 = time.time()
    root = f"{VERIF}/target/macro_grid_{tier}"
    target = f"{VERIF}/target/macro_grid_target"
    meta = gen.write_workspace(root, tier)
    if not os.path.exists(f"{root}/Cargo.lock"):
        subprocess.run(["cp", os.environ.get("VERIF_REPO", "/repo") + "/Cargo.lock", f"{root}/Cargo.lock"])
    if "--build-only" in sys.argv:
        r = cargo(root, target, ["build"] + sum([["-p", s] for s in meta["members"] if s.startswith("shard")], []))
        print("prebuild exit", r.returncode, file=sys.stderr)
        sys.exit(0)
    shards = [m for m in meta["members"] if m.startswith("shard")]
    cols = [m for m in meta["members"] if m.startswith("col_")]
    failures, rejected, accepted, results = [], [], [], {}
    machinery = []
    # 1. all grid shards in one cargo invocation (parallel rustc)
    r = cargo(root, target, ["build"] + sum([["-p", s] for s in shards], []))
    shard_ok = {}
    rejected_defs = {}
    if r.returncode == 0:
        shard_ok = {s: True for s in shards}
    else:
        # Find which shards fail (the others are already built). A definition of the grid that
        # the macro/rustc now rejects is not a violation (the property speaks about accepted
        # definitions): it is cut out of its shard, recorded, and the rest of the shard still runs.
        for s in shards:
            for attempt in range(3):
                rs = cargo(root, target, ["build", "-p", s])
                shard_ok[s] = rs.returncode == 0
                if shard_ok[s]: break
                if "could not compile `tarpc" in rs.stderr:
                    machinery.append(f"{s}: tarpc itself does not build"); break
                errs = [l for l in rs.stderr.splitlines() if l.startswith("error")]
                bad = sorted(set(re.findall(r"-->\s+\S*src/main.rs:(\d+)", rs.stderr)), key=int)
                path = f"{root}/{s}/src/main.rs"
                src = open(path).read().splitlines()
                mods = set()
                for ln in bad:
                    i = int(ln) - 1
                    while i >= 0 and not src[i].startswith("pub mod d"): i -= 1
                    if i >= 0: mods.add(src[i].split()[2])
                if not mods: break
                for mname in mods:
                    rejected_defs[int(mname[1:])] = (errs[0][:160] if errs else "error")
                # cut the modules and their RESULT lines out
                out_lines, skip = [], False
                for line in src:
                    if line.startswith("pub mod d"):
                        skip = line.split()[2] in mods
                    if skip:
                        if line == "}": skip = False
                        continue
                    if any(f" {mname}::run()" in line for mname in mods): continue
                    out_lines.append(line)
                open(path, "w").write("\n".join(out_lines) + "\n")
    otel_runs = 0
    for s in shards:
        if not shard_ok.get(s): continue
        # two tracing regimes, one process each (tracing caches callsite interest process-wide)
        for regime, extra in (("", []), ("[OpenTelemetry layer] ", ["--otel"])):
            out = subprocess.run([f"{target}/debug/{s}"] + extra, capture_output=True, text=True, timeout=120)
            if out.returncode != 0:
                failures.append(("C17-run-crashed", f"{regime}{s}: exit {out.returncode}: {out.stderr[-300:]}"))
                continue
            for line in out.stdout.splitlines():
                m = re.match(r"RESULT (\d+) (\[.*\])$", line)
                if m:
                    k = int(m.group(1)); fl = json.loads(m.group(2)) if m.group(2) != "[]" else []
                    results.setdefault(k, []).extend(regime + f for f in fl)
                    if extra: otel_runs += 1
    for d in meta["definitions"]:
        k = d["k"]
        if k in results:
            accepted.append(k)
            for f in results[k]:
                sig = "C17-wrong-result" if "returned" in f else ("C17-wrong-method-or-args" if "implementor saw" in f else ("C17-context-deadline" if "carried a deadline" in f or "no deadline noted" in f else "C17-request-name"))
                failures.append((sig, f"definition {k} {d['dims']}: {f}"))
        elif k in rejected_defs:
            pass
        elif shard_ok.get(d["shard"]):
            failures.append(("C17-no-result", f"definition {k} produced no result"))
    # 2. collision candidates: rejected at compile time, or behave
    col_out = {}
    for c in cols:
        rc = cargo(root, target, ["build", "-p", c])
        if rc.returncode != 0:
            first = next((l for l in rc.stderr.splitlines() if l.startswith("error")), "error")
            if "could not compile `tarpc" in rc.stderr:
                machinery.append(f"{c}: tarpc does not build")
            col_out[c] = "rejected: " + first[:160]
            rejected.append(c)
        else:
            out = subprocess.run([f"{target}/debug/{c}"], capture_output=True, text=True, timeout=60)
            m = re.search(r"RESULT (\[.*\])", out.stdout)
            fl = json.loads(m.group(1)) if m and m.group(1) != "[]" else ([] if m else ["no result"])
            col_out[c] = "accepted, behaves" if not fl else f"accepted, MISBEHAVES: {fl}"
            if fl:
                failures.append(("C17-collision-miscompiled", f"{c}: accepted by the macro but {fl}"))
    if rejected_defs:
        print(f"note: {len(rejected_defs)} grid definitions are rejected at compile time on this tree (not a violation): {sorted(rejected_defs)[:10]}", file=sys.stderr)
    if len(rejected_defs) > max(2, len(meta["definitions"]) // 10) and not failures:
        machinery.append(f"{len(rejected_defs)} of {len(meta['definitions'])} grid definitions do not compile on this tree - too many to be individual rejections by the macro (first error: {next(iter(rejected_defs.values()))})")
    if len(accepted) < max(1, len(meta["definitions"]) // 2) and not failures:
        machinery.append(f"only {len(accepted)} of {len(meta['definitions'])} definitions produced results")
    # verdicts
    kn = known("C17")
    by = {}
    for sig, msg in failures: by.setdefault(sig, []).append(msg)
    nviol = 0; seen = []
    os.makedirs(f"{VERIF}/replays/C17", exist_ok=True)
    for sig, msgs in by.items():
        path = f"{VERIF}/replays/C17/{sig}.json"
        json.dump({"property": "C17", "signature": sig, "cases": msgs[:20], "count": len(msgs), "workspace": root}, open(path, "w"), indent=1)
        k = next((k for k in kn if k["signature"] == sig), None)
        if k:
            print(f"KNOWN-FINDING: property=C17 {k['what']}"); seen.append(sig)
        else:
            print(f"VIOLATION property=C17 replay={path}"); print(f"  {sig}: {msgs[0]} ({len(msgs)} cases)", file=sys.stderr); nviol += 1
    nmeth = sum(len(d["methods"]) for d in meta["definitions"] if d["k"] in results)
    ev = {"property_id": "C17", "tier": tier, "seed": int(os.environ.get("VERIF_SEED", "0")), "level": "exploration",
          "coverage": {"evaluations": nmeth + len(cols), "programs": len(meta["definitions"]) + len(cols),
                       "distinct_nontrivial": len(accepted),
                       "definitions_accepted_and_run": len(accepted), "definition_runs_under_opentelemetry": otel_runs, "methods_called": nmeth,
                       "collision_candidates": col_out, "grid_definitions_rejected_at_compile_time": {str(k): v for k, v in rejected_defs.items()}, "pairs_uncovered": meta["pairs_uncovered"],
                       "rule": "service definitions enumerated over {1-3 methods} x {arity 0-3} x {all-u32 | mixed types} x {unit,u32,tuple returns} x method-name pool (incl. leading/trailing/double underscores, mixed case, raw identifiers) x argument-name pool (incl. raw identifier and names used inside generated code) x {no attr, #[doc], #[cfg(all())], #[cfg(any())]} x {default, derive=[Clone,Hash], derive_serde=false}: quick = greedy pairwise cover of all dimension-value pairs, thorough = cover + 900 further grid points; each compiled against /repo and run over a real in-memory client/server pair: every method called with (1,2,3): exactly one implementor invocation of that method with those arguments in order and the trace id the request carried on the wire (tapped at the server transport; without a subscriber that is the caller's; the whole grid runs a second time in a fresh process under a tracing-opentelemetry layer), the right value back, RequestName = '<Service>.<method>'; collision candidates each in a crate of their own: rejected at compile time or behave. distinct_nontrivial = accepted definitions executed",
                       "samples": [{"definition_0_source": meta["sample_source"]}],
                       "exhaustive": True, "known_findings_seen": seen},
          "assumptions": ["rustc and the in-memory transport are trusted; schedules are canonical (the property quantifies over programs)"],
          "wall_s": time.time() - t0, "violations": nviol}
    json.dump(ev, open(f"{VERIF}/evidence/C17.json", "w"), indent=1)
    print(f"C17 {tier}: definitions {len(meta['definitions'])} accepted {len(accepted)} methods {nmeth} collisions {col_out} wall {time.time()-t0:.1f}s violations {nviol}", file=sys.stderr)
    if machinery:
        for m in machinery[:5]: print("machinery:", m, file=sys.stderr)
        sys.exit(2)
    sys.exit(1 if nviol else 0)

if __name__ == "__main__":
    main()
