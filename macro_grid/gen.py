#!/usr/bin/env python3
"""C17: generates a grid of #[tarpc::service] definitions (programs), one module per definition,
sharded over crates of one workspace that is compiled against /repo. Deterministic."""
import itertools, json, os, hashlib

MNAMES = ["a", "do_it", "_x", "x_", "a__b", "DoIt", "doIt", "r#type", "r#match"]
ANAMES = ["x", "_z", "r#in", "request", "resp", "msg", "req", "service", "the_ctx", "context"]
ATTRS = ["", '#[doc = "d"]', "#[cfg(all())]", "#[cfg(any())]"]
DERIVES = ["", "derive = [Clone, Hash]", "derive_serde = false"]
RETS = ["unit", "u32", "tuple"]
TYPES = ["u32s", "mixed", "u8s", "opts"]

def camel(s):
    s = s.replace("r#", "")
    out, up = "", True
    for c in s:
        if c == "_": up = True
        elif up: out += c.upper(); up = False
        else: out += c.lower()
    return out

def arg_types(kind, arity):
    if kind == "u32s": return ["u32"] * arity
    if kind == "u8s": return ["u8"] * arity
    # optional arguments, absent and present, leading and trailing (a positional codec must not
    # lose their place: seeded change C17j skipped absent ones on the wire)
    if kind == "opts": return [["Option<u8>", "u8", "Option<u16>"][i % 3] for i in range(arity)]
    return [["u32", "String", "u8"][i % 3] for i in range(arity)]

def opt_absent(ty, i):
    return (ty == "Option<u8>" and i % 2 == 0) or (ty == "Option<u16>" and i % 2 == 1)

def weights(arity):
    # distinct weights so that any permutation of the arguments changes the value
    return [100, 10, 1][:arity] if arity <= 3 else [i + 1 for i in range(arity)]

def arg_value(ty, i):
    v = i + 1
    if ty.startswith("Option<"):
        return "None" if opt_absent(ty, i) else f"Some({v}{ty[7:-1]})"
    return {"u32": f"{v}u32", "String": f'"{"s"*v}".to_string()', "u8": f"{v}u8"}[ty]

def arg_as_u32(ty, name):
    if ty.startswith("Option<"):
        return f"({name}.map(|v| v as u32).unwrap_or(77))"
    return {"u32": f"({name} as u32)", "String": f"({name}.len() as u32)", "u8": f"({name} as u32)"}[ty]

def arg_debug(ty, i):
    if ty.startswith("Option<"):
        return "None" if opt_absent(ty, i) else f"Some({i + 1})"
    return {"u32": str(i + 1), "String": '\\"' + "s" * (i + 1) + '\\"', "u8": str(i + 1)}[ty]

def expected_value(M, tys):
    # f = M*1000 + a1*100 + a2*10 + a3 with a_i = i+1 (strings: their length = i+1; an absent
    # optional argument counts 77)
    return M * 1000 + sum((77 if opt_absent(t, i) else i + 1) * w for i, t, w in zip(range(len(tys)), tys, weights(len(tys))))

class Method:
    def __init__(self, idx, name, arity, tkind, ret, anames, attr):
        self.idx, self.name, self.arity, self.ret, self.attr = idx, name, arity, ret, attr
        self.tys = arg_types(tkind, arity)
        self.anames = [anames[i % len(anames)] + ("" if i < len(anames) else f"_{i}") for i in range(arity)]
    @property
    def present(self): return self.attr != "#[cfg(any())]"
    def sig_args(self): return ", ".join(f"{n}: {t}" for n, t in zip(self.anames, self.tys))
    def ret_ty(self): return {"unit": "", "u32": " -> u32", "tuple": " -> (u32, u32)"}[self.ret]

def definition(k, nm, arity, tkind, ret, mi, ai, attr, derive):
    """One service definition. mi/ai: starting indices into the name pools."""
    methods, used = [], set()
    j = mi
    for i in range(nm):
        # next method name whose camel-case form is not used yet (avoids the E0428 family here;
        # collisions are exercised separately)
        while camel(MNAMES[j % len(MNAMES)]) in used: j += 1
        name = MNAMES[j % len(MNAMES)]; used.add(camel(name)); j += 1
        an = [ANAMES[(ai + i + t) % len(ANAMES)] for t in range(len(ANAMES))]
        methods.append(Method(i + 1, name, max(0, arity - (i % 2 if nm > 1 else 0)), tkind, ret if i == 0 else RETS[(RETS.index(ret) + i) % 3], an,
                              (attr if (i == nm - 1 and not (nm == 1 and attr == "#[cfg(any())]")) else "")))
    return {"k": k, "methods": methods, "derive": derive, "kind": "grid",
            "dims": dict(nm=nm, arity=arity, types=tkind, ret=ret, mname=MNAMES[mi % len(MNAMES)], aname=ANAMES[ai % len(ANAMES)], attr=attr, derive=derive)}

def render(d, svc="Svc"):
    ms = d["methods"]
    L = []
    L.append(f"pub mod d{d['k']} {{")
    L.append("    #![allow(non_snake_case, non_camel_case_types, unused_variables, dead_code, deprecated, unused_imports, unused_mut, clippy::all)]")
    L.append("    use std::sync::{Arc, Mutex};")
    L.append("    use tarpc::{context, RequestName};")
    L.append("    use tarpc::server::{self, Channel};")
    L.append("    use tarpc::server::request_hook::RequestHook;")
    L.append("    use futures::StreamExt;")
    opt = f"({d['derive']})" if d["derive"] else ""
    L.append(f"    #[tarpc::service{opt}]")
    L.append(f"    pub trait {svc} {{")
    for m in ms:
        if m.attr: L.append(f"        {m.attr}")
        L.append(f"        async fn {m.name}({m.sig_args()}){m.ret_ty()};")
    L.append("    }")
    L.append("    #[derive(Clone)]")
    L.append("    pub struct Imp(pub Arc<Mutex<Vec<String>>>);")
    L.append(f"    impl {svc} for Imp {{")
    for m in ms:
        if not m.present: continue
        args = "".join(f", {n}: {t}" for n, t in zip(m.anames, m.tys))
        L.append(f"        async fn {m.name}(self, the_context: context::Context{args}){m.ret_ty()} {{")
        dbg = ", ".join(f"{n}" for n in m.anames)
        fmt = "".join(["|{:?}"] * m.arity)
        L.append(f"            self.0.lock().unwrap().push(format!(\"{m.idx}{fmt}|{{}}\", {dbg + ', ' if dbg else ''}format!(\"{{}}/{{:?}}\", the_context.trace_id(), the_context.trace_context.sampling_decision)));")
        L.append(f"            crate::support::note_deadline(Arc::as_ptr(&self.0) as usize, {m.idx}, the_context.deadline);")
        val = " + ".join([f"{m.idx * 1000}u32"] + [f"{arg_as_u32(t, n)} * {w}" for n, t, w in zip(m.anames, m.tys, weights(m.arity))])
        if m.ret == "u32": L.append(f"            {val}")
        elif m.ret == "tuple": L.append(f"            ({val}, {m.idx}u32)")
        L.append("        }")
    L.append("    }")
    # driver
    serde_derived = d["derive"] == ""
    L.append("    pub async fn run() -> Vec<String> {")
    L.append("        let mut all_fails: Vec<String> = vec![];")
    L.append("        {")
    L.append("            let (ct, st) = tarpc::transport::channel::unbounded();")
    L.append("            all_fails.extend(run_over(ct, st).await);")
    L.append("        }")
    if serde_derived:
        # the same calls through the serializing transports (name-tagged JSON, positional bincode)
        L.append("        {")
        L.append("            let (a, b) = tokio::io::duplex(1 << 16);")
        L.append("            let ct = tarpc::serde_transport::new(tarpc::tokio_util::codec::Framed::new(a, tarpc::tokio_util::codec::LengthDelimitedCodec::new()), tarpc::tokio_serde::formats::Json::default());")
        L.append("            let st = tarpc::serde_transport::new(tarpc::tokio_util::codec::Framed::new(b, tarpc::tokio_util::codec::LengthDelimitedCodec::new()), tarpc::tokio_serde::formats::Json::default());")
        L.append("            all_fails.extend(run_over(ct, st).await.into_iter().map(|f| format!(\"[JSON transport] {f}\")));")
        L.append("        }")
        L.append("        {")
        L.append("            let (a, b) = tokio::io::duplex(1 << 16);")
        L.append("            let ct = tarpc::serde_transport::new(tarpc::tokio_util::codec::Framed::new(a, tarpc::tokio_util::codec::LengthDelimitedCodec::new()), tarpc::tokio_serde::formats::Bincode::default());")
        L.append("            let st = tarpc::serde_transport::new(tarpc::tokio_util::codec::Framed::new(b, tarpc::tokio_util::codec::LengthDelimitedCodec::new()), tarpc::tokio_serde::formats::Bincode::default());")
        L.append("            all_fails.extend(run_over(ct, st).await.into_iter().map(|f| format!(\"[bincode transport] {f}\")));")
        L.append("        }")
    L.append("        all_fails")
    L.append("    }")
    L.append(f"    async fn run_over<CT, ST>(ct: CT, st: ST) -> Vec<String>")
    L.append(f"    where CT: tarpc::Transport<tarpc::ClientMessage<{svc}Request>, tarpc::Response<{svc}Response>> + Send + 'static,")
    L.append(f"          ST: tarpc::Transport<tarpc::Response<{svc}Response>, tarpc::ClientMessage<{svc}Request>> + Send + Unpin + 'static,")
    L.append(f"          <CT as futures::Sink<tarpc::ClientMessage<{svc}Request>>>::Error: std::error::Error + Send + Sync + 'static,")
    L.append(f"          <CT as futures::Stream>::Item: Send,")
    L.append(f"          <ST as futures::Sink<tarpc::Response<{svc}Response>>>::Error: std::error::Error + Send + Sync + 'static,")
    L.append("    {")
    L.append("        let mut fails: Vec<String> = vec![];")
    L.append("        let log = Arc::new(Mutex::new(Vec::<String>::new()));")
    L.append("        let names = Arc::new(Mutex::new(Vec::<String>::new()));")
    L.append("        let wire = Arc::new(Mutex::new(Vec::<String>::new()));")
    L.append("        let st = crate::support::Tap { inner: st, seen: wire.clone() };")
    L.append("        let names2 = names.clone();")
    L.append(f"        let serve = Imp(log.clone()).serve().before(move |_c: &mut context::Context, r: &{camel(svc) if False else svc}Request| {{")
    L.append("            names2.lock().unwrap().push(r.name().to_string());")
    L.append("            async { Ok(()) }")
    L.append("        });")
    L.append("        tokio::spawn(server::BaseChannel::with_defaults(st).execute(serve).for_each(|f| async move { tokio::spawn(f); }));")
    L.append(f"        let client = {svc}Client::new(tarpc::client::Config::default(), ct).spawn();")
    for m in ms:
        if not m.present: continue
        L.append("        {")
        L.append("            let mut ctx = context::current();")
        L.append(f"            ctx.trace_context.trace_id = tarpc::trace::TraceId::from({5000 + m.idx}u128);")
        L.append(f"            ctx.trace_context.sampling_decision = tarpc::trace::SamplingDecision::{'Sampled' if m.idx % 2 == 1 else 'Unsampled'};")
        # the deadline is part of the request's context: the default, a short one, one three months away
        dsecs = [10, 3, 7776000][m.idx % 3]
        L.append(f"            let dl = std::time::Instant::now() + std::time::Duration::from_secs({dsecs});")
        L.append("            ctx.deadline = dl;")
        L.append("            let before = log.lock().unwrap().len();")
        L.append("            let nb = names.lock().unwrap().len();")
        L.append("            let wb = wire.lock().unwrap().len();")
        call_args = "".join(", " + arg_value(t, i) for i, t in enumerate(m.tys))
        L.append(f"            let got = client.{m.name}(ctx{call_args}).await;")
        exp = expected_value(m.idx, m.tys)
        if m.ret == "unit": check = "matches!(got, Ok(()))"
        elif m.ret == "u32": check = f"matches!(got, Ok({exp}))"
        else: check = f"matches!(got, Ok(({exp}, {m.idx})))"
        L.append(f"            if !({check}) {{ fails.push(format!(\"method {m.name}: returned {{:?}}, expected {exp}\", got.map_err(|e| e.to_string()))); }}")
        argdbg = "|".join(arg_debug(t, i) for i, t in enumerate(m.tys))
        want = f"{m.idx}|{argdbg + '|' if argdbg else ''}"
        L.append("            let on_wire = wire.lock().unwrap().get(wb).cloned().unwrap_or_else(|| \"<no request seen on the wire>\".to_string());")
        L.append(f"            let callers = format!(\"{{}}/{'Sampled' if m.idx % 2 == 1 else 'Unsampled'}\", tarpc::trace::TraceId::from({5000 + m.idx}u128));")
        L.append(f"            if !crate::support::otel() && on_wire != callers {{ fails.push(format!(\"method {m.name}: implementor saw a request transmitted with trace id / sampling decision {{on_wire}}, the caller's context had {{callers}}\")); }}")
        L.append(f"            let want = format!(\"{want}{{}}\", on_wire);")
        L.append("            let l = log.lock().unwrap();")
        L.append(f"            if l.len() != before + 1 || l[before] != want {{ fails.push(format!(\"method {m.name}: implementor saw {{:?}}, expected exactly [{{:?}}]\", &l[before..], want)); }}")
        L.append(f"            match crate::support::noted_deadline(Arc::as_ptr(&log) as usize, {m.idx}) {{")
        L.append("                Some(seen) => {")
        L.append("                    let tol = std::time::Duration::from_secs(2);")
        L.append(f"                    if seen + tol < dl {{ fails.push(format!(\"method {m.name}: the implementor's context carried a deadline {{:?}} EARLIER than the caller's ({dsecs} s away)\", dl - seen)); }}")
        L.append(f"                    if seen > dl + tol {{ fails.push(format!(\"method {m.name}: the implementor's context carried a deadline {{:?}} LATER than the caller's ({dsecs} s away)\", seen - dl)); }}")
        L.append("                }")
        L.append(f"                None => fails.push(\"method {m.name}: the implementor was not invoked (no deadline noted)\".to_string()),")
        L.append("            }")
        bare = m.name.replace("r#", "")
        L.append("            let n = names.lock().unwrap();")
        L.append(f"            if n.len() != nb + 1 || !(n[nb] == \"{svc}.{m.name}\" || n[nb] == \"{svc}.{bare}\") {{ fails.push(format!(\"method {m.name}: request name {{:?}}\", &n[nb..])); }}")
        L.append("        }")
    L.append("        fails")
    L.append("    }")
    L.append("}")
    return "\n".join(L)

def pairwise(cands, dims):
    """Greedy pairwise cover: keep a candidate iff it covers a new pair of dimension values."""
    uncovered = set()
    keys = list(dims)
    for a, b in itertools.combinations(range(len(keys)), 2):
        for va in dims[keys[a]]:
            for vb in dims[keys[b]]:
                uncovered.add((a, va, b, vb))
    chosen = []
    order = sorted(cands, key=lambda c: hashlib.sha256(repr(c).encode()).hexdigest())
    for c in order:
        new = [(a, c[a], b, c[b]) for a, b in itertools.combinations(range(len(keys)), 2) if (a, c[a], b, c[b]) in uncovered]
        if len(new) >= 3 or (new and len(chosen) < 40):
            chosen.append(c)
            for p in new: uncovered.discard(p)
        if not uncovered: break
    # mop up
    for c in order:
        if not uncovered: break
        new = [(a, c[a], b, c[b]) for a, b in itertools.combinations(range(len(keys)), 2) if (a, c[a], b, c[b]) in uncovered]
        if new:
            chosen.append(c)
            for p in new: uncovered.discard(p)
    return chosen, len(uncovered)

def grid(tier):
    dims = dict(nm=[1, 2, 3], arity=[0, 1, 2, 3, 10, 11, 13], types=TYPES, ret=RETS,
                mi=list(range(len(MNAMES))), ai=list(range(len(ANAMES))), attr=ATTRS, derive=DERIVES)
    cands = list(itertools.product(*dims.values()))
    if tier == "quick":
        chosen, left = pairwise(cands, dims)
    else:
        # thorough: pairwise cover plus every 5th candidate of the full product in hash order
        chosen, left = pairwise(cands, dims)
        order = sorted(cands, key=lambda c: hashlib.sha256(("t" + repr(c)).encode()).hexdigest())
        extra = [c for c in order[: 900] if c not in set(chosen)]
        chosen += extra
    defs = [definition(k, *c) for k, c in enumerate(chosen)]
    return defs, left

COLLISIONS = [
    # (label, trait body, may_reject_reason)
    ("method_new", "async fn new(x: u32) -> u32;"),
    ("method_serve", "async fn serve(x: u32) -> u32;"),
    ("camel_x", "async fn _x(x: u32) -> u32; async fn x_(x: u32) -> u32;"),
    ("camel_doit", "async fn DoIt(x: u32) -> u32; async fn doIt(x: u32) -> u32;"),
    ("camel_do_it", "async fn do_it(x: u32) -> u32; async fn DoIt(x: u32) -> u32;"),
    ("arg_named_ctx", "async fn a(ctx: u32) -> u32;"),
    ("arg_named_self_", "async fn a(self_: u32) -> u32;"),
    ("only_method_cfg_false", "#[cfg(any())] async fn a(x: u32) -> u32;"),
    ("method_clone", "async fn clone(x: u32) -> u32;"),
    ("method_call", "async fn call(x: u32) -> u32;"),
    ("method_name", "async fn name(x: u32) -> u32;"),
    ("method_self_type", "async fn r#Self(x: u32) -> u32;"),
    # an UpperCamel method next to its snake_case twin (different variants, possibly the same
    # name under a name-tagged codec), in both declaration orders
    ("twin_upper_first", "async fn GetItem(x: u32) -> u32; async fn get_item(x: u32) -> u32;"),
    ("twin_snake_first", "async fn get_item(x: u32) -> u32; async fn GetItem(x: u32) -> u32;"),
    ("twin_underscores", "async fn GetItem(x: u32) -> u32; async fn _get__item_(x: u32) -> u32;"),
    ("twin_three", "async fn GetItem(x: u32) -> u32; async fn getItem(x: u32) -> u32; async fn get_item(x: u32) -> u32;"),
]

def collision_crate(label, body):
    """A crate of its own: either it is rejected at compile time, or it must behave."""
    # parse method names out of the body
    import re
    ms = re.findall(r"async fn ([A-Za-z_#0-9]+)\(([^)]*)\)", body)
    L = ["#![allow(non_snake_case, non_camel_case_types, unused_variables, dead_code)]",
         "use std::sync::{Arc, Mutex};", "use tarpc::context;", "use tarpc::server::{self, Channel};", "use futures::StreamExt;",
         "#[tarpc::service]", "pub trait Svc {", "    " + body, "}",
         "#[derive(Clone)] pub struct Imp(pub Arc<Mutex<Vec<String>>>);", "impl Svc for Imp {"]
    for i, (name, args) in enumerate(ms):
        argl = [a.strip() for a in args.split(",") if a.strip()]
        an = argl[0].split(":")[0].strip()
        L.append(f"    async fn {name}(self, c: context::Context, {', '.join(argl)}) -> u32 {{ self.0.lock().unwrap().push(\"{i + 1}\".to_string()); {i + 1}000 + {an} }}")
    L.append("}")
    L.append("#[tokio::main(flavor = \"current_thread\")]")
    L.append("async fn main() {")
    L.append("    let mut all: Vec<String> = vec![];")
    L.append("    { let (ct, st) = tarpc::transport::channel::unbounded(); all.extend(run_over(ct, st).await); }")
    for codec in ["Json", "Bincode"]:
        L.append("    {")
        L.append("        let (a, b) = tokio::io::duplex(1 << 16);")
        L.append(f"        let ct = tarpc::serde_transport::new(tarpc::tokio_util::codec::Framed::new(a, tarpc::tokio_util::codec::LengthDelimitedCodec::new()), tarpc::tokio_serde::formats::{codec}::default());")
        L.append(f"        let st = tarpc::serde_transport::new(tarpc::tokio_util::codec::Framed::new(b, tarpc::tokio_util::codec::LengthDelimitedCodec::new()), tarpc::tokio_serde::formats::{codec}::default());")
        L.append(f"        all.extend(run_over(ct, st).await.into_iter().map(|f| format!(\"[{codec} transport] {{f}}\")));")
        L.append("    }")
    L.append("    println!(\"{}\", serde_json_min(&all));")
    L.append("}")
    L.append("async fn run_over<CT, ST>(ct: CT, st: ST) -> Vec<String>")
    L.append("where CT: tarpc::Transport<tarpc::ClientMessage<SvcRequest>, tarpc::Response<SvcResponse>> + Send + 'static,")
    L.append("      ST: tarpc::Transport<tarpc::Response<SvcResponse>, tarpc::ClientMessage<SvcRequest>> + Send + Unpin + 'static,")
    L.append("      <CT as futures::Sink<tarpc::ClientMessage<SvcRequest>>>::Error: std::error::Error + Send + Sync + 'static,")
    L.append("      <CT as futures::Stream>::Item: Send,")
    L.append("      <ST as futures::Sink<tarpc::Response<SvcResponse>>>::Error: std::error::Error + Send + Sync + 'static,")
    L.append("{")
    L.append("    let log = Arc::new(Mutex::new(Vec::<String>::new()));")
    L.append("    tokio::spawn(server::BaseChannel::with_defaults(st).execute(Imp(log.clone()).serve()).for_each(|f| async move { tokio::spawn(f); }));")
    L.append("    let client = SvcClient::new(tarpc::client::Config::default(), ct).spawn();")
    L.append("    let mut fails: Vec<String> = vec![];")
    for i, (name, args) in enumerate(ms):
        L.append(f"    let before = log.lock().unwrap().len();")
        L.append(f"    let got = client.{name}(context::current(), 7).await;")
        L.append(f"    if !matches!(got, Ok({(i + 1) * 1000 + 7})) {{ fails.push(format!(\"{name}: {{:?}}\", got.map_err(|e| e.to_string()))); }}")
        L.append(f"    if log.lock().unwrap()[before..] != [\"{i + 1}\".to_string()] {{ fails.push(\"{name}: wrong implementor method ran\".into()); }}")
    L.append("    fails")
    L.append("}")
    L.append("fn serde_json_min(f: &[String]) -> String { format!(\"RESULT {:?}\", f) }")
    return "\n".join(L)


SUPPORT = """pub mod support {
    #![allow(dead_code)]
    use futures::{Sink, Stream};
    use std::pin::Pin;
    use std::sync::{Arc, Mutex};
    use std::task::{Context, Poll};
    use tarpc::ClientMessage;

    /// Server-side tap: records the trace id of every request as it comes off the wire.
    pub struct Tap<T> {
        pub inner: T,
        pub seen: Arc<Mutex<Vec<String>>>,
    }
    impl<T, Req, E> Stream for Tap<T>
    where
        T: Stream<Item = Result<ClientMessage<Req>, E>> + Unpin,
    {
        type Item = Result<ClientMessage<Req>, E>;
        fn poll_next(mut self: Pin<&mut Self>, cx: &mut Context<'_>) -> Poll<Option<Self::Item>> {
            let r = Pin::new(&mut self.inner).poll_next(cx);
            if let Poll::Ready(Some(Ok(ClientMessage::Request(req)))) = &r {
                self.seen.lock().unwrap().push(format!("{}/{:?}", req.context.trace_context.trace_id, req.context.trace_context.sampling_decision));
            }
            r
        }
    }
    impl<T, I> Sink<I> for Tap<T>
    where
        T: Sink<I> + Unpin,
    {
        type Error = T::Error;
        fn poll_ready(mut self: Pin<&mut Self>, cx: &mut Context<'_>) -> Poll<Result<(), Self::Error>> {
            Pin::new(&mut self.inner).poll_ready(cx)
        }
        fn start_send(mut self: Pin<&mut Self>, item: I) -> Result<(), Self::Error> {
            Pin::new(&mut self.inner).start_send(item)
        }
        fn poll_flush(mut self: Pin<&mut Self>, cx: &mut Context<'_>) -> Poll<Result<(), Self::Error>> {
            Pin::new(&mut self.inner).poll_flush(cx)
        }
        fn poll_close(mut self: Pin<&mut Self>, cx: &mut Context<'_>) -> Poll<Result<(), Self::Error>> {
            Pin::new(&mut self.inner).poll_close(cx)
        }
    }
    /// the deadline the implementor found in its context, per (run, method)
    static DEADLINES: Mutex<Vec<(usize, u32, std::time::Instant)>> = Mutex::new(Vec::new());
    pub fn note_deadline(run: usize, method: u32, d: std::time::Instant) {
        DEADLINES.lock().unwrap().push((run, method, d));
    }
    pub fn noted_deadline(run: usize, method: u32) -> Option<std::time::Instant> {
        DEADLINES.lock().unwrap().iter().rev().find(|x| x.0 == run && x.1 == method).map(|x| x.2)
    }
    /// second regime: an OpenTelemetry layer is the (global) subscriber, so the tracer chooses the
    /// trace ids and tarpc moves contexts through spans
    pub fn otel() -> bool {
        std::env::args().any(|a| a == "--otel")
    }
    pub fn install_otel() {
        use opentelemetry::trace::TracerProvider as _;
        use tracing_subscriber::layer::SubscriberExt;
        let provider = opentelemetry_sdk::trace::TracerProvider::builder().build();
        let tracer = provider.tracer("grid");
        let sub = tracing_subscriber::registry().with(tracing_opentelemetry::layer().with_tracer(tracer));
        tracing::subscriber::set_global_default(sub).expect("subscriber");
        std::mem::forget(provider);
    }
}
"""

def write_workspace(root, tier, shards=16):
    defs, left = grid(tier)
    os.makedirs(root, exist_ok=True)
    members = []
    per = (len(defs) + shards - 1) // shards
    meta = {"definitions": [], "pairs_uncovered": left}
    for s in range(shards):
        chunk = defs[s * per:(s + 1) * per]
        if not chunk: continue
        name = f"shard{s}"
        members.append(name)
        os.makedirs(f"{root}/{name}/src", exist_ok=True)
        body = "\n\n".join(render(d) for d in chunk)
        main = ["#[tokio::main(flavor = \"current_thread\")]", "async fn main() {", "    if support::otel() { support::install_otel(); }"]
        for d in chunk:
            main.append(f"    println!(\"RESULT {d['k']} {{:?}}\", d{d['k']}::run().await);")
        main.append("}")
        src = SUPPORT + "\n" + body + "\n\n" + "\n".join(main) + "\n"
        write_if_changed(f"{root}/{name}/src/main.rs", src)
        write_if_changed(f"{root}/{name}/Cargo.toml", crate_toml(name))
        for d in chunk:
            meta["definitions"].append({"k": d["k"], "shard": name, "dims": d["dims"],
                                        "methods": [m.name for m in d["methods"] if m.present]})
    for label, body in COLLISIONS:
        name = f"col_{label}"
        members.append(name)
        os.makedirs(f"{root}/{name}/src", exist_ok=True)
        write_if_changed(f"{root}/{name}/src/main.rs", collision_crate(label, body) + "\n")
        write_if_changed(f"{root}/{name}/Cargo.toml", crate_toml(name))
    ws = "[workspace]\nresolver = \"2\"\nmembers = [" + ", ".join(f'"{m}"' for m in members) + "]\n\n[profile.dev]\ndebug = 0\nopt-level = 0\nincremental = false\n"
    write_if_changed(f"{root}/Cargo.toml", ws)
    meta["members"] = members
    # one sample module for evidence
    meta["sample_source"] = render(defs[0]).splitlines()[:60] if defs else []
    json.dump(meta, open(f"{root}/meta.json", "w"))
    return meta

REPO = os.environ.get("VERIF_REPO", "/repo")

def crate_toml(name):
    return f"""[package]
name = "{name}"
version = "0.1.0"
edition = "2021"

[dependencies]
tarpc = {{ path = "{REPO}/tarpc", features = ["full"] }}
tokio = {{ version = "1", features = ["rt", "macros", "io-util"] }}
futures = "0.3"
tracing = "0.1"
tracing-subscriber = "0.3"
tracing-opentelemetry = "0.27"
opentelemetry = "0.26"
opentelemetry_sdk = "0.26"
"""

def write_if_changed(path, text):
    try:
        if open(path).read() == text: return
    except FileNotFoundError:
        pass
    open(path, "w").write(text)

if __name__ == "__main__":
    import sys
    m = write_workspace(sys.argv[1], sys.argv[2] if len(sys.argv) > 2 else "quick")
    print(len(m["definitions"]), "definitions,", len(m["members"]), "crates, uncovered pairs:", m["pairs_uncovered"])
