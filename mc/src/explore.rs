//! Stateless deviation-bounded DFS over choice sequences (DESIGN.md §3.1), parallel work queue,
//! statistics, determinism rechecks.

use std::collections::{HashSet, VecDeque};
use std::sync::atomic::{AtomicBool, AtomicUsize, Ordering};
use std::sync::{Condvar, Mutex};
use std::time::{Duration, Instant};

#[derive(Clone, Debug)]
pub struct Point {
    pub label: &'static str,
    pub arity: u16,
    pub chosen: u16,
}

/// The only source of decisions a harness may consult.
pub struct Chooser {
    prefix: Vec<u16>,
    pub points: Vec<Point>,
    /// set when a replayed prefix does not fit the execution (machinery error, never a verdict)
    pub err: Option<String>,
}

impl Chooser {
    pub fn new(prefix: &[u16]) -> Self {
        Chooser {
            prefix: prefix.to_vec(),
            points: Vec::with_capacity(64),
            err: None,
        }
    }
    /// Returns a value in 0..n. Choice 0 is the canonical answer. Points of arity <= 1 are not
    /// recorded.
    pub fn choose(&mut self, label: &'static str, n: usize) -> usize {
        if n <= 1 {
            return 0;
        }
        let i = self.points.len();
        let c = if i < self.prefix.len() {
            let c = self.prefix[i];
            if c as usize >= n {
                if self.err.is_none() {
                    self.err = Some(format!(
                        "replay divergence: point {i} ({label}) has arity {n}, prefix wants {c}"
                    ));
                }
                0
            } else {
                c
            }
        } else {
            0
        };
        self.points.push(Point {
            label,
            arity: n as u16,
            chosen: c,
        });
        c as usize
    }
    pub fn choices(&self) -> Vec<u16> {
        self.points.iter().map(|p| p.chosen).collect()
    }
    pub fn consumed_prefix(&self) -> bool {
        self.points.len() >= self.prefix.len()
    }
}

#[derive(Clone, Debug)]
pub struct Violation {
    /// stable signature: monitor rule + configuration class (+ call site)
    pub signature: String,
    pub message: String,
}

#[derive(Default)]
pub struct RunOut {
    pub violations: Vec<Violation>,
    pub nontrivial: bool,
    pub trace_hash: u64,
    pub outcome_hash: u64,
    pub steps: u32,
    pub state_hashes: Vec<u64>,
    pub render: Option<String>,
    pub machinery_error: Option<String>,
    /// extra executions performed inside this run (differential reruns)
    pub extra_execs: u32,
}

pub trait Harness: Sync {
    fn name(&self) -> String;
    fn n_configs(&self) -> usize;
    fn config_json(&self, idx: usize) -> serde_json::Value;
    fn run(&self, idx: usize, prefix: &[u16], render: bool) -> (RunOut, Vec<Point>);
}

#[derive(Clone, Debug)]
pub struct Found {
    pub cfg: usize,
    pub choices: Vec<u16>,
    pub v: Violation,
}

#[derive(Default)]
pub struct Stats {
    pub evaluations: u64,
    pub transitions: u64,
    pub extra_execs: u64,
    pub states: HashSet<u64>,
    pub nontrivial: HashSet<u64>,
    pub outcomes: HashSet<u64>,
    pub max_points: usize,
    pub max_steps: u32,
    pub found: Vec<Found>,
    pub rechecks: u64,
    pub machinery: Vec<String>,
    pub deepest: Option<(usize, Vec<u16>)>,
}

impl Stats {
    fn merge(&mut self, o: Stats) {
        self.evaluations += o.evaluations;
        self.transitions += o.transitions;
        self.extra_execs += o.extra_execs;
        self.states.extend(o.states);
        self.nontrivial.extend(o.nontrivial);
        self.outcomes.extend(o.outcomes);
        self.max_points = self.max_points.max(o.max_points);
        self.max_steps = self.max_steps.max(o.max_steps);
        self.found.extend(o.found);
        self.rechecks += o.rechecks;
        self.machinery.extend(o.machinery);
        match (&self.deepest, o.deepest) {
            (None, d) => self.deepest = d,
            (Some(a), Some(b)) if b.1.len() > a.1.len() => self.deepest = Some(b),
            _ => {}
        }
    }
}

pub struct RoundResult {
    pub bound: u32,
    pub completed: bool,
    pub stats: Stats,
    pub wall: Duration,
}

struct Queue {
    q: Mutex<VecDeque<(usize, Vec<u16>)>>,
    cv: Condvar,
    pending: AtomicUsize,
}

pub fn cost(choices: &[u16]) -> u32 {
    choices.iter().filter(|c| **c != 0).count() as u32
}

pub fn nthreads() -> usize {
    std::env::var("VERIF_THREADS")
        .ok()
        .and_then(|s| s.parse().ok())
        .unwrap_or_else(|| {
            std::thread::available_parallelism()
                .map(|n| n.get())
                .unwrap_or(4)
        })
}

/// Explore every execution of every configuration with at most `bound` deviations.
pub fn explore_round(h: &dyn Harness, bound: u32, deadline: Option<Instant>) -> RoundResult {
    let start = Instant::now();
    let queue = Queue {
        q: Mutex::new((0..h.n_configs()).map(|i| (i, Vec::new())).collect()),
        cv: Condvar::new(),
        pending: AtomicUsize::new(h.n_configs()),
    };
    let abort = AtomicBool::new(false);
    let nt = nthreads();
    let mut total = Stats::default();
    std::thread::scope(|s| {
        let mut hs = Vec::new();
        for _ in 0..nt {
            hs.push(s.spawn(|| {
                let mut st = Stats::default();
                loop {
                    let job = {
                        let mut q = queue.q.lock().unwrap();
                        loop {
                            if let Some(j) = q.pop_back() {
                                break Some(j);
                            }
                            if queue.pending.load(Ordering::SeqCst) == 0
                                || abort.load(Ordering::SeqCst)
                            {
                                break None;
                            }
                            q = queue
                                .cv
                                .wait_timeout(q, Duration::from_millis(20))
                                .unwrap()
                                .0;
                        }
                    };
                    let Some((cfg, prefix)) = job else { break };
                    dfs(h, cfg, prefix, bound, &mut st, &queue, &abort, deadline, nt);
                    queue.pending.fetch_sub(1, Ordering::SeqCst);
                    queue.cv.notify_all();
                }
                st
            }));
        }
        for hnd in hs {
            total.merge(hnd.join().expect("worker panicked"));
        }
    });
    RoundResult {
        bound,
        completed: !abort.load(Ordering::SeqCst),
        stats: total,
        wall: start.elapsed(),
    }
}

#[allow(clippy::too_many_arguments)]
fn dfs(
    h: &dyn Harness,
    cfg: usize,
    prefix: Vec<u16>,
    bound: u32,
    st: &mut Stats,
    queue: &Queue,
    abort: &AtomicBool,
    deadline: Option<Instant>,
    nt: usize,
) {
    if abort.load(Ordering::Relaxed) {
        return;
    }
    if let Some(d) = deadline {
        if st.evaluations % 256 == 0 && Instant::now() > d {
            abort.store(true, Ordering::SeqCst);
            return;
        }
    }
    let (out, points) = h.run(cfg, &prefix, false);
    st.evaluations += 1;
    st.transitions += out.steps as u64;
    st.extra_execs += out.extra_execs as u64;
    st.max_points = st.max_points.max(points.len());
    st.max_steps = st.max_steps.max(out.steps);
    st.states.extend(out.state_hashes.iter().copied());
    st.outcomes.insert(out.outcome_hash);
    if out.nontrivial {
        st.nontrivial.insert(out.trace_hash);
    }
    if let Some(e) = &out.machinery_error {
        if st.machinery.len() < 5 {
            st.machinery
                .push(format!("cfg {cfg} prefix {prefix:?}: {e}"));
        }
        return;
    }
    let choices: Vec<u16> = points.iter().map(|p| p.chosen).collect();
    if st
        .deepest
        .as_ref()
        .map(|d| cost(&d.1) < cost(&choices) || (cost(&d.1) == cost(&choices) && d.1.len() < choices.len()))
        .unwrap_or(true)
    {
        st.deepest = Some((cfg, choices.clone()));
    }
    // determinism recheck: 1 in 1000 passing executions
    if st.evaluations % 1000 == 1 {
        let (o2, _) = h.run(cfg, &prefix, false);
        st.rechecks += 1;
        if o2.trace_hash != out.trace_hash {
            st.machinery.push(format!(
                "nondeterminism: cfg {cfg} prefix {prefix:?} gave two different traces"
            ));
        }
    }
    for v in out.violations {
        if st.found.len() < 2000 {
            st.found.push(Found {
                cfg,
                choices: choices.clone(),
                v,
            });
        }
    }
    let base = cost(&prefix);
    if base + 1 > bound {
        return;
    }
    for i in prefix.len()..points.len() {
        for alt in 1..points[i].arity {
            let mut child = Vec::with_capacity(i + 1);
            child.extend_from_slice(&choices[..i]);
            child.push(alt);
            let spill = {
                // cheap check without taking the lock most of the time
                queue.pending.load(Ordering::Relaxed) < nt * 2
            };
            if spill {
                queue.pending.fetch_add(1, Ordering::SeqCst);
                queue.q.lock().unwrap().push_back((cfg, child));
                queue.cv.notify_one();
            } else {
                dfs(h, cfg, child, bound, st, queue, abort, deadline, nt);
            }
        }
    }
}
