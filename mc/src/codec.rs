//! C15: the shipped transports deliver every message sequence complete, unmodified and in order
//! under every fragmentation schedule within the bounds. Exhaustive grids, no sampling.

use crate::driver::*;
use crate::explore::nthreads;
use futures::{Sink, SinkExt, Stream, StreamExt};
use serde::{de::DeserializeOwned, Serialize};
use serde_json::json;
use std::cell::{Cell, RefCell};
use std::collections::HashSet;
use std::fmt::Debug;
use std::io;
use std::pin::Pin;
use std::rc::Rc;
use std::sync::atomic::{AtomicUsize, Ordering};
use std::sync::Mutex;
use std::task::{Context, Poll};
use std::time::{Duration, Instant};
use tarpc::{context, trace, ClientMessage, Request, Response, ServerError};
use tokio::io::{AsyncRead, AsyncWrite, ReadBuf};
use tokio_serde::formats::{Bincode, Json};
use tokio_util::codec::{Framed, LengthDelimitedCodec};

// ---------------------------------------------------------------------------------------------
// byte media with harness-owned fragmentation

pub struct WriteIo {
    pub out: Rc<RefCell<Vec<u8>>>,
    /// at most w bytes accepted per call (0 = unlimited)
    pub w: usize,
    pub pend_alt: bool,
    toggle: bool,
    /// bit i set: the i-th call of poll_write (0-based, first 32 calls) returns Pending once
    pub write_pend_mask: u32,
    /// bit i set: the i-th call of poll_flush returns Pending once
    pub flush_pend_mask: u32,
    writes: u32,
    flushes: u32,
    pub shut: Rc<Cell<bool>>,
}

impl WriteIo {
    pub fn new(w: usize, pend_alt: bool) -> Self {
        WriteIo {
            out: Rc::new(RefCell::new(Vec::new())),
            w,
            pend_alt,
            toggle: true,
            write_pend_mask: 0,
            flush_pend_mask: 0,
            writes: 0,
            flushes: 0,
            shut: Rc::new(Cell::new(false)),
        }
    }
}

impl AsyncWrite for WriteIo {
    fn poll_write(mut self: Pin<&mut Self>, cx: &mut Context<'_>, buf: &[u8]) -> Poll<io::Result<usize>> {
        if self.pend_alt {
            self.toggle = !self.toggle;
            if !self.toggle {
                cx.waker().wake_by_ref();
                return Poll::Pending;
            }
        }
        let k = self.writes;
        self.writes += 1;
        if k < 32 && self.write_pend_mask & (1 << k) != 0 {
            cx.waker().wake_by_ref();
            return Poll::Pending;
        }
        let n = if self.w == 0 { buf.len() } else { buf.len().min(self.w) };
        self.out.borrow_mut().extend_from_slice(&buf[..n]);
        Poll::Ready(Ok(n))
    }
    fn poll_flush(mut self: Pin<&mut Self>, cx: &mut Context<'_>) -> Poll<io::Result<()>> {
        let k = self.flushes;
        self.flushes += 1;
        if k < 32 && self.flush_pend_mask & (1 << k) != 0 {
            cx.waker().wake_by_ref();
            return Poll::Pending;
        }
        Poll::Ready(Ok(()))
    }
    fn poll_shutdown(self: Pin<&mut Self>, _: &mut Context<'_>) -> Poll<io::Result<()>> {
        self.shut.set(true);
        Poll::Ready(Ok(()))
    }
}
impl AsyncRead for WriteIo {
    fn poll_read(self: Pin<&mut Self>, _: &mut Context<'_>, _: &mut ReadBuf<'_>) -> Poll<io::Result<()>> {
        Poll::Pending
    }
}

pub struct ReadIo {
    pub data: Vec<u8>,
    pos: usize,
    /// remaining chunk sizes; afterwards the rest in one piece
    chunks: Vec<usize>,
    cur: usize,
    pend_between: bool,
    pend_next: bool,
    pub reads: u32,
}

impl ReadIo {
    pub fn new(data: Vec<u8>, cuts: &[usize], pend_between: bool) -> Self {
        // cuts are ascending absolute positions
        let mut chunks = vec![];
        let mut last = 0;
        for c in cuts {
            chunks.push(c - last);
            last = *c;
        }
        chunks.reverse();
        let cur = chunks.pop().unwrap_or(usize::MAX);
        ReadIo {
            data,
            pos: 0,
            chunks,
            cur,
            pend_between,
            pend_next: false,
            reads: 0,
        }
    }
}

impl AsyncRead for ReadIo {
    fn poll_read(mut self: Pin<&mut Self>, cx: &mut Context<'_>, buf: &mut ReadBuf<'_>) -> Poll<io::Result<()>> {
        if self.pend_next {
            self.pend_next = false;
            cx.waker().wake_by_ref();
            return Poll::Pending;
        }
        self.reads += 1;
        let left = self.data.len() - self.pos;
        if left == 0 {
            return Poll::Ready(Ok(())); // EOF
        }
        if self.cur == 0 {
            self.cur = self.chunks.pop().unwrap_or(usize::MAX);
        }
        let n = left.min(self.cur).min(buf.remaining());
        let p = self.pos;
        buf.put_slice(&self.data[p..p + n]);
        self.pos += n;
        if self.cur != usize::MAX {
            self.cur -= n;
            if self.cur == 0 && self.pend_between {
                self.pend_next = true;
            }
        }
        Poll::Ready(Ok(()))
    }
}
impl AsyncWrite for ReadIo {
    fn poll_write(self: Pin<&mut Self>, _: &mut Context<'_>, buf: &[u8]) -> Poll<io::Result<usize>> {
        Poll::Ready(Ok(buf.len()))
    }
    fn poll_flush(self: Pin<&mut Self>, _: &mut Context<'_>) -> Poll<io::Result<()>> {
        Poll::Ready(Ok(()))
    }
    fn poll_shutdown(self: Pin<&mut Self>, _: &mut Context<'_>) -> Poll<io::Result<()>> {
        Poll::Ready(Ok(()))
    }
}

// ---------------------------------------------------------------------------------------------

#[derive(Clone, Copy, Debug, PartialEq, Eq, Hash)]
pub enum Codec {
    Json,
    Bincode,
}

/// Drives a future that only ever self-wakes; a step cap turns a hang into an observation.
pub fn drive<F: std::future::Future>(mut f: Pin<&mut F>, cap: usize) -> Option<F::Output> {
    let waker = futures::task::noop_waker();
    let mut cx = Context::from_waker(&waker);
    for _ in 0..cap {
        if let Poll::Ready(v) = f.as_mut().poll(&mut cx) {
            return Some(v);
        }
    }
    None
}

pub fn encode<T: Serialize + DeserializeOwned + Clone + Unpin>(codec: Codec, items: &[T], w: usize, pend: bool, close: bool) -> Result<(Vec<u8>, bool), String> {
    encode_with(codec, items, w, pend, close, 0, 0)
}

/// Writes `items` with `send` (each resolves only when flushed), optionally closes, drops the
/// transport, and returns what reached the medium.
pub fn encode_with<T: Serialize + DeserializeOwned + Clone + Unpin>(
    codec: Codec,
    items: &[T],
    w: usize,
    pend: bool,
    close: bool,
    write_pend_mask: u32,
    flush_pend_mask: u32,
) -> Result<(Vec<u8>, bool), String> {
    let mut io = WriteIo::new(w, pend);
    io.write_pend_mask = write_pend_mask;
    io.flush_pend_mask = flush_pend_mask;
    let out = io.out.clone();
    let shut = io.shut.clone();
    let framed = Framed::new(io, LengthDelimitedCodec::new());
    macro_rules! go {
        ($c:expr) => {{
            let mut t = tarpc::serde_transport::new::<_, T, T, _>(framed, $c);
            for it in items {
                let fut = t.send(it.clone());
                futures::pin_mut!(fut);
                match drive(fut, 2_000_000) {
                    Some(Ok(())) => {}
                    Some(Err(e)) => return Err(format!("send error: {e}")),
                    None => return Err("send did not complete".into()),
                }
            }
            if close {
                let fut = t.close();
                futures::pin_mut!(fut);
                match drive(fut, 100_000) {
                    Some(Ok(())) => {}
                    Some(Err(e)) => return Err(format!("close error: {e}")),
                    None => return Err("close did not complete".into()),
                }
            }
            drop(t);
        }};
    }
    match codec {
        Codec::Json => go!(Json::<T, T>::default()),
        Codec::Bincode => go!(Bincode::<T, T>::default()),
    }
    let v = out.borrow().clone();
    Ok((v, shut.get()))
}

#[derive(Debug, PartialEq, Eq, Clone)]
pub enum End {
    Eof,
    Err(String),
    Stuck,
}

pub fn decode<T: Serialize + DeserializeOwned + Debug + Unpin>(codec: Codec, bytes: &[u8], cuts: &[usize], pend: bool) -> (Vec<String>, End) {
    let io = ReadIo::new(bytes.to_vec(), cuts, pend);
    let framed = Framed::new(io, LengthDelimitedCodec::new());
    decode_framed::<T>(codec, framed)
}

/// A connection that exchanged `hello` frames of its own before it was handed to tarpc
/// (`serde_transport::new` takes a `Framed` the application built): whatever that `Framed` had
/// already read beyond the frames the application consumed are protocol messages the peer wrote.
pub fn decode_after_hello<T: Serialize + DeserializeOwned + Debug + Unpin>(codec: Codec, hellos: usize, bytes: &[u8], cuts: &[usize], pend: bool) -> Result<(Vec<String>, End), String> {
    let io = ReadIo::new(bytes.to_vec(), cuts, pend);
    let mut framed = Framed::new(io, LengthDelimitedCodec::new());
    for k in 0..hellos {
        let fut = framed.next();
        futures::pin_mut!(fut);
        match drive(fut, 100_000) {
            Some(Some(Ok(b))) if &b[..] == format!("hello{k}").as_bytes() => {}
            other => return Err(format!("the application's own frame {k} was read as {other:?}")),
        }
    }
    Ok(decode_framed::<T>(codec, framed))
}

fn decode_framed<T: Serialize + DeserializeOwned + Debug + Unpin>(codec: Codec, framed: Framed<ReadIo, LengthDelimitedCodec>) -> (Vec<String>, End) {
    let mut items = vec![];
    macro_rules! go {
        ($c:expr) => {{
            let mut t = tarpc::serde_transport::new::<_, T, T, _>(framed, $c);
            loop {
                let fut = t.next();
                futures::pin_mut!(fut);
                match drive(fut, 100_000) {
                    Some(Some(Ok(it))) => items.push(format!("{it:?}")),
                    Some(Some(Err(e))) => return (items, End::Err(e.to_string())),
                    Some(None) => return (items, End::Eof),
                    None => return (items, End::Stuck),
                }
                if items.len() > 64 {
                    return (items, End::Stuck);
                }
            }
        }};
    }
    match codec {
        Codec::Json => go!(Json::<T, T>::default()),
        Codec::Bincode => go!(Bincode::<T, T>::default()),
    }
}

// ---------------------------------------------------------------------------------------------
// corpus

pub const KINDS: &[io::ErrorKind] = {
    use io::ErrorKind::*;
    &[
        NotFound, PermissionDenied, ConnectionRefused, ConnectionReset, HostUnreachable, NetworkUnreachable,
        ConnectionAborted, NotConnected, AddrInUse, AddrNotAvailable, NetworkDown, BrokenPipe, AlreadyExists,
        WouldBlock, NotADirectory, IsADirectory, DirectoryNotEmpty, ReadOnlyFilesystem, StaleNetworkFileHandle,
        InvalidInput, InvalidData, TimedOut, WriteZero, StorageFull, NotSeekable, QuotaExceeded, FileTooLarge,
        ResourceBusy, ExecutableFileBusy, Deadlock, CrossesDevices, TooManyLinks, InvalidFilename,
        ArgumentListTooLong, Interrupted, Unsupported, UnexpectedEof, OutOfMemory, Other,
    ]
};

pub const PORTABLE: &[io::ErrorKind] = {
    use io::ErrorKind::*;
    &[
        NotFound, PermissionDenied, ConnectionRefused, ConnectionReset, ConnectionAborted, NotConnected,
        AddrInUse, AddrNotAvailable, BrokenPipe, AlreadyExists, WouldBlock, InvalidInput, InvalidData,
        TimedOut, WriteZero, Interrupted, Other, UnexpectedEof,
    ]
};

pub fn tctx(k: u8) -> trace::Context {
    let mut c = trace::Context::default();
    match k {
        0 => {}
        1 => {
            c.trace_id = trace::TraceId::from(u128::MAX);
            c.span_id = trace::SpanId::from(u64::MAX);
            c.sampling_decision = trace::SamplingDecision::Sampled;
        }
        _ => {
            c.trace_id = trace::TraceId::from(0x0123_4567_89ab_cdef_fedc_ba98_7654_3210u128);
            c.span_id = trace::SpanId::from(0x8000_0000_0000_0001u64);
            c.sampling_decision = trace::SamplingDecision::Unsampled;
        }
    }
    c
}

pub fn ctx_at(now: Instant, secs: u64, t: u8) -> context::Context {
    let mut c = context::current();
    c.deadline = now + Duration::from_secs(secs);
    c.trace_context = tctx(t);
    c
}

pub const IDS: [u64; 4] = [0, 1, 1 << 63, u64::MAX];

pub fn bodies() -> Vec<String> {
    vec![
        String::new(),
        "a".into(),
        "ünïcödé ✓ 日本語 \u{1F600} \"quoted\" \\ \n".into(),
        "x".repeat(64 * 1024),
    ]
}

pub fn client_corpus(now: Instant) -> Vec<ClientMessage<String>> {
    let mut v = vec![];
    let bs = bodies();
    for (i, id) in IDS.iter().enumerate() {
        v.push(ClientMessage::Request(Request {
            context: ctx_at(now, 10, (i % 3) as u8),
            id: *id,
            message: bs[i % 3].clone(),
        }));
        v.push(ClientMessage::Cancel {
            trace_context: tctx((i % 3) as u8),
            request_id: *id,
        });
    }
    for (i, b) in bs.iter().enumerate() {
        v.push(ClientMessage::Request(Request {
            context: ctx_at(now, [0u64, 1, 3600, 86_400 * 400][i], 2),
            id: 7,
            message: b.clone(),
        }));
    }
    v
}

pub fn server_corpus() -> Vec<Response<String>> {
    let mut v = vec![];
    let bs = bodies();
    for (i, id) in IDS.iter().enumerate() {
        v.push(Response {
            request_id: *id,
            message: Ok(bs[i].clone()),
        });
    }
    for (i, k) in PORTABLE.iter().enumerate() {
        v.push(Response {
            request_id: i as u64,
            message: Err(ServerError::new(*k, bs[i % 3].clone())),
        });
    }
    v
}

fn frame_bounds(bytes: &[u8]) -> Vec<usize> {
    // LengthDelimitedCodec default: 4-byte big-endian length prefix
    let mut v = vec![];
    let mut p = 0;
    while p + 4 <= bytes.len() {
        let l = u32::from_be_bytes([bytes[p], bytes[p + 1], bytes[p + 2], bytes[p + 3]]) as usize;
        p += 4 + l;
        v.push(p.min(bytes.len()));
    }
    v
}

/// frame boundaries of `bytes` (and the byte after each), shifted by `off`
fn bounds_after(bytes: &[u8], off: usize) -> Vec<usize> {
    let mut v = vec![];
    for b in frame_bounds(bytes) {
        v.push(off + b);
        v.push(off + b + 1);
        v.push(off + b + 4);
    }
    v
}

fn cut_positions(bytes: &[u8], all: bool) -> Vec<usize> {
    let l = bytes.len();
    if all && l <= 200 {
        return (1..l).collect();
    }
    let mut s: Vec<usize> = vec![1, 2, 3, 4, 5, 6, 7, 8, 9];
    for b in frame_bounds(bytes) {
        for d in [-5i64, -4, -3, -2, -1, 0, 1, 2, 3, 4, 5, 8] {
            let p = b as i64 + d;
            if p > 0 {
                s.push(p as usize);
            }
        }
    }
    for d in 1..6 {
        s.push(l.saturating_sub(d));
    }
    s.push(l / 2);
    s.retain(|p| *p > 0 && *p < l);
    s.sort();
    s.dedup();
    s
}

#[derive(Default)]
struct CStats {
    encodes: u64,
    decodes: u64,
    chan_histories: u64,
    distinct: HashSet<u64>,
    failures: Vec<(String, String)>,
    sample: Vec<serde_json::Value>,
    samples: Vec<String>,
}

fn hash_of<T: std::hash::Hash>(t: &T) -> u64 {
    use std::hash::Hasher;
    let mut h = std::collections::hash_map::DefaultHasher::new();
    t.hash(&mut h);
    h.finish()
}

fn fail(st: &mut CStats, sig: &str, msg: String) {
    if st.failures.len() < 200 {
        st.failures.push((sig.to_string(), msg));
    }
}

/// One sequence through one codec: write policies x read fragmentations x truncations.
fn check_seq<T: Serialize + DeserializeOwned + Clone + Debug + Unpin>(
    label: &str,
    codec: Codec,
    items: &[T],
    full_cuts: bool,
    st: &mut CStats,
) {
    let four_chunks = FOUR_CHUNKS.load(std::sync::atomic::Ordering::Relaxed);
    let want: Vec<String> = items.iter().map(|i| format!("{i:?}")).collect();
    let (reference, _) = match encode(codec, items, 0, false, false) {
        Ok(x) => x,
        Err(e) => {
            fail(st, "C15-encode", format!("{label} {codec:?}: {e}"));
            return;
        }
    };
    st.encodes += 1;
    // partial writes and Pending results do not change the byte stream
    for w in [1usize, 2, 3, 5, 8, 13] {
        for pend in [false, true] {
            if reference.len() > 4096 && (w < 13 || pend) {
                continue;
            }
            st.encodes += 1;
            match encode(codec, items, w, pend, true) {
                Ok((b, shut)) => {
                    if b != reference {
                        fail(st, "C15-partial-write-corrupts", format!("{label} {codec:?}: bytes differ when the medium accepts {w} bytes per write (pending={pend})"));
                    }
                    if !shut {
                        fail(st, "C15-close-not-propagated", format!("{label} {codec:?}: closing the transport did not shut the medium down"));
                    }
                }
                Err(e) => fail(st, "C15-partial-write-fails", format!("{label} {codec:?} w={w} pend={pend}: {e}")),
            }
        }
    }
    // Pending results of the medium at every combination of the first three write calls and the
    // first two flush calls, with and without a final close: a `send` that resolved has put its
    // message on the medium (so dropping the writer afterwards loses nothing)
    if reference.len() <= 4096 {
        for w in [0usize, 1, 5] {
            for wm in 0u32..8 {
                for fm in 0u32..4 {
                    for close in [false, true] {
                        if wm == 0 && fm == 0 && close {
                            continue;
                        }
                        st.encodes += 1;
                        match encode_with(codec, items, w, false, close, wm, fm) {
                            Ok((b, _)) => {
                                if b != reference {
                                    fail(
                                        st,
                                        "C15-pending-write-loses-bytes",
                                        format!("{label} {codec:?}: {} of {} bytes reached the medium (accepting {w} bytes per write, write calls {wm:#b} and flush calls {fm:#b} Pending once, close={close}) although every send had resolved", b.len(), reference.len()),
                                    );
                                }
                            }
                            Err(e) => fail(st, "C15-partial-write-fails", format!("{label} {codec:?} w={w} write-pending {wm:#b} flush-pending {fm:#b} close={close}: {e}")),
                        }
                    }
                }
            }
        }
    }
    // every way of cutting the stream into <= 3 read chunks
    let cuts = cut_positions(&reference, full_cuts);
    let mut plans: Vec<Vec<usize>> = vec![vec![]];
    for (i, a) in cuts.iter().enumerate() {
        plans.push(vec![*a]);
        for b in &cuts[i + 1..] {
            plans.push(vec![*a, *b]);
        }
    }
    if four_chunks && reference.len() <= 72 {
        for (i, a) in cuts.iter().enumerate() {
            for (j, b) in cuts.iter().enumerate().skip(i + 1) {
                for c in &cuts[j + 1..] {
                    plans.push(vec![*a, *b, *c]);
                }
            }
        }
    }
    for plan in &plans {
        for pend in [false, true] {
            if pend && plan.is_empty() {
                continue;
            }
            st.decodes += 1;
            if st.samples.len() < 2 || (st.decodes % 100_003 == 0 && st.samples.len() < 6) {
                st.samples.push(format!("{label} through {codec:?} ({} bytes on the wire): read in chunks cut at {plan:?}, Pending between chunks: {pend}", reference.len()));
            }
            let (got, end) = decode::<T>(codec, &reference, plan, pend);
            st.distinct.insert(hash_of(&(label, codec, plan, pend)));
            if got != want {
                fail(
                    st,
                    "C15-fragmented-read-differs",
                    format!("{label} {codec:?}: cut at {plan:?} (pending between chunks: {pend}) read {} items, expected {}; first difference: {:?}", got.len(), want.len(),
                        got.iter().zip(want.iter()).find(|(a, b)| a != b).map(|(a, b)| (truncate(a), truncate(b)))),
                );
            }
            if end != End::Eof {
                fail(st, "C15-no-eof-after-last", format!("{label} {codec:?}: cut at {plan:?}: after the last message the reader saw {end:?} instead of end-of-stream"));
            }
        }
    }
    // the reading end is built from a Framed that has already carried 1-2 frames of the application's
    // own: every way of cutting the stream into <= 3 chunks around that boundary
    if reference.len() <= 4096 {
        for hellos in [1usize, 2] {
            let mut bytes = vec![];
            for k in 0..hellos {
                let h = format!("hello{k}");
                bytes.extend_from_slice(&(h.len() as u32).to_be_bytes());
                bytes.extend_from_slice(h.as_bytes());
            }
            let hl = bytes.len();
            bytes.extend_from_slice(&reference);
            let near: Vec<usize> = (1..bytes.len()).filter(|p| *p <= hl + 9 || *p == hl + reference.len() / 2 || bounds_after(&reference, hl).contains(p)).collect();
            let mut plans: Vec<Vec<usize>> = vec![vec![]];
            for (i, a) in near.iter().enumerate() {
                plans.push(vec![*a]);
                for b in &near[i + 1..] {
                    if *a <= hl + 9 {
                        plans.push(vec![*a, *b]);
                    }
                }
            }
            for plan in &plans {
                for pend in [false, true] {
                    if pend && plan.is_empty() {
                        continue;
                    }
                    st.decodes += 1;
                    st.distinct.insert(hash_of(&(label, codec, "after-hello", hellos, plan, pend)));
                    match decode_after_hello::<T>(codec, hellos, &bytes, plan, pend) {
                        Ok((got, end)) => {
                            if got != want {
                                fail(
                                    st,
                                    "C15-prebuffered-read-differs",
                                    format!("{label} {codec:?}: transport built from a Framed that had read {hellos} frame(s) of the application's own, stream cut at {plan:?} (pending between chunks: {pend}): read {} items, expected {}", got.len(), want.len()),
                                );
                            } else if end != End::Eof {
                                fail(st, "C15-no-eof-after-last", format!("{label} {codec:?}: after {hellos} hello frame(s), cut at {plan:?}: the reader saw {end:?} instead of end-of-stream"));
                            }
                        }
                        Err(e) => fail(st, "C15-machinery-hello", format!("{label} {codec:?} cut at {plan:?}: {e}")),
                    }
                }
            }
        }
    }
    // end of stream inside a frame: complete frames are delivered, then an error, never a value
    let bounds = frame_bounds(&reference);
    let trunc_positions: Vec<usize> = if reference.len() <= 200 {
        (1..reference.len()).collect()
    } else {
        cut_positions(&reference, false)
    };
    for p in trunc_positions {
        if bounds.contains(&p) {
            continue;
        }
        st.decodes += 1;
        let complete = bounds.iter().filter(|b| **b <= p).count();
        let (got, end) = decode::<T>(codec, &reference[..p], &[], false);
        st.distinct.insert(hash_of(&(label, codec, "trunc", p)));
        if got.len() != complete || got[..] != want[..complete] {
            fail(st, "C15-truncated-stream-items", format!("{label} {codec:?}: stream cut at byte {p}: read {} items, {complete} complete frames were present", got.len()));
        }
        // the property promises intact delivery of what was written, not an error for a torn
        // stream: a clean end-of-stream (tokio-util reports one when the cut falls right after a
        // length header) is as acceptable as an error; a hang or an extra value is not
        if matches!(end, End::Stuck) {
            fail(st, "C15-truncated-stream-hangs", format!("{label} {codec:?}: stream cut at byte {p} inside a frame: the reader neither ended nor failed"));
        }
    }
}

fn truncate(s: &str) -> String {
    if s.len() > 120 {
        format!("{}…", &s[..120])
    } else {
        s.to_string()
    }
}

/// The bincode codec with non-default options (fixed-width integers, as `bincode::serialize` and the
/// compression example use): requests, cancellations, responses and every error kind round-trip
/// through it as well (seeded change C15k read the error kind as a u64 where a u32 is written -
/// invisible under bincode's default variable-width integers).
fn check_bincode_fixint(st: &mut CStats) {
    use bincode::Options;
    type O = bincode::config::WithOtherIntEncoding<bincode::DefaultOptions, bincode::config::FixintEncoding>;
    fn round<T: Serialize + DeserializeOwned + Debug + Unpin>(items: Vec<T>) -> Result<Vec<String>, String> {
        let want_n = items.len();
        let io = WriteIo::new(3, true);
        let out = io.out.clone();
        let framed = Framed::new(io, LengthDelimitedCodec::new());
        let opts = || bincode::DefaultOptions::new().with_fixint_encoding();
        {
            let mut t = tarpc::serde_transport::new::<_, T, T, _>(framed, Bincode::<T, T, O>::from(opts()));
            for it in items {
                let fut = t.send(it);
                futures::pin_mut!(fut);
                match drive(fut, 1_000_000) {
                    Some(Ok(())) => {}
                    Some(Err(e)) => return Err(format!("send error: {e}")),
                    None => return Err("send did not complete".into()),
                }
            }
        }
        let bytes = out.borrow().clone();
        let io = ReadIo::new(bytes, &[5, 11], true);
        let framed = Framed::new(io, LengthDelimitedCodec::new());
        let mut t = tarpc::serde_transport::new::<_, T, T, _>(framed, Bincode::<T, T, O>::from(opts()));
        let mut got = vec![];
        loop {
            let fut = t.next();
            futures::pin_mut!(fut);
            match drive(fut, 100_000) {
                Some(Some(Ok(it))) => got.push(format!("{it:?}")),
                Some(Some(Err(e))) => return Err(format!("after {} of {want_n} messages the reader reported {e}", got.len())),
                Some(None) => return Ok(got),
                None => return Err("the reader is stuck".into()),
            }
        }
    }
    let mut ctx = tarpc::context::current();
    ctx.trace_context.trace_id = trace::TraceId::from(0x0102030405060708090a0b0c0d0e0f10u128);
    let reqs = || {
        vec![
            ClientMessage::Request(tarpc::Request { context: ctx, id: 7, message: "m".to_string() }),
            ClientMessage::Cancel { trace_context: ctx.trace_context, request_id: 7 },
            ClientMessage::Request(tarpc::Request { context: ctx, id: u64::MAX, message: String::new() }),
        ]
    };
    st.encodes += 1;
    st.decodes += 1;
    // (deadlines are re-based on arrival: compare everything but the Instant)
    let strip = |s: &str| -> String {
        match (s.find("deadline: "), s.find("trace_context")) {
            (Some(a), Some(b)) if a < b => format!("{}{}", &s[..a], &s[b..]),
            _ => s.to_string(),
        }
    };
    let want: Vec<String> = reqs().iter().map(|m| strip(&format!("{m:?}"))).collect();
    match round(reqs()) {
        Ok(got) => {
            let got: Vec<String> = got.iter().map(|g| strip(g)).collect();
            if got != want {
                fail(st, "C15-bincode-fixint", format!("client messages through bincode with fixed-width integers: read {got:?}, written {want:?}"));
            }
        }
        Err(e) => fail(st, "C15-bincode-fixint", format!("client messages through bincode with fixed-width integers: {e}")),
    }
    for k in KINDS {
        let mk = || {
            vec![
                Response::<String> { request_id: 1, message: Ok("body".to_string()) },
                Response::<String> { request_id: 2, message: Err(ServerError::new(*k, "detail".to_string())) },
                Response::<String> { request_id: 3, message: Err(ServerError::new(*k, String::new())) },
            ]
        };
        st.encodes += 1;
        st.decodes += 1;
        st.distinct.insert(hash_of(&("fixint", format!("{k:?}"))));
        let portable = PORTABLE.contains(k);
        match round(mk()) {
            Ok(got) => {
                let want: Vec<String> = mk()
                    .into_iter()
                    .map(|mut r| {
                        if let Err(e) = &mut r.message {
                            if !portable {
                                e.kind = io::ErrorKind::Other;
                            }
                        }
                        format!("{r:?}")
                    })
                    .collect();
                if got != want {
                    fail(st, "C15-bincode-fixint", format!("responses with an error of kind {k:?} through bincode with fixed-width integers: read {got:?}, expected {want:?}"));
                }
            }
            Err(e) => fail(st, "C15-bincode-fixint", format!("responses with an error of kind {k:?} through bincode with fixed-width integers: {e}")),
        }
    }
}

fn check_kinds(st: &mut CStats) {
    for codec in [Codec::Json, Codec::Bincode] {
        for k in KINDS {
            let sent = Response::<String> {
                request_id: 1,
                message: Err(ServerError::new(*k, "d".into())),
            };
            let Ok((bytes, _)) = encode(codec, &[sent.clone()], 0, false, false) else {
                fail(st, "C15-encode", format!("{k:?}"));
                continue;
            };
            st.encodes += 1;
            let io = ReadIo::new(bytes, &[], false);
            let framed = Framed::new(io, LengthDelimitedCodec::new());
            let got: Option<Response<String>> = match codec {
                Codec::Json => {
                    let mut t = tarpc::serde_transport::new::<_, Response<String>, Response<String>, _>(framed, Json::default());
                    let f = t.next();
                    futures::pin_mut!(f);
                    drive(f, 10_000).flatten().and_then(|r| r.ok())
                }
                Codec::Bincode => {
                    let mut t = tarpc::serde_transport::new::<_, Response<String>, Response<String>, _>(framed, Bincode::default());
                    let f = t.next();
                    futures::pin_mut!(f);
                    drive(f, 10_000).flatten().and_then(|r| r.ok())
                }
            };
            st.decodes += 1;
            st.distinct.insert(hash_of(&("kind", codec, format!("{k:?}"))));
            let want = if PORTABLE.contains(k) { *k } else { io::ErrorKind::Other };
            match got {
                Some(Response { message: Err(e), .. }) => {
                    if e.kind != want {
                        fail(
                            st,
                            &format!("C15-error-kind-{codec:?}"),
                            format!("{codec:?}: error kind {k:?} was read back as {:?} (expected {want:?})", e.kind),
                        );
                    }
                }
                other => fail(st, "C15-error-kind-lost", format!("{codec:?}: {k:?} decoded to {other:?}")),
            }
        }
    }
}

/// Kind numbers a peer may write that are not in the 18-entry table read back as `Other`.
fn check_raw_kinds(st: &mut CStats) {
    for codec in [Codec::Json, Codec::Bincode] {
        for kind in (0u32..=40).chain([255, 256, 65_536, u32::MAX]) {
            let bytes = crate::c16::response_with_kind(codec, 3, kind);
            st.decodes += 1;
            st.distinct.insert(hash_of(&("rawkind", codec, kind)));
            let r = std::panic::catch_unwind(|| decode::<Response<String>>(codec, &bytes, &[], false));
            let want = if (kind as usize) < PORTABLE.len() { None } else { Some("Other") };
            match r {
                Ok((items, End::Eof)) if items.len() == 1 => {
                    if let Some(w) = want {
                        if !items[0].contains(&format!("kind: {w},")) {
                            fail(st, &format!("C15-unknown-kind-{codec:?}"), format!("{codec:?}: kind number {kind} (outside the table) was read as {}", items[0]));
                        }
                    }
                }
                Ok((items, end)) => fail(st, "C15-unknown-kind-rejected", format!("{codec:?}: response with kind number {kind} decoded to {items:?} / {end:?}")),
                Err(_) => fail(st, "C15-unknown-kind-panics", format!("{codec:?}: response with kind number {kind}: {}", crate::mock::take_panic())),
            }
        }
    }
}

fn check_defaults(st: &mut CStats) {
    // peers that omit optional fields (self-describing encoding)
    let now = tokio::time::Instant::now().into_std();
    let frames: Vec<(&str, String)> = vec![
        ("cancel without trace_context", r#"{"Cancel":{"request_id":5}}"#.to_string()),
        (
            "request without deadline",
            r#"{"Request":{"context":{"trace_context":{"trace_id":[1,0,0,0,0,0,0,0,0,0,0,0,0,0,0,0],"span_id":2,"sampling_decision":"Sampled"}},"id":9,"message":"m"}}"#.to_string(),
        ),
        // the documented member names, written by a peer that is not this tree (another language, an
        // older release): a deadline that is there is the deadline (seeded change C07k renamed the
        // member, so that such a frame was accepted and silently given the 10 s default)
        (
            "request with a 60 s deadline",
            r#"{"Request":{"context":{"deadline":{"secs":60,"nanos":0},"trace_context":{"trace_id":[1,0,0,0,0,0,0,0,0,0,0,0,0,0,0,0],"span_id":2,"sampling_decision":"Sampled"}},"id":9,"message":"m"}}"#.to_string(),
        ),
    ];
    // ... and what this tree writes uses those names
    {
        let mut ctx = tarpc::context::current();
        ctx.deadline = now + Duration::from_secs(60);
        let m = ClientMessage::Request(tarpc::Request { context: ctx, id: 9, message: "m".to_string() });
        st.encodes += 1;
        match encode_owned(Codec::Json, vec![m]) {
            Ok(bytes) if bytes.len() > 4 => match serde_json::from_slice::<serde_json::Value>(&bytes[4..]) {
                Ok(v) => {
                    let c = &v["Request"]["context"];
                    let ok = c["deadline"]["secs"].is_u64()
                        && c["deadline"]["nanos"].is_u64()
                        && c["trace_context"]["trace_id"].is_array()
                        && c["trace_context"]["span_id"].is_u64()
                        && c["trace_context"]["sampling_decision"].is_string()
                        && v["Request"]["id"] == 9
                        && v["Request"]["message"] == "m";
                    if !ok {
                        fail(st, "C15-json-member-names", format!("a request written through the JSON codec does not have the documented members: {v}"));
                    }
                }
                Err(e) => fail(st, "C15-json-member-names", format!("a request written through the JSON codec is not JSON: {e}")),
            },
            other => fail(st, "C15-encode", format!("request through JSON: {:?}", other.map(|b| b.len()))),
        }
        let m = ClientMessage::<String>::Cancel { trace_context: trace::Context::default(), request_id: 5 };
        if let Ok(bytes) = encode_owned(Codec::Json, vec![m]) {
            if let Ok(v) = serde_json::from_slice::<serde_json::Value>(&bytes[4.min(bytes.len())..]) {
                if v["Cancel"]["request_id"] != 5 || !v["Cancel"]["trace_context"].is_object() {
                    fail(st, "C15-json-member-names", format!("a cancellation written through the JSON codec does not have the documented members: {v}"));
                }
            }
        }
        let m = Response { request_id: 7, message: Err::<String, _>(tarpc::ServerError::new(io::ErrorKind::NotFound, "d".to_string())) };
        if let Ok(bytes) = encode_owned(Codec::Json, vec![m]) {
            if let Ok(v) = serde_json::from_slice::<serde_json::Value>(&bytes[4.min(bytes.len())..]) {
                if v["request_id"] != 7 || !v["message"]["Err"]["kind"].is_u64() || v["message"]["Err"]["detail"] != "d" {
                    fail(st, "C15-json-member-names", format!("an error response written through the JSON codec does not have the documented members: {v}"));
                }
            }
        }
    }
    for (what, js) in frames {
        let mut bytes = (js.len() as u32).to_be_bytes().to_vec();
        bytes.extend_from_slice(js.as_bytes());
        let io = ReadIo::new(bytes, &[], false);
        let framed = Framed::new(io, LengthDelimitedCodec::new());
        let mut t = tarpc::serde_transport::new::<_, ClientMessage<String>, ClientMessage<String>, _>(framed, Json::default());
        let f = t.next();
        futures::pin_mut!(f);
        st.decodes += 1;
        st.distinct.insert(hash_of(&("default", what)));
        match drive(f, 10_000) {
            Some(Some(Ok(ClientMessage::Cancel { trace_context, request_id }))) => {
                if request_id != 5 || trace_context != trace::Context::default() {
                    fail(st, "C15-default-cancel", format!("{what}: decoded to id {request_id}, {trace_context:?}"));
                }
            }
            Some(Some(Ok(ClientMessage::Request(r)))) => {
                let d = r.context.deadline.checked_duration_since(now);
                let want = if what.contains("60 s") { 60 } else { 10 };
                if r.id != 9 || r.message != "m" || d != Some(Duration::from_secs(want)) {
                    fail(st, "C15-default-deadline", format!("{what}: decoded to id {} deadline now+{d:?} (expected now+{want}s)", r.id));
                }
            }
            other => fail(st, "C15-default-rejected", format!("{what}: {:?}", other.map(|o| o.map(|r| r.map(|_| ()).map_err(|e| e.to_string()))))),
        }
    }
}

// ---------------------------------------------------------------------------------------------
// in-memory channels: all interleavings of sends, receives and the writer's drop

#[derive(Clone, Copy, Debug, PartialEq)]
enum COp {
    Send,
    Recv,
    DropWriter,
}

fn chan_history<S, R>(mk: &dyn Fn() -> (S, R), hist: &[COp], n_items: usize) -> Result<(), String>
where
    S: Sink<u32> + Unpin,
    R: Stream<Item = Result<u32, tarpc::transport::channel::ChannelError>> + Unpin,
    S::Error: Debug,
{
    let (tx, mut rx) = mk();
    let mut tx = Some(tx);
    let waker = futures::task::noop_waker();
    let mut cx = Context::from_waker(&waker);
    let mut sent = 0u32;
    let mut got: Vec<u32> = vec![];
    let mut ended = false;
    for op in hist {
        match op {
            COp::Send => {
                let Some(t) = tx.as_mut() else { continue };
                if sent as usize >= n_items {
                    continue;
                }
                match Pin::new(&mut *t).poll_ready(&mut cx) {
                    Poll::Ready(Ok(())) => {
                        Pin::new(&mut *t).start_send(sent).map_err(|e| format!("start_send after ready failed: {e:?}"))?;
                        sent += 1;
                        let _ = Pin::new(&mut *t).poll_flush(&mut cx);
                    }
                    Poll::Ready(Err(e)) => return Err(format!("poll_ready failed with the reader alive: {e:?}")),
                    Poll::Pending => {}
                }
            }
            COp::Recv => match Pin::new(&mut rx).poll_next(&mut cx) {
                Poll::Ready(Some(Ok(v))) => {
                    if ended {
                        return Err("item after end-of-stream".into());
                    }
                    got.push(v)
                }
                Poll::Ready(Some(Err(e))) => return Err(format!("receive error: {e:?}")),
                Poll::Ready(None) => {
                    if tx.is_some() {
                        return Err("end-of-stream while the writer is alive".into());
                    }
                    ended = true;
                }
                Poll::Pending => {
                    if tx.is_none() && got.len() as u32 == sent {
                        return Err("reader pending after the writer was dropped and everything was read".into());
                    }
                }
            },
            COp::DropWriter => {
                tx = None;
            }
        }
        let want: Vec<u32> = (0..got.len() as u32).collect();
        if got != want {
            return Err(format!("read {got:?}, sent 0..{sent}"));
        }
    }
    // drain: everything sent is eventually read, then end-of-stream once the writer is gone
    tx = None;
    let _ = &tx;
    loop {
        match Pin::new(&mut rx).poll_next(&mut cx) {
            Poll::Ready(Some(Ok(v))) => got.push(v),
            Poll::Ready(Some(Err(e))) => return Err(format!("receive error: {e:?}")),
            Poll::Ready(None) => break,
            Poll::Pending => return Err("reader pending forever after the writer was dropped".into()),
        }
    }
    let want: Vec<u32> = (0..sent).collect();
    if got != want {
        return Err(format!("read {got:?}, sent 0..{sent}"));
    }
    Ok(())
}

fn check_channels(st: &mut CStats, depth: usize) {
    use tarpc::transport::channel;
    let ops = [COp::Send, COp::Recv, COp::DropWriter];
    // all histories up to `depth`
    let mut hists: Vec<Vec<COp>> = vec![vec![]];
    let mut frontier = vec![vec![]];
    for _ in 0..depth {
        let mut next = vec![];
        for h in &frontier {
            for o in ops {
                if o == COp::DropWriter && h.contains(&COp::DropWriter) {
                    continue;
                }
                let mut c: Vec<COp> = h.clone();
                c.push(o);
                next.push(c);
            }
        }
        hists.extend(next.iter().cloned());
        frontier = next;
    }
    for h in &hists {
        for (name, cap) in [("unbounded", None), ("bounded(0)", Some(0usize)), ("bounded(1)", Some(1)), ("bounded(2)", Some(2))] {
            st.chan_histories += 1;
            st.distinct.insert(hash_of(&(name, format!("{h:?}"))));
            let r = match cap {
                None => chan_history(&|| channel::unbounded::<u32, u32>(), h, 3),
                Some(c) => chan_history(&move || channel::bounded::<u32, u32>(c), h, 3),
            };
            if let Err(e) = r {
                fail(st, &format!("C15-channel-{name}"), format!("{name} {h:?}: {e}"));
            }
        }
    }
}


// two-way histories over both ends of an in-memory channel, with wake obligations
#[derive(Clone, Copy, Debug, PartialEq)]
enum DOp {
    Send(usize),
    Recv(usize),
    Drop(usize),
}

/// Both ends send and receive; end `e` is polled with its own flag waker. Beyond intact, in-order
/// delivery and end-of-stream after a drop, a `Pending` answer is an obligation: a reader told
/// `Pending` must be woken when the other end sends or is dropped, a writer told `Pending` by
/// `poll_ready` must be woken when the other end takes an item.
fn chan_history2<A, B>(mk: &dyn Fn() -> (A, B), hist: &[DOp], n_items: u32) -> Result<(), String>
where
    A: Sink<u32> + Stream<Item = Result<u32, tarpc::transport::channel::ChannelError>> + Unpin,
    B: Sink<u32> + Stream<Item = Result<u32, tarpc::transport::channel::ChannelError>> + Unpin,
    <A as Sink<u32>>::Error: Debug,
    <B as Sink<u32>>::Error: Debug,
{
    use crate::mock::Flag;
    enum End<A, B> {
        A(A),
        B(B),
    }
    impl<A, B> End<A, B>
    where
        A: Sink<u32> + Stream<Item = Result<u32, tarpc::transport::channel::ChannelError>> + Unpin,
        B: Sink<u32> + Stream<Item = Result<u32, tarpc::transport::channel::ChannelError>> + Unpin,
        <A as Sink<u32>>::Error: Debug,
        <B as Sink<u32>>::Error: Debug,
    {
        fn ready(&mut self, cx: &mut Context<'_>) -> Poll<Result<(), String>> {
            match self {
                End::A(x) => Pin::new(x).poll_ready(cx).map_err(|e| format!("{e:?}")),
                End::B(x) => Pin::new(x).poll_ready(cx).map_err(|e| format!("{e:?}")),
            }
        }
        fn send(&mut self, v: u32) -> Result<(), String> {
            match self {
                End::A(x) => Pin::new(x).start_send(v).map_err(|e| format!("{e:?}")),
                End::B(x) => Pin::new(x).start_send(v).map_err(|e| format!("{e:?}")),
            }
        }
        fn flush(&mut self, cx: &mut Context<'_>) -> Poll<Result<(), String>> {
            match self {
                End::A(x) => Pin::new(x).poll_flush(cx).map_err(|e| format!("{e:?}")),
                End::B(x) => Pin::new(x).poll_flush(cx).map_err(|e| format!("{e:?}")),
            }
        }
        fn next(&mut self, cx: &mut Context<'_>) -> Poll<Option<Result<u32, String>>> {
            match self {
                End::A(x) => Pin::new(x).poll_next(cx).map(|o| o.map(|r| r.map_err(|e| format!("{e:?}")))),
                End::B(x) => Pin::new(x).poll_next(cx).map(|o| o.map(|r| r.map_err(|e| format!("{e:?}")))),
            }
        }
    }
    let (a, b) = mk();
    let mut ends: [Option<End<A, B>>; 2] = [Some(End::A(a)), Some(End::B(b))];
    let flags = [Flag::new(false), Flag::new(false)];
    let wakers = [std::task::Waker::from(flags[0].clone()), std::task::Waker::from(flags[1].clone())];
    let mut sent = [0u32; 2]; // items sent BY end e
    let mut got: [Vec<u32>; 2] = [vec![], vec![]]; // items received BY end e
    let mut ended = [false; 2];
    let mut recv_pending = [false; 2];
    let mut send_pending = [false; 2];
    for (k, op) in hist.iter().enumerate() {
        let at = |m: String| format!("step {k} {op:?}: {m}");
        match *op {
            DOp::Send(e) => {
                let o = 1 - e;
                let Some(end) = ends[e].as_mut() else { continue };
                if sent[e] >= n_items {
                    continue;
                }
                flags[e].clear();
                let mut cx = Context::from_waker(&wakers[e]);
                match end.ready(&mut cx) {
                    Poll::Ready(Ok(())) => {
                        send_pending[e] = false;
                        match end.send(sent[e]) {
                            Ok(()) => {}
                            Err(m) if ends[o].is_none() => {
                                let _ = m;
                                continue;
                            }
                            Err(m) => return Err(at(format!("start_send after ready failed with the other end alive: {m}"))),
                        }
                        sent[e] += 1;
                        let _ = end.flush(&mut cx);
                        if recv_pending[o] && ends[o].is_some() {
                            if !flags[o].is_set() {
                                return Err(at(format!("end {o} was told Pending by poll_next and is not woken by a send")));
                            }
                            recv_pending[o] = false;
                        }
                    }
                    Poll::Ready(Err(m)) => {
                        if ends[o].is_some() {
                            return Err(at(format!("poll_ready failed with the other end alive: {m}")));
                        }
                    }
                    Poll::Pending => {
                        if ends[o].is_none() {
                            return Err(at("poll_ready pending although the other end is gone".into()));
                        }
                        send_pending[e] = true;
                    }
                }
            }
            DOp::Recv(e) => {
                let o = 1 - e;
                let Some(end) = ends[e].as_mut() else { continue };
                flags[e].clear();
                let mut cx = Context::from_waker(&wakers[e]);
                match end.next(&mut cx) {
                    Poll::Ready(Some(Ok(v))) => {
                        if ended[e] {
                            return Err(at("item after end-of-stream".into()));
                        }
                        recv_pending[e] = false;
                        got[e].push(v);
                        if send_pending[o] && ends[o].is_some() {
                            if !flags[o].is_set() {
                                return Err(at(format!("end {o} was told Pending by poll_ready and is not woken when room returns")));
                            }
                            send_pending[o] = false;
                        }
                    }
                    Poll::Ready(Some(Err(m))) => return Err(at(format!("receive error: {m}"))),
                    Poll::Ready(None) => {
                        if ends[o].is_some() {
                            return Err(at("end-of-stream while the other end is alive".into()));
                        }
                        if got[e].len() as u32 != sent[o] {
                            return Err(at(format!("end-of-stream after {} of {} items", got[e].len(), sent[o])));
                        }
                        ended[e] = true;
                    }
                    Poll::Pending => {
                        if got[e].len() as u32 != sent[o] {
                            return Err(at(format!("reader pending with {} of {} items read", got[e].len(), sent[o])));
                        }
                        if ends[o].is_none() {
                            return Err(at("reader pending after the other end was dropped and everything was read".into()));
                        }
                        recv_pending[e] = true;
                    }
                }
            }
            DOp::Drop(e) => {
                let o = 1 - e;
                if ends[e].take().is_none() {
                    continue;
                }
                if recv_pending[o] && ends[o].is_some() {
                    if !flags[o].is_set() {
                        return Err(at(format!("end {o} was told Pending by poll_next and is not woken when the other end is dropped")));
                    }
                    recv_pending[o] = false;
                }
                if send_pending[o] && ends[o].is_some() && !flags[o].is_set() {
                    return Err(at(format!("end {o} was told Pending by poll_ready and is not woken when the other end is dropped")));
                }
            }
        }
        for e in 0..2 {
            let want: Vec<u32> = (0..got[e].len() as u32).collect();
            if got[e] != want {
                return Err(at(format!("end {e} read {:?}, the other end sent 0..{}", got[e], sent[1 - e])));
            }
        }
    }
    // drain: drop end 0 (if alive), end 1 reads the rest and then end-of-stream; and the mirror image
    for (dropped, reader) in [(0usize, 1usize), (1, 0)] {
        if ends[reader].is_none() {
            continue;
        }
        ends[dropped] = None;
        let end = ends[reader].as_mut().unwrap();
        let mut cx = Context::from_waker(&wakers[reader]);
        loop {
            match end.next(&mut cx) {
                Poll::Ready(Some(Ok(v))) => got[reader].push(v),
                Poll::Ready(Some(Err(m))) => return Err(format!("drain: receive error: {m}")),
                Poll::Ready(None) => break,
                Poll::Pending => return Err(format!("drain: end {reader} pending forever after the other end was dropped")),
            }
        }
        let want: Vec<u32> = (0..sent[dropped]).collect();
        if got[reader] != want {
            return Err(format!("drain: end {reader} read {:?}, the other end sent 0..{}", got[reader], sent[dropped]));
        }
        break;
    }
    Ok(())
}

fn check_channels2(st: &mut CStats, depth: usize) {
    use tarpc::transport::channel;
    let ops = [DOp::Send(0), DOp::Recv(1), DOp::Send(1), DOp::Recv(0), DOp::Drop(0), DOp::Drop(1)];
    let mut frontier: Vec<Vec<DOp>> = vec![vec![]];
    let mut hists: Vec<Vec<DOp>> = vec![];
    for _ in 0..depth {
        let mut next = vec![];
        for h in &frontier {
            for o in ops {
                if matches!(o, DOp::Drop(_)) && h.iter().any(|x| matches!(x, DOp::Drop(_))) {
                    continue;
                }
                let mut c = h.clone();
                c.push(o);
                next.push(c);
            }
        }
        hists.extend(next.iter().cloned());
        frontier = next;
    }
    for h in &hists {
        for (name, cap) in [("unbounded", None), ("bounded(0)", Some(0usize)), ("bounded(1)", Some(1)), ("bounded(2)", Some(2))] {
            st.chan_histories += 1;
            st.distinct.insert(hash_of(&(name, "two-way", format!("{h:?}"))));
            let r = match cap {
                None => chan_history2(&|| channel::unbounded::<u32, u32>(), h, 4),
                Some(c) => chan_history2(&move || channel::bounded::<u32, u32>(c), h, 4),
            };
            if let Err(e) = r {
                fail(st, &format!("C15-channel-{name}"), format!("two-way {name} {h:?}: {e}"));
            }
        }
    }
}


// ---------------------------------------------------------------------------------------------
// The same two-way histories as a part of C02: the shipped in-memory transports are where "capacity
// returning", "reply arrival" and "peer close" become wake-ups when tarpc runs over them.

#[derive(Clone, Debug, serde::Serialize, serde::Deserialize)]
pub struct ChanCfg {
    /// None = unbounded
    pub cap: Option<usize>,
    /// 0 = Send(0), 1 = Recv(1), 2 = Send(1), 3 = Recv(0), 4 = Drop(0), 5 = Drop(1)
    pub hist: Vec<u8>,
}

pub struct ChanHarness {
    pub cfgs: Vec<ChanCfg>,
}

pub fn chan_configs(depth: usize) -> Vec<ChanCfg> {
    let mut frontier: Vec<Vec<u8>> = vec![vec![]];
    let mut hists: Vec<Vec<u8>> = vec![];
    for _ in 0..depth {
        let mut next = vec![];
        for h in &frontier {
            for o in 0u8..6 {
                if o >= 4 && h.iter().any(|x| *x >= 4) {
                    continue;
                }
                let mut c = h.clone();
                c.push(o);
                next.push(c);
            }
        }
        hists.extend(next.iter().cloned());
        frontier = next;
    }
    let mut v = vec![];
    for cap in [None, Some(0usize), Some(1), Some(2)] {
        for h in &hists {
            v.push(ChanCfg { cap, hist: h.clone() });
        }
    }
    v
}

pub fn run_chan_cfg(cfg: &ChanCfg, render: bool) -> crate::explore::RunOut {
    use tarpc::transport::channel;
    let hist: Vec<DOp> = cfg
        .hist
        .iter()
        .map(|o| match o {
            0 => DOp::Send(0),
            1 => DOp::Recv(1),
            2 => DOp::Send(1),
            3 => DOp::Recv(0),
            4 => DOp::Drop(0),
            _ => DOp::Drop(1),
        })
        .collect();
    let r = std::panic::catch_unwind(std::panic::AssertUnwindSafe(|| match cfg.cap {
        None => chan_history2(&|| channel::unbounded::<u32, u32>(), &hist, 4),
        Some(c) => chan_history2(&move || channel::bounded::<u32, u32>(c), &hist, 4),
    }));
    let mut violations = vec![];
    match r {
        Ok(Ok(())) => {}
        // delivery itself is C15's business; C02 judges the wake-ups and the waits
        Ok(Err(m)) if m.contains("not woken") || m.contains("pending") => violations.push(crate::explore::Violation {
            signature: "C02-channel-wake".into(),
            message: format!("in-memory channel {:?} {hist:?}: {m}", cfg.cap),
        }),
        Ok(Err(_)) => {}
        Err(_) => violations.push(crate::explore::Violation {
            signature: "C02-channel-panic".into(),
            message: format!("in-memory channel {:?} {hist:?}: panic", cfg.cap),
        }),
    }
    let th = hash_of(&(format!("{:?}", cfg.cap), cfg.hist.clone()));
    crate::explore::RunOut {
        violations,
        nontrivial: cfg.hist.len() > 1,
        trace_hash: th,
        outcome_hash: hash_of(&(cfg.hist.iter().filter(|o| **o == 1 || **o == 3).count(), cfg.hist.iter().any(|o| *o >= 4))),
        steps: cfg.hist.len() as u32,
        state_hashes: vec![th],
        render: if render { Some(format!("in-memory channel cap {:?}: {hist:?}\n", cfg.cap)) } else { None },
        machinery_error: None,
        extra_execs: 0,
    }
}

impl crate::explore::Harness for ChanHarness {
    fn name(&self) -> String {
        "channel/C02".into()
    }
    fn n_configs(&self) -> usize {
        self.cfgs.len()
    }
    fn config_json(&self, idx: usize) -> serde_json::Value {
        json!(self.cfgs[idx])
    }
    fn run(&self, idx: usize, _prefix: &[u16], render: bool) -> (crate::explore::RunOut, Vec<crate::explore::Point>) {
        (run_chan_cfg(&self.cfgs[idx], render), vec![])
    }
}


// ---------------------------------------------------------------------------------------------
// C09 below the Sink/Stream seam: the shipped serde transport over a byte stream that fails. Every
// kind of io::Error the medium can report, at every position of a short exchange, must come out of
// the transport as an error - and so end the client's dispatch with an error naming
// the read, fail the outstanding call, and be reported by the server channel's stream.

pub struct FaultIo {
    data: Vec<u8>,
    pos: usize,
    /// reads fail once `pos` has reached this many bytes
    pub fail_read_at: Option<usize>,
    pub fail_write: bool,
    pub fail_flush: bool,
    pub kind: io::ErrorKind,
    pub written: Rc<RefCell<Vec<u8>>>,
}
impl AsyncRead for FaultIo {
    fn poll_read(mut self: Pin<&mut Self>, _: &mut Context<'_>, buf: &mut ReadBuf<'_>) -> Poll<io::Result<()>> {
        if let Some(at) = self.fail_read_at {
            if self.pos >= at {
                return Poll::Ready(Err(io::Error::new(self.kind, "medium failed")));
            }
        }
        let limit = self.fail_read_at.unwrap_or(usize::MAX).min(self.data.len());
        if self.pos >= limit {
            return Poll::Pending; // nothing more for now (the harness never waits on it)
        }
        let n = (limit - self.pos).min(buf.remaining());
        let p = self.pos;
        buf.put_slice(&self.data[p..p + n]);
        self.pos += n;
        Poll::Ready(Ok(()))
    }
}
impl AsyncWrite for FaultIo {
    fn poll_write(self: Pin<&mut Self>, _: &mut Context<'_>, buf: &[u8]) -> Poll<io::Result<usize>> {
        if self.fail_write {
            return Poll::Ready(Err(io::Error::new(self.kind, "medium failed")));
        }
        self.written.borrow_mut().extend_from_slice(buf);
        Poll::Ready(Ok(buf.len()))
    }
    fn poll_flush(self: Pin<&mut Self>, _: &mut Context<'_>) -> Poll<io::Result<()>> {
        if self.fail_flush {
            return Poll::Ready(Err(io::Error::new(self.kind, "medium failed")));
        }
        Poll::Ready(Ok(()))
    }
    fn poll_shutdown(self: Pin<&mut Self>, _: &mut Context<'_>) -> Poll<io::Result<()>> {
        Poll::Ready(Ok(()))
    }
}

#[derive(Clone, Debug, serde::Serialize, serde::Deserialize)]
pub struct IoCase {
    pub json: bool,
    /// 0 = transport alone (reader), 1 = client dispatch with one call outstanding, 2 = server channel
    pub level: u8,
    /// index into KINDS
    pub kind: usize,
    /// 0 = read fails at once, 1 = after one whole inbound message, 2 = inside the second message,
    /// 3 = writes fail, 4 = flushes fail
    pub at: u8,
}

pub fn io_cases() -> Vec<IoCase> {
    let mut v = vec![];
    for json in [true, false] {
        for level in 0..3u8 {
            for kind in 0..KINDS.len() {
                for at in 0..5u8 {
                    if level == 0 && at >= 3 {
                        continue;
                    }
                    v.push(IoCase { json, level, kind, at });
                }
            }
        }
    }
    v
}

/// Ok(description of what was observed) or Err((signature, message))
/// like `encode`, for message types that cannot be cloned
fn encode_owned<T: Serialize + DeserializeOwned + Unpin>(codec: Codec, items: Vec<T>) -> Result<Vec<u8>, String> {
    let io = WriteIo::new(0, false);
    let out = io.out.clone();
    let framed = Framed::new(io, LengthDelimitedCodec::new());
    macro_rules! go {
        ($c:expr) => {{
            let mut t = tarpc::serde_transport::new::<_, T, T, _>(framed, $c);
            for it in items {
                let fut = t.send(it);
                futures::pin_mut!(fut);
                match drive(fut, 100_000) {
                    Some(Ok(())) => {}
                    Some(Err(e)) => return Err(format!("send error: {e}")),
                    None => return Err("send did not complete".into()),
                }
            }
        }};
    }
    match codec {
        Codec::Json => go!(Json::<T, T>::default()),
        Codec::Bincode => go!(Bincode::<T, T>::default()),
    }
    let v = out.borrow().clone();
    Ok(v)
}

pub fn run_io_case(c: &IoCase) -> Result<String, (String, String)> {
    use std::future::Future;
    use tarpc::{client, server::{BaseChannel, Channel}};
    let kind = KINDS[c.kind];
    let codec = if c.json { Codec::Json } else { Codec::Bincode };
    // what the peer has sent: two well-formed messages of the right direction
    let inbound: Vec<u8> = if c.level == 2 {
        let mut ctx = tarpc::context::current();
        ctx.deadline = std::time::Instant::now() + Duration::from_secs(3600);
        let m = |id| ClientMessage::Request(tarpc::Request { context: ctx, id, message: "x".to_string() });
        encode_owned(codec, vec![m(0), m(1)]).map_err(|e| ("C09-machinery".to_string(), e))?
    } else {
        let m = |id| Response { request_id: id, message: Ok("y".to_string()) };
        // answers to ids the client has not used (the transport level does not care; the dispatch discards them)
        encode_owned(codec, vec![m(1000), m(1001)]).map_err(|e| ("C09-machinery".to_string(), e))?
    };
    let first = frame_bounds(&inbound)[0];
    let io = FaultIo {
        data: inbound.clone(),
        pos: 0,
        fail_read_at: match c.at {
            0 => Some(0),
            1 => Some(first),
            2 => Some(first + 5),
            _ => None,
        },
        fail_write: c.at == 3,
        fail_flush: c.at == 4,
        kind,
        written: Rc::new(RefCell::new(vec![])),
    };
    let framed = Framed::new(io, LengthDelimitedCodec::new());
    let label = format!("{codec:?} medium failing with {kind:?} ({})", ["first read", "read after one whole message", "read inside the second message", "every write", "every flush"][c.at as usize]);
    let waker = futures::task::noop_waker();
    let mut cx = Context::from_waker(&waker);
    let rt = tokio::runtime::Builder::new_current_thread().enable_time().start_paused(true).build().unwrap();
    let _g = rt.enter();
    macro_rules! with_transport {
        ($t:ident, $item:ty, $sink:ty, $body:block) => {
            match codec {
                Codec::Json => {
                    let mut $t = tarpc::serde_transport::new::<_, $item, $sink, _>(framed, Json::<$item, $sink>::default());
                    $body
                }
                Codec::Bincode => {
                    let mut $t = tarpc::serde_transport::new::<_, $item, $sink, _>(framed, Bincode::<$item, $sink>::default());
                    $body
                }
            }
        };
    }
    match c.level {
        0 => with_transport!(t, Response<String>, ClientMessage<String>, {
            let mut got = 0;
            for _ in 0..8 {
                match Pin::new(&mut t).poll_next(&mut cx) {
                    Poll::Ready(Some(Ok(_))) => got += 1,
                    // (the transport wraps the medium's error in one of kind Other: the property asks
                    // for the failure to be reported, not for its kind to survive)
                    Poll::Ready(Some(Err(_))) => return Ok(format!("{label}: {got} messages, then the error")),
                    Poll::Ready(None) => return Err(("C09-io-error-swallowed".into(), format!("{label}: the transport's stream ended cleanly after {got} messages, the failure was not reported"))),
                    Poll::Pending => return Err(("C09-io-error-swallowed".into(), format!("{label}: the transport's stream is pending after {got} messages, the failure was not reported"))),
                }
            }
            Err(("C09-machinery".into(), format!("{label}: more messages than were sent")))
        }),
        1 => with_transport!(t, Response<String>, ClientMessage<String>, {
            let _ = &mut t;
            let nc = client::new::<String, String, _>(client::Config::default(), t);
            let ch = nc.client;
            let mut dispatch = Box::pin(nc.dispatch);
            let mut ctx = tarpc::context::current();
            ctx.deadline = std::time::Instant::now() + Duration::from_secs(3600);
            let mut call = Box::pin(async move { ch.call(ctx, "q".to_string()).await });
            let _ = call.as_mut().poll(&mut cx);
            let mut ended = None;
            for _ in 0..16 {
                if let Poll::Ready(r) = dispatch.as_mut().poll(&mut cx) {
                    ended = Some(r);
                    break;
                }
            }
            match ended {
                None => Err(("C09-io-error-swallowed".into(), format!("{label}: the client's dispatch keeps running over the failed medium"))),
                Some(Ok(())) => Err(("C09-io-error-swallowed".into(), format!("{label}: the client's dispatch ended with Ok"))),
                Some(Err(e)) => {
                    let named = format!("{e:?}");
                    let want_read = c.at <= 2;
                    if want_read != named.starts_with("Read") {
                        return Err(("C09-wrong-activity".into(), format!("{label}: the dispatch ended with {named}")));
                    }
                    drop(dispatch);
                    match call.as_mut().poll(&mut cx) {
                        Poll::Ready(Err(_)) => Ok(format!("{label}: dispatch ended with {}, the call failed", named.split('(').next().unwrap_or(""))),
                        Poll::Ready(Ok(v)) => Err(("C09-outcome-after-fault".into(), format!("{label}: the call succeeded with {v:?}"))),
                        Poll::Pending => Err(("C09-hang".into(), format!("{label}: the outstanding call is still pending after the dispatch ended and was dropped"))),
                    }
                }
            }
        }),
        _ => with_transport!(t, ClientMessage<String>, Response<String>, {
            let _ = &mut t;
            let mut reqs = Box::pin(BaseChannel::with_defaults(t).requests());
            let mut yielded = vec![];
            for _ in 0..8 {
                match reqs.as_mut().poll_next(&mut cx) {
                    Poll::Ready(Some(Ok(r))) => yielded.push(r),
                    Poll::Ready(Some(Err(e))) => {
                        let named = format!("{e:?}");
                        return if c.at <= 2 && !named.starts_with("Read") {
                            Err(("C09-wrong-activity".into(), format!("{label}: the server channel reported {named}")))
                        } else {
                            Ok(format!("{label}: {} requests, then {}", yielded.len(), named.split('(').next().unwrap_or("")))
                        };
                    }
                    Poll::Ready(None) => {
                        return if c.at <= 2 {
                            Err(("C09-io-error-swallowed".into(), format!("{label}: the server channel's stream ended cleanly after {} requests", yielded.len())))
                        } else {
                            Ok(format!("{label}: ended"))
                        }
                    }
                    Poll::Pending => {
                        // a write-side failure shows only once something is written: answer the requests
                        if c.at >= 3 && !yielded.is_empty() {
                            let r = yielded.remove(0);
                            let f = r.execute(tarpc::server::serve(|_, s: String| async move { Ok(s) }));
                            let mut f = Box::pin(f);
                            let _ = f.as_mut().poll(&mut cx);
                            continue;
                        }
                        return if c.at <= 2 {
                            Err(("C09-io-error-swallowed".into(), format!("{label}: the server channel is pending after {} requests, the failure was not reported", yielded.len())))
                        } else {
                            Err(("C09-io-error-swallowed".into(), format!("{label}: the server channel wrote its responses and is pending, the failure was not reported")))
                        };
                    }
                }
            }
            Err(("C09-machinery".into(), format!("{label}: more requests than were sent")))
        }),
    }
}

// ---------------------------------------------------------------------------------------------

pub static FOUR_CHUNKS: std::sync::atomic::AtomicBool = std::sync::atomic::AtomicBool::new(false);

pub fn run_c15(tier: Tier) -> i32 {
    let start = Instant::now();
    FOUR_CHUNKS.store(tier == Tier::Thorough, std::sync::atomic::Ordering::Relaxed);
    // jobs: (kind, index)
    #[derive(Clone)]
    enum Job {
        ClientSeq(Vec<usize>, Codec, bool),
        ServerSeq(Vec<usize>, Codec, bool),
        Kinds,
        Defaults,
        Channels,
    }
    let rt0 = tokio::runtime::Builder::new_current_thread().enable_time().start_paused(true).build().unwrap();
    let (nc, ns) = rt0.block_on(async { (client_corpus(tokio::time::Instant::now().into_std()).len(), server_corpus().len()) });
    drop(rt0);
    let mut jobs = vec![Job::Kinds, Job::Defaults, Job::Channels];
    for codec in [Codec::Json, Codec::Bincode] {
        for i in 0..nc {
            jobs.push(Job::ClientSeq(vec![i], codec, true));
        }
        for i in 0..ns {
            if false && i >= 4 + 6 && i % 4 != 0 {
                continue; // quick: a quarter of the per-kind responses (all kinds are still covered by Job::Kinds)
            }
            jobs.push(Job::ServerSeq(vec![i], codec, true));
        }
        // sequences of length 2 and 3 over small messages (indices of short ones)
        let small_c: Vec<usize> = vec![0, 1, 2, 3, 5];
        let small_s: Vec<usize> = vec![0, 1, 2, 4, 17];
        let lim = 5;
        for a in small_c.iter().take(lim) {
            for b in small_c.iter().take(lim) {
                jobs.push(Job::ClientSeq(vec![*a, *b], codec, true));
                for c in small_c.iter().take(lim) {
                    jobs.push(Job::ClientSeq(vec![*a, *b, *c], codec, false));
                }
            }
        }
        for a in small_s.iter().take(lim) {
            for b in small_s.iter().take(lim) {
                jobs.push(Job::ServerSeq(vec![*a, *b], codec, true));
                for c in small_s.iter().take(lim) {
                    jobs.push(Job::ServerSeq(vec![*a, *b, *c], codec, false));
                }
            }
        }
    }
    let next = AtomicUsize::new(0);
    let total = Mutex::new(CStats::default());
    let chan_depth = if tier == Tier::Quick { 8 } else { 10 };
    std::thread::scope(|s| {
        for _ in 0..nthreads() {
            s.spawn(|| {
                let rt = tokio::runtime::Builder::new_current_thread().enable_time().start_paused(true).build().unwrap();
                let mut st = CStats::default();
                rt.block_on(tokio::task::unconstrained(async {
                    let now = tokio::time::Instant::now().into_std();
                    let cc = client_corpus(now);
                    let sc = server_corpus();
                    loop {
                        let i = next.fetch_add(1, Ordering::SeqCst);
                        if i >= jobs.len() {
                            break;
                        }
                        match &jobs[i] {
                            Job::ClientSeq(ix, codec, full) => {
                                let items: Vec<ClientMessage<String>> = ix.iter().map(|k| clone_cm(&cc[*k])).collect();
                                check_seq_cm(&format!("client messages {ix:?}"), *codec, &items, *full, &mut st);
                            }
                            Job::ServerSeq(ix, codec, full) => {
                                let items: Vec<Response<String>> = ix.iter().map(|k| sc[*k].clone()).collect();
                                check_seq(&format!("responses {ix:?}"), *codec, &items, *full, &mut st);
                            }
                            Job::Kinds => {
                                check_bincode_fixint(&mut st);
                                check_kinds(&mut st);
                                check_raw_kinds(&mut st);
                            }
                            Job::Defaults => check_defaults(&mut st),
                            Job::Channels => {
                                check_channels(&mut st, chan_depth);
                                check_channels2(&mut st, chan_depth.saturating_sub(1).min(8));
                            }
                        }
                    }
                }));
                let mut t = total.lock().unwrap();
                t.encodes += st.encodes;
                t.decodes += st.decodes;
                t.chan_histories += st.chan_histories;
                t.distinct.extend(st.distinct);
                t.failures.extend(st.failures);
                if t.samples.len() < 10 {
                    t.samples.extend(st.samples.iter().take(2).cloned());
                }
            });
        }
    });
    let mut t = total.into_inner().unwrap();
    let (mut sockets_run, mut sockets_unavailable) = (0u64, vec![]);
    check_sockets(&mut t, &mut sockets_run, &mut sockets_unavailable);
    t.encodes += sockets_run;
    finish_grid("C15", tier, start, t.encodes + t.decodes + t.chan_histories, t.distinct.len() as u64, &t.failures,
        json!({"encodes": t.encodes, "decodes": t.decodes, "channel_histories": t.chan_histories, "error_kinds_listed": KINDS.len(), "jobs": jobs.len(), "socket_cells_run": sockets_run, "socket_cells_not_run_because_the_sandbox_has_no_such_socket": sockets_unavailable}),
        "message corpus (all variants; ids {0,1,2^63,u64::MAX}; bodies {empty,'a',unicode,64KiB}; every io::ErrorKind constant listed in the harness; trace contexts zero/max/mixed; both sampling decisions) as sequences of length 1-3, through the real serde_transport with Json and Bincode over an in-memory byte medium: every write policy w in {1,2,3,5,8,13,inf} x {with,without} alternating Pending must produce the same bytes; every cut of the byte stream into <=3 read chunks (all positions for streams <=200 bytes, all positions within +-5 of frame boundaries and the stream ends otherwise) x {with,without} Pending between chunks must read the same items then end-of-stream; every truncation inside a frame must yield the complete frames then an error; every ErrorKind round-trips per the 18-entry table; hand-written JSON frames without optional fields decode to the defaults; the shipped tcp and unix socket transports with {default, 2-byte, 8-byte, little-endian length prefix, frame limit raised to 32 MiB, lowered to 1 KiB} configured alike on the listening and the connecting end (also: configured after the listener has accepted a first connection) x both codecs: bodies of every size class travel intact both ways, then end-of-stream; in-memory channels: all histories over {send,recv,drop writer} up to the depth for unbounded and bounded(0,1,2). distinct_nontrivial = distinct (sequence, codec, fragmentation plan) cases",
        t.samples.iter().map(|c| json!({"case": c})).chain([json!({"case": "bounded(1) history [Send, Send, Recv, DropWriter, Recv, Recv] (one of the channel histories, all enumerated)"})]).collect(),
    )
}

/// The shipped socket transports (`serde_transport::tcp`, `::unix`) with the framing configured
/// the same way on the listening and on the connecting end: messages of every size class travel
/// intact in both directions and the reader sees end-of-stream once the writer is dropped.
/// Runs on a runtime of its own with real sockets on the loopback interface / a temp directory;
/// when the sandbox offers neither, the cell is recorded as not run.
fn check_sockets(st: &mut CStats, sockets_run: &mut u64, sockets_unavailable: &mut Vec<String>) {
    use futures::{SinkExt, StreamExt};
    use tokio_util::codec::length_delimited::Builder;
    let rt = tokio::runtime::Builder::new_current_thread().enable_all().build().unwrap();
    type Framing = (&'static str, fn(&mut Builder), Vec<usize>);
    let framings: Vec<Framing> = vec![
        ("default framing", |_b| {}, vec![0, 1, 300, 70_000, 8_200_000]),
        ("2-byte length prefix", |b| { b.length_field_length(2); }, vec![0, 1, 300, 60_000]),
        ("8-byte length prefix", |b| { b.length_field_length(8); }, vec![0, 1, 300, 70_000]),
        ("little-endian length prefix", |b| { b.little_endian(); }, vec![0, 1, 300, 70_000]),
        ("frame limit raised to 32 MiB", |b| { b.max_frame_length(32 * 1024 * 1024); }, vec![1, 9 * 1024 * 1024]),
        ("frame limit lowered to 1 KiB", |b| { b.max_frame_length(1024); }, vec![0, 1, 300]),
    ];
    let dir = std::env::temp_dir().join(format!("mc-c15-{}", std::process::id()));
    let _ = std::fs::create_dir_all(&dir);
    for kind in ["tcp", "unix"] {
        for codec in [Codec::Json, Codec::Bincode] {
          // (warm: the listener has already accepted a connection - with the default framing -
          // when it is configured: `config_mut()` applies to the connections accepted afterwards;
          // seeded change C15n froze the listener's framing at its first accept)
          for (drop_writer, warm) in [(false, false), (true, false), (false, true)] {
            for (fi, (fname, apply, sizes)) in framings.iter().enumerate() {
                if drop_writer && fi > 1 {
                    continue;
                }
                if warm && fi == 0 {
                    continue;
                }
                let label = format!("{kind} {codec:?} with {fname} on both ends{}{}", if drop_writer { ", writer dropped without close" } else { "" }, if warm { ", configured after the listener had accepted a first connection" } else { "" });
                let sizes = sizes.clone();
                let apply = *apply;
                let sock_path = dir.join(format!("s{fi}-{codec:?}.sock"));
                let _ = std::fs::remove_file(&sock_path);
                let res: Result<Result<(), String>, tokio::time::error::Elapsed> = rt.block_on(async { tokio::time::timeout(std::time::Duration::from_secs(20), async {
                    macro_rules! exchange {
                        ($client:expr, $server:expr) => {{
                            let mut client = $client;
                            let mut server = $server;
                            for (k, n) in sizes.iter().enumerate() {
                                let body = "x".repeat(*n);
                                let req = ClientMessage::Request(Request { context: tarpc::context::current(), id: k as u64, message: body.clone() });
                                // writer and reader run concurrently: a body larger than the socket
                                // buffers cannot be written while nobody reads
                                let (sent, got) = tokio::join!(client.send(req), server.next());
                                sent.map_err(|e| format!("client send of a {n}-byte body: {e}"))?;
                                match got {
                                    Some(Ok(ClientMessage::Request(r))) if r.id == k as u64 && r.message == body => {}
                                    Some(Ok(other)) => return Err(format!("server read {:.80?} instead of request {k} with a {n}-byte body", other)),
                                    Some(Err(e)) => return Err(format!("server read error after request {k} ({n}-byte body): {e}")),
                                    None => return Err(format!("server saw end-of-stream instead of request {k}")),
                                }
                                let (sent, got) = tokio::join!(server.send(Response { request_id: k as u64, message: Ok(body.clone()) }), client.next());
                                sent.map_err(|e| format!("server send of a {n}-byte body: {e}"))?;
                                match got {
                                    Some(Ok(r)) if r.request_id == k as u64 && r.message.as_ref().ok() == Some(&body) => {}
                                    Some(Ok(other)) => return Err(format!("client read {:.80?} instead of response {k}", other)),
                                    Some(Err(e)) => return Err(format!("client read error at response {k}: {e}")),
                                    None => return Err(format!("client saw end-of-stream instead of response {k}")),
                                }
                            }
                            if drop_writer {
                                // the writer is simply dropped (no close): everything whose send
                                // had resolved is read, then end-of-stream - not an error
                                for k in 0..3u64 {
                                    client.send(ClientMessage::Request(Request { context: tarpc::context::current(), id: 700 + k, message: "last words".to_string() })).await.map_err(|e| format!("client send: {e}"))?;
                                }
                                drop(client);
                                for k in 0..3u64 {
                                    match server.next().await {
                                        Some(Ok(ClientMessage::Request(r))) if r.id == 700 + k => {}
                                        Some(Ok(other)) => return Err(format!("server read {:.80?} instead of request {}", other, 700 + k)),
                                        Some(Err(e)) => return Err(format!("server read error for a message sent before the writer was dropped: {e}")),
                                        None => return Err(format!("end-of-stream before message {} that was sent before the writer was dropped", 700 + k)),
                                    }
                                }
                                return match server.next().await {
                                    None => Ok(()),
                                    Some(Ok(m)) => Err(format!("extra message after the writer was dropped: {:.80?}", m)),
                                    Some(Err(e)) => Err(format!("error instead of end-of-stream after the writer was dropped: {e}")),
                                };
                            }
                            // one end closes its writing side (where the medium can signal that):
                            // the other end sees end-of-stream, and what it writes afterwards still
                            // reaches the end that closed
                            client.close().await.map_err(|e| format!("client close: {e}"))?;
                            match server.next().await {
                                None => {}
                                Some(Ok(m)) => return Err(format!("extra message after the writer closed: {:.80?}", m)),
                                Some(Err(e)) => return Err(format!("error instead of end-of-stream after the writer closed: {e}")),
                            }
                            for k in 0..2u64 {
                                let (sent, got) = tokio::join!(server.send(Response { request_id: 900 + k, message: Ok("after the other side closed".to_string()) }), client.next());
                                sent.map_err(|e| format!("server send after the client closed its writing side: {e}"))?;
                                match got {
                                    Some(Ok(r)) if r.request_id == 900 + k => {}
                                    Some(Ok(other)) => return Err(format!("client read {:.80?} instead of response {}", other, 900 + k)),
                                    Some(Err(e)) => return Err(format!("client read error after closing its writing side: {e}")),
                                    None => return Err("the end that closed its writing side saw end-of-stream although the other end was still writing".to_string()),
                                }
                            }
                            drop(server);
                            match client.next().await {
                                None => Ok(()),
                                Some(Ok(m)) => Err(format!("extra message after the writer was dropped: {:.80?}", m)),
                                Some(Err(e)) => Err(format!("error instead of end-of-stream after the writer was dropped: {e}")),
                            }
                        }};
                    }
                    macro_rules! with_codec {
                        ($mk:expr) => {{
                            if kind == "tcp" {
                                let mut incoming = match tarpc::serde_transport::tcp::listen("127.0.0.1:0", $mk).await {
                                    Ok(i) => i,
                                    Err(e) => return Err(format!("UNAVAILABLE {e}")),
                                };
                                let addr = incoming.local_addr();
                                if warm {
                                    let first: tarpc::serde_transport::Transport<_, Response<String>, ClientMessage<String>, _> = tarpc::serde_transport::tcp::connect(addr, $mk).await.map_err(|e| format!("first connect: {e}"))?;
                                    let accepted: tarpc::serde_transport::Transport<_, ClientMessage<String>, Response<String>, _> = incoming.next().await.ok_or("listener ended")?.map_err(|e| format!("first accept: {e}"))?;
                                    drop((first, accepted));
                                }
                                apply(incoming.config_mut());
                                let mut connect = tarpc::serde_transport::tcp::connect(addr, $mk);
                                apply(connect.config_mut());
                                let client: tarpc::serde_transport::Transport<_, Response<String>, ClientMessage<String>, _> = connect.await.map_err(|e| format!("connect: {e}"))?;
                                let server: tarpc::serde_transport::Transport<_, ClientMessage<String>, Response<String>, _> = incoming.next().await.ok_or("listener ended")?.map_err(|e| format!("accept: {e}"))?;
                                exchange!(client, server)
                            } else {
                                let mut incoming = match tarpc::serde_transport::unix::listen(&sock_path, $mk).await {
                                    Ok(i) => i,
                                    Err(e) => return Err(format!("UNAVAILABLE {e}")),
                                };
                                if warm {
                                    let first: tarpc::serde_transport::Transport<_, Response<String>, ClientMessage<String>, _> = tarpc::serde_transport::unix::connect(&sock_path, $mk).await.map_err(|e| format!("first connect: {e}"))?;
                                    let accepted: tarpc::serde_transport::Transport<_, ClientMessage<String>, Response<String>, _> = incoming.next().await.ok_or("listener ended")?.map_err(|e| format!("first accept: {e}"))?;
                                    drop((first, accepted));
                                }
                                apply(incoming.config_mut());
                                let mut connect = tarpc::serde_transport::unix::connect(&sock_path, $mk);
                                apply(connect.config_mut());
                                let client: tarpc::serde_transport::Transport<_, Response<String>, ClientMessage<String>, _> = connect.await.map_err(|e| format!("connect: {e}"))?;
                                let server: tarpc::serde_transport::Transport<_, ClientMessage<String>, Response<String>, _> = incoming.next().await.ok_or("listener ended")?.map_err(|e| format!("accept: {e}"))?;
                                exchange!(client, server)
                            }
                        }};
                    }
                    match codec {
                        Codec::Json => with_codec!(Json::default),
                        Codec::Bincode => with_codec!(Bincode::default),
                    }
                }).await });
                let _ = std::fs::remove_file(&sock_path);
                match res {
                    Ok(Ok(())) => {
                        *sockets_run += 1;
                        st.distinct.insert(hash_of(&("socket", kind, codec, fi, drop_writer, warm)));
                        if st.samples.len() < 3 {
                            st.samples.push(format!("{label}: bodies of {sizes:?} bytes each way, then the writer is dropped"));
                        }
                    }
                    Ok(Err(e)) if e.starts_with("UNAVAILABLE") => sockets_unavailable.push(format!("{label}: {e}")),
                    Ok(Err(e)) => {
                        *sockets_run += 1;
                        fail(st, "C15-socket-transport", format!("{label}: {e}"));
                    }
                    Err(_) => {
                        *sockets_run += 1;
                        fail(st, "C15-socket-transport", format!("{label}: no progress within 20 s"));
                    }
                }
            }
          }
        }
    }
    let _ = std::fs::remove_dir_all(&dir);
}

fn clone_cm(m: &ClientMessage<String>) -> ClientMessage<String> {
    match m {
        ClientMessage::Request(r) => ClientMessage::Request(Request {
            context: r.context,
            id: r.id,
            message: r.message.clone(),
        }),
        ClientMessage::Cancel { trace_context, request_id } => ClientMessage::Cancel {
            trace_context: *trace_context,
            request_id: *request_id,
        },
        _ => unreachable!(),
    }
}

/// ClientMessage is not Clone: wrap sequences through a cloneable mirror for `encode`.
fn check_seq_cm(label: &str, codec: Codec, items: &[ClientMessage<String>], full: bool, st: &mut CStats) {
    let mirror: Vec<CM> = items.iter().map(|m| CM(clone_cm(m))).collect();
    check_seq(label, codec, &mirror, full, st);
}

#[derive(Debug)]
struct CM(ClientMessage<String>);
impl Clone for CM {
    fn clone(&self) -> Self {
        CM(clone_cm(&self.0))
    }
}
impl Serialize for CM {
    fn serialize<S: serde::Serializer>(&self, s: S) -> Result<S::Ok, S::Error> {
        self.0.serialize(s)
    }
}
impl<'de> serde::Deserialize<'de> for CM {
    fn deserialize<D: serde::Deserializer<'de>>(d: D) -> Result<Self, D::Error> {
        Ok(CM(ClientMessage::<String>::deserialize(d)?))
    }
}

/// Common tail of the grid-style checks (C15, C16, C19, C20): known findings, evidence, exit code.
#[allow(clippy::too_many_arguments)]
pub fn finish_grid(
    prop: &str,
    tier: Tier,
    start: Instant,
    evaluations: u64,
    distinct: u64,
    failures: &[(String, String)],
    extra: serde_json::Value,
    rule: &str,
    samples: Vec<serde_json::Value>,
) -> i32 {
    let known = load_known(prop);
    let mut by_sig: std::collections::BTreeMap<String, Vec<String>> = Default::default();
    for (s, m) in failures {
        by_sig.entry(s.clone()).or_default().push(m.clone());
    }
    let mut nviol = 0;
    let mut known_seen = vec![];
    for (sig, msgs) in &by_sig {
        let dir = verif_dir().join("replays").join(prop);
        let _ = std::fs::create_dir_all(&dir);
        let path = dir.join(format!("{}.json", sig.replace(['/', ' '], "_")));
        let doc = json!({"property": prop, "signature": sig, "cases": msgs.iter().take(20).collect::<Vec<_>>(), "count": msgs.len()});
        std::fs::write(&path, serde_json::to_string_pretty(&doc).unwrap()).unwrap();
        if let Some(k) = known.iter().find(|k| &k.signature == sig) {
            println!("KNOWN-FINDING: property={prop} {}", k.what);
            known_seen.push(sig.clone());
        } else {
            println!("VIOLATION property={prop} replay={}", path.display());
            eprintln!("  {sig}: {} ({} cases)", msgs[0], msgs.len());
            nviol += 1;
        }
    }
    let mut cov = json!({
        "evaluations": evaluations,
        "distinct_nontrivial": distinct,
        "rule": rule,
        "samples": samples,
        "exhaustive": true,
        "known_findings_seen": known_seen,
    });
    if let Some(o) = extra.as_object() {
        for (k, v) in o {
            cov[k] = v.clone();
        }
    }
    let ev = json!({
        "property_id": prop, "tier": tier.name(), "seed": seed(), "level": "exploration",
        "coverage": cov,
        "assumptions": ["tokio-util LengthDelimitedCodec, tokio-serde, serde_json and bincode are exercised as shipped (they are part of what the property promises), the byte medium is the harness's"],
        "wall_s": start.elapsed().as_secs_f64(),
        "violations": nviol,
    });
    write_evidence(prop, &ev);
    eprintln!("{prop} {}: evaluations {evaluations} distinct {distinct} wall {:.1}s violations {nviol} known {}", tier.name(), start.elapsed().as_secs_f64(), by_sig.len() - nviol);
    if nviol > 0 {
        1
    } else {
        0
    }
}
