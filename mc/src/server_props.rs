//! Server-side properties: configurations, alphabets and monitors over `server_core` logs.

use crate::client_core::{hash_recs, render};
use crate::client_props::c14;
use crate::driver::Tier;
use crate::explore::{Harness, Point, RunOut, Violation};
use crate::mock::*;
use crate::server_core::*;
use serde_json::Value;
use std::collections::{BTreeMap, BTreeSet};
use std::hash::{Hash, Hasher};

#[derive(Clone, Copy, Debug, PartialEq, Eq)]
pub enum SProp {
    C02,
    C04,
    C06,
    C08,
    C09,
    C10,
    C11,
    C12,
    C14,
}

pub struct ServerHarness {
    pub prop: SProp,
    pub cfgs: Vec<SCfg>,
}

impl Harness for ServerHarness {
    fn name(&self) -> String {
        format!("server_core/{:?}", self.prop)
    }
    fn n_configs(&self) -> usize {
        self.cfgs.len()
    }
    fn config_json(&self, idx: usize) -> Value {
        serde_json::to_value(&self.cfgs[idx]).unwrap()
    }
    fn run(&self, idx: usize, prefix: &[u16], render: bool) -> (RunOut, Vec<Point>) {
        run_cfg(self.prop, &self.cfgs[idx], prefix, render)
    }
}

/// One request instance as read from the transport (keyed by its unique payload).
#[derive(Default, Debug, Clone)]
pub struct Inst {
    pub p: u32,
    pub id: u64,
    pub deadline_ns: i128,
    pub handed: usize,
    pub handed_poll: u32,
    pub yielded: Option<usize>,
    pub hstart: Option<(usize, Vec<i128>)>,
    pub hpolls: Vec<(usize, i128)>,
    pub hfinish: Option<usize>,
    pub hdrop: Option<(usize, i128)>,
    pub exec_done: Option<usize>,
    pub app_dropped: Option<usize>,
    /// successful start_sends bearing this instance's token
    pub resp: Vec<usize>,
    /// throttle response written for this instance (same poll as it was handed over)
    pub throttled: Option<usize>,
    /// the instance was a duplicate of a surely tracked id
    pub dup_of_tracked: bool,
    pub maybe_tracked_at_handover: bool,
    /// rec index of the end of the stream poll in which a Cancel for it was read while tracked
    pub cancelled: Option<usize>,
}

#[derive(Default, Debug)]
pub struct SFacts {
    pub inst: BTreeMap<u32, Inst>,
    pub order: Vec<u32>,
    pub wire: Vec<(usize, Msg)>,
    pub cancels_read: Vec<(usize, u64)>,
    pub stream_end: Option<usize>,
    pub stream_err: Option<(usize, String)>,
    /// first quiescent point reached while the peer was not reading its responses (sink blocked)
    pub q0: Option<(usize, Vec<i128>)>,
    /// error items after which the application kept polling the stream (rec idx)
    pub served_on_errors: Vec<usize>,
    pub stream_dropped: Option<usize>,
    pub eof_read: Option<usize>,
    pub panics: Vec<String>,
    pub spin: bool,
    pub horizon: bool,
    pub q1: Option<(usize, Vec<i128>)>,
    pub times: Vec<(usize, i128)>,
    pub poll_ends: Vec<(usize, i128)>,
    /// (start idx, end idx, time) of every stream poll
    pub polls: Vec<(usize, usize, i128)>,
    pub strays: u32,
    pub cancel_msgs: u32,
    pub teardown: Option<usize>,
    pub first_err: Option<(usize, Op)>,
    pub orphan_yields: u32,
    /// stream polls (by PollEnd index) after which the stream task was already woken again
    pub rewoken: BTreeSet<usize>,
}

impl SFacts {
    pub fn time_at(&self, idx: usize) -> i128 {
        self.times
            .iter()
            .rev()
            .find(|(i, _)| *i <= idx)
            .map(|x| x.1)
            .unwrap_or(0)
    }
    /// end of the stream poll containing rec idx
    pub fn poll_end_after(&self, idx: usize) -> usize {
        self.poll_ends
            .iter()
            .find(|(i, _)| *i >= idx)
            .map(|x| x.0)
            .unwrap_or(usize::MAX)
    }
}

/// Is instance `i` surely / possibly tracked by the channel just before rec index `at`?
/// Returns (surely, maybe).
fn tracked(f: &SFacts, i: &Inst, at: usize) -> (bool, bool) {
    if i.handed >= at || i.dup_of_tracked {
        return (false, false);
    }
    if i.throttled.map(|t| t < at).unwrap_or(false) {
        return (false, false);
    }
    if i.yielded.is_none() && i.throttled.is_none() {
        // read in a poll whose write side then failed, so that the request was given up inside
        // the channel before it could be yielded: the notice of its own guard is processed by the
        // channel's next poll - until that poll has ended the channel may still count it
        let e1 = f.poll_end_after(i.handed);
        if e1 != usize::MAX && f.served_on_errors.iter().any(|x| *x > e1 && *x <= e1 + 3) {
            let e2 = f.poll_end_after(e1 + 1);
            return (false, at <= e2);
        }
        // handed over but neither yielded nor throttled: only a duplicate of a tracked id
        return (false, false);
    }
    if i.resp.iter().any(|r| *r < at) {
        return (false, false);
    }
    // a response swallowed by the channel (id untracked at the time) leaves no trace; responses
    // are identified by token, so nothing else to do here
    if f.cancels_read.iter().any(|(ci, cid)| *cid == i.id && *ci > i.handed && *ci < at) {
        return (false, false);
    }
    if let Some(sd) = f.stream_dropped {
        if sd < at {
            return (false, false);
        }
    }
    let now = f.time_at(at);
    let mut surely = true;
    if i.deadline_ns <= now {
        surely = false; // expiry may or may not have been processed yet
    }
    if i.app_dropped.map(|d| d < at).unwrap_or(false) {
        surely = false; // the guard's cancellation may or may not have been processed yet
    }
    // A handler aborted for no reason the peer can know of (no cancellation read, deadline not
    // passed, not dropped by the application) does not end the request from the peer's point of
    // view: the id is still in flight. (An earlier version called this case uncertain, which hid
    // seeded change C08c.)
    (surely, true)
}

pub fn sfacts(recs: &[Rec]) -> SFacts {
    let mut f = SFacts::default();
    f.times.push((0, 0));
    let mut cur_poll_is_stream = false;
    let mut cur_start = 0usize;
    // first pass: times and poll ends
    for (i, r) in recs.iter().enumerate() {
        match r {
            Rec::N("time", v) => f.times.push((i, v[0])),
            Rec::N("snap", v) if v.len() >= 4 && v[3] != 0 => {
                // the snap record directly follows the stream's PollEnd
                if let Some((pe, _)) = f.poll_ends.last() {
                    f.rewoken.insert(*pe);
                }
            }
            Rec::PollStart(Task::Stream(_)) => {
                cur_poll_is_stream = true;
                cur_start = i;
            }
            Rec::PollEnd(Task::Stream(_), _) => {
                cur_poll_is_stream = false;
                let t = f.times.last().unwrap().1;
                f.poll_ends.push((i, t));
                f.polls.push((cur_start, i, t));
            }
            _ => {}
        }
    }
    let _ = cur_poll_is_stream;
    // deadlines as the peer meant them, where the request crossed a serializing hop
    let mut meant: BTreeMap<u32, i128> = BTreeMap::new();
    for (i, r) in recs.iter().enumerate() {
        match r {
            Rec::N("sent_deadline", v) => {
                meant.insert(v[0] as u32, v[1]);
            }
            Rec::T { side: 1, op: Op::Next, res: Res::Item, msg: Some(m), poll, .. } => match m {
                Msg::Req { id, payload, deadline_ns, .. } => {
                    // classify against the instances already known with the same id
                    let mut surely = false;
                    let mut maybe = false;
                    for o in f.inst.values() {
                        if o.id == *id {
                            let (s, mb) = tracked(&f, o, i);
                            surely |= s;
                            maybe |= mb;
                        }
                    }
                    f.order.push(*payload);
                    f.inst.insert(
                        *payload,
                        Inst {
                            p: *payload,
                            id: *id,
                            deadline_ns: meant.get(payload).copied().unwrap_or(*deadline_ns),
                            handed: i,
                            handed_poll: *poll,
                            dup_of_tracked: surely,
                            maybe_tracked_at_handover: maybe,
                            ..Default::default()
                        },
                    );
                }
                Msg::Cancel { id, .. } => {
                    f.cancels_read.push((i, *id));
                    let end = f.poll_end_after(i);
                    let ps: Vec<u32> = f.inst.values().filter(|o| o.id == *id).map(|o| o.p).collect();
                    for p in ps {
                        let o = f.inst[&p].clone();
                        // tracked just before this cancel was read?
                        let mut tmp = SFacts::default();
                        std::mem::swap(&mut tmp.cancels_read, &mut f.cancels_read);
                        let last = tmp.cancels_read.pop();
                        std::mem::swap(&mut tmp.cancels_read, &mut f.cancels_read);
                        let (_, maybe) = tracked(&f, &o, i);
                        if let Some(l) = last {
                            f.cancels_read.push(l);
                        }
                        if maybe && o.cancelled.is_none() {
                            f.inst.get_mut(&p).unwrap().cancelled = Some(end);
                        }
                    }
                }
                _ => {}
            },
            Rec::T { side: 1, op: Op::Next, res: Res::Eof, .. } => {
                if f.eof_read.is_none() {
                    f.eof_read = Some(i);
                }
            }
            Rec::T { side: 1, op, res: Res::Err, msg, .. } => {
                if f.first_err.is_none() {
                    f.first_err = Some((i, *op));
                }
                // a response whose write failed: the channel has let go of the request
                if let (Op::Send, Some(Msg::Resp { body: Ok(tok), .. })) = (op, msg) {
                    if *tok >= 5000 {
                        if let Some(o) = f.inst.get_mut(&(tok - 5000)) {
                            o.resp.push(i);
                        }
                    }
                }
                // ... and a refusal whose write failed is still a refusal (the peer will not see it,
                // which is the transport's failure, reported as such)
                if let (Op::Send, Some(Msg::Resp { body: Err((_, d)), .. })) = (op, msg) {
                    if let Some(tok) = d.strip_prefix("handler-err:").and_then(|t| t.parse::<u32>().ok()) {
                        if let Some(o) = f.inst.get_mut(&tok) {
                            o.resp.push(i);
                        }
                    }
                }
                if let (Op::Send, Some(Msg::Resp { id, body: Err((_, d)) })) = (op, msg).clone() {
                    if d.starts_with("handler-err:") {
                        continue;
                    }
                    let p = f.inst.values().filter(|o| o.id == *id && o.yielded.is_none() && o.throttled.is_none()).map(|o| o.p).last();
                    if let Some(p) = p {
                        f.inst.get_mut(&p).unwrap().throttled = Some(i);
                    }
                }
            }
            Rec::S("stream_err_served_on", _) => f.served_on_errors.push(i),
            Rec::T { side: 1, op: Op::Send, res: Res::Ok, msg: Some(m), .. } => {
                f.wire.push((i, m.clone()));
                if let Msg::Resp { id, body } = m {
                    match body {
                        Ok(tok) if *tok >= 5000 => {
                            if let Some(o) = f.inst.get_mut(&(tok - 5000)) {
                                o.resp.push(i);
                            }
                        }
                        Err((_, d)) if d.starts_with("handler-err:") => {
                            // a handler's rejection: a response like any other
                            if let Some(o) = d["handler-err:".len()..].parse::<u32>().ok().and_then(|t| f.inst.get_mut(&t)) {
                                o.resp.push(i);
                            }
                        }
                        Err(_) => {
                            // throttle reply: belongs to the latest instance with this id handed
                            // over and not yet yielded/throttled
                            let p = f
                                .inst
                                .values()
                                .filter(|o| o.id == *id && o.yielded.is_none() && o.throttled.is_none())
                                .map(|o| o.p)
                                .last();
                            if let Some(p) = p {
                                f.inst.get_mut(&p).unwrap().throttled = Some(i);
                            }
                        }
                        _ => {}
                    }
                }
            }
            Rec::N("yield", v) => {
                if let Some(o) = f.inst.get_mut(&(v[1] as u32)) {
                    o.yielded = Some(i);
                }
            }
            Rec::N("yield_fut", _) => {
                // execute route: the future yielded belongs to the request handed over in this poll
                let start = f.polls.iter().rev().find(|(ps, _, _)| *ps <= i).map(|x| x.0).unwrap_or(0);
                let p = f
                    .inst
                    .values()
                    .filter(|o| o.handed >= start && o.handed < i && o.yielded.is_none())
                    .max_by_key(|o| o.handed)
                    .map(|o| o.p);
                if let Some(p) = p {
                    f.inst.get_mut(&p).unwrap().yielded = Some(i);
                } else {
                    f.orphan_yields += 1;
                }
            }
            Rec::N("hstart", v) => {
                if let Some(o) = f.inst.get_mut(&(v[0] as u32)) {
                    o.hstart = Some((i, v.clone()));
                    if o.yielded.is_none() {
                        o.yielded = Some(i); // execute route: the serve fn ran, so it was offered
                    }
                }
            }
            Rec::N("hpoll", v) => {
                if let Some(o) = f.inst.get_mut(&(v[0] as u32)) {
                    o.hpolls.push((i, v[1]));
                }
            }
            Rec::N("hfinish", v) => {
                if let Some(o) = f.inst.get_mut(&(v[0] as u32)) {
                    o.hfinish = Some(i);
                }
            }
            Rec::N("hdrop", v) => {
                if let Some(o) = f.inst.get_mut(&(v[0] as u32)) {
                    o.hdrop = Some((i, v[1]));
                }
            }
            Rec::N("exec_done", v) => {
                if v[1] >= 0 {
                    if let Some(o) = f.inst.get_mut(&(v[1] as u32)) {
                        o.exec_done = Some(i);
                    }
                }
            }
            Rec::N("exec_dropped", v) => {
                if v[1] >= 0 {
                    if let Some(o) = f.inst.get_mut(&(v[1] as u32)) {
                        o.app_dropped = Some(i);
                    }
                }
            }
            Rec::N("ifr_dropped", v) => {
                if let Some(o) = f.inst.get_mut(&(v[0] as u32)) {
                    o.app_dropped = Some(i);
                }
            }
            Rec::N("cancel_sent", _) => f.cancel_msgs += 1,
            Rec::N("Q0", v) => {
                if f.q0.is_none() {
                    f.q0 = Some((i, v.clone()))
                }
            }
            Rec::N("cancel_suppressed", _) => f.cancel_msgs += 1,
            Rec::S("stream_end", _) => f.stream_end = Some(i),
            Rec::S("stream_err", k) => f.stream_err = Some((i, k.clone())),
            Rec::S("stream_dropped", _) => {
                if f.stream_dropped.is_none() {
                    f.stream_dropped = Some(i)
                }
            }
            Rec::S("teardown", _) => f.teardown = Some(i),
            Rec::S("panic", s) => f.panics.push(s.clone()),
            Rec::S("spin", _) => f.spin = true,
            Rec::S("horizon", _) => f.horizon = true,
            Rec::N("Q1", v) => f.q1 = Some((i, v.clone())),
            _ => {}
        }
    }
    f
}

fn class(cfg: &SCfg) -> String {
    format!(
        "n{}/L{:?}/rb{}/{:?}{}/{:?}",
        cfg.reqs.len(),
        cfg.limit,
        cfg.resp_buf,
        cfg.flavour,
        cfg.cap,
        cfg.route
    )
}

fn v(vs: &mut Vec<Violation>, rule: &str, cfg: &SCfg, msg: String) {
    vs.push(Violation {
        signature: rule.to_string(),
        message: format!("[{}] {}", class(cfg), msg),
    });
}

fn bad(f: &SFacts, cfg: &SCfg, rule: &str, vs: &mut Vec<Violation>) -> bool {
    for p in &f.panics {
        v(vs, rule, cfg, format!("panic: {p}"));
    }
    f.horizon || f.spin || !f.panics.is_empty()
}

pub fn observable(f: &SFacts) -> String {
    let mut s = String::new();
    for p in &f.order {
        let i = &f.inst[p];
        s.push_str(&format!(
            "p{} id{} y{} st{} pl{} fin{} drop{} done{} resp{} thr{};",
            i.p,
            i.id,
            i.yielded.is_some(),
            i.hstart.is_some(),
            i.hpolls.len(),
            i.hfinish.is_some(),
            i.hdrop.is_some(),
            i.exec_done.is_some(),
            i.resp.len(),
            i.throttled.is_some()
        ));
    }
    for (_, m) in &f.wire {
        s.push_str(&format!("{m:?};"));
    }
    s.push_str(&format!("end{} err{:?}", f.stream_end.is_some(), f.stream_err.as_ref().map(|e| &e.1)));
    s
}

pub fn run_cfg(prop: SProp, cfg: &SCfg, prefix: &[u16], render_it: bool) -> (RunOut, Vec<Point>) {
    let e = execute(cfg, prefix, None);
    let mut out = RunOut {
        trace_hash: hash_recs(&e.recs),
        steps: e.steps,
        state_hashes: e.state_hashes.clone(),
        render: if render_it { Some(render(&e.recs)) } else { None },
        machinery_error: e.err.clone(),
        ..Default::default()
    };
    if out.machinery_error.is_some() {
        return (out, e.points);
    }
    let f = sfacts(&e.recs);
    let mut vs = Vec::new();
    let mut nt = false;
    match prop {
        SProp::C02 => c02(cfg, &e, &f, &mut vs, &mut nt),
        SProp::C04 => {
            c04(cfg, &e, &f, prefix, &mut vs, &mut nt, &mut out.extra_execs);
            // "stops counting as in flight" also for the request limiter: a request refused
            // although, the cancelled ones left out, fewer than L were in flight
            if cfg.limit.is_some() {
                let (mut v12, mut nt12) = (vec![], false);
                c12(cfg, &e, &f, &mut v12, &mut nt12);
                for v in v12 {
                    if v.signature == "C12-refused-below-limit" && !f.cancels_read.is_empty() {
                        vs.push(Violation { signature: "C04-c-still-counted-by-limiter".into(), message: v.message });
                    }
                }
            }
        }
        SProp::C06 => c06(cfg, &e, &f, &mut vs, &mut nt),
        SProp::C08 => c08(cfg, &e, &f, &mut vs, &mut nt),
        SProp::C09 => c09(cfg, &e, &f, &mut vs, &mut nt),
        SProp::C10 => c10(cfg, &e, &f, &mut vs, &mut nt),
        SProp::C11 => c11(cfg, &e, &f, &mut vs, &mut nt),
        SProp::C12 => c12(cfg, &e, &f, &mut vs, &mut nt),
        SProp::C14 => c14(1, Task::Stream(0), cfg.flavour, &e.recs, &mut vs, &mut nt),
    }
    let mut h = std::collections::hash_map::DefaultHasher::new();
    observable(&f).hash(&mut h);
    out.outcome_hash = h.finish();
    out.nontrivial = nt;
    out.violations = vs;
    (out, e.points)
}

// ---------------------------------------------------------------------------------------------
// C02 (server side): no lost wakeups between the request stream, the handlers and the sink

fn c02(cfg: &SCfg, e: &Exec, f: &SFacts, vs: &mut Vec<Violation>, nt: &mut bool) {
    for p in &f.panics {
        v(vs, "C02-panic", cfg, format!("panic: {p}"));
    }
    if f.horizon {
        v(vs, "C02-livelock", cfg, "step horizon exceeded".into());
    }
    if f.spin {
        v(vs, "C02-spin", cfg, "the request stream retried a not-ready sink forever inside one poll".into());
    }
    if f.horizon || f.spin || !f.panics.is_empty() || f.first_err.is_some() {
        return;
    }
    // a real wait happened: some task returned Pending and was polled again later
    let mut pend = std::collections::BTreeSet::new();
    for r in &e.recs {
        match r {
            Rec::PollEnd(t, false) => {
                pend.insert(format!("{t:?}"));
            }
            Rec::PollStart(t) if pend.contains(&format!("{t:?}")) => *nt = true,
            _ => {}
        }
    }
    if let Some((q1idx, q)) = &f.q1 {
        let alive = q[1] != 0;
        if alive && q[0] > 0 {
            v(vs, "C02-Q1-unread-input", cfg, format!("{} inbound messages left unread with nothing woken", q[0]));
        }
        if alive {
            for i in f.inst.values() {
                let (surely, _) = tracked(f, i, *q1idx);
                if surely && i.hfinish.is_some() && i.exec_done.is_some() && i.resp.is_empty() {
                    v(
                        vs,
                        "C02-Q1-response-not-written",
                        cfg,
                        format!("handler of request id {} completed and its response is buffered, the sink is ready, yet nothing woke the request stream to write it", i.id),
                    );
                }
            }
        }
    }
    // final quiescence: every deadline has passed; no handler may still be alive
    let mut last_q2 = false;
    for r in &e.recs {
        match r {
            Rec::N("Q2", _) => last_q2 = true,
            Rec::N("Q2h", h) if last_q2 => {
                if h[2] == 0 && h[3] != 0 {
                    v(
                        vs,
                        "C02-Q2-handler-pending",
                        cfg,
                        format!("handler {} (payload {}) is still pending at final quiescence, past every deadline", h[0], h[1]),
                    );
                }
            }
            _ => {}
        }
    }
}

// ---------------------------------------------------------------------------------------------
// C04

fn c04(
    cfg: &SCfg,
    e: &Exec,
    f: &SFacts,
    prefix: &[u16],
    vs: &mut Vec<Violation>,
    nt: &mut bool,
    extra: &mut u32,
) {
    if bad(f, cfg, "C04-panic", vs) {
        return;
    }
    let q1idx = f.q1.as_ref().map(|q| q.0).unwrap_or(usize::MAX);
    for i in f.inst.values() {
        let Some(cend) = i.cancelled else { continue };
        if i.hstart.is_some() && i.hfinish.is_none() {
            *nt = true;
        }
        // (a) no further progress
        if let Some((pi, _)) = i.hpolls.iter().find(|(pi, _)| *pi > cend) {
            let _ = pi;
            v(
                vs,
                "C04-a-polled-after-cancel",
                cfg,
                format!("handler of request id {} (payload {}) was polled after the channel processed its cancellation", i.id, i.p),
            );
        }
        if i.hstart.is_some()
            && i.hfinish.is_none()
            && i.hdrop.map(|d| d.0 > q1idx).unwrap_or(true)
            && cend < q1idx
        {
            v(
                vs,
                "C04-a-not-dropped",
                cfg,
                format!("handler of cancelled request id {} (payload {}) is still alive at quiescence", i.id, i.p),
            );
        }
        // (a') the whole of the request's work ends, not only the service function: an `execute`
        // future that had finished its handler and was parked handing the response over (response
        // buffer full) is ended by the cancellation too - at the next quiescent point it is gone
        // (seeded change C04m moved the hand-over out of the abortable scope)
        if cfg.route == Route::Execute && i.hstart.is_some() && i.app_dropped.is_none() {
            let next_q = [f.q0.as_ref().map(|q| q.0), f.q1.as_ref().map(|q| q.0)].into_iter().flatten().filter(|q| *q > cend).min();
            if let Some(q) = next_q {
                if i.exec_done.map(|d| d > q).unwrap_or(true) && i.hdrop.map(|d| d.0 > q).unwrap_or(true) {
                    v(
                        vs,
                        "C04-a-not-ended",
                        cfg,
                        format!("the work for cancelled request id {} (payload {}) is still alive at quiescence: its execute future has neither completed nor been dropped{}", i.id, i.p, if i.hfinish.is_some() { " (its handler had finished; it is parked handing over a response nobody wants)" } else { "" }),
                    );
                }
            }
        }
        // (b) no response afterwards
        if i.resp.iter().any(|r| *r > cend) {
            v(
                vs,
                "C04-b-response-after-cancel",
                cfg,
                format!("a response for request id {} (payload {}) was transmitted after its cancellation was processed", i.id, i.p),
            );
        }
    }
    // receiving is not optional: a cancellation that sits unread in the transport with nothing woken
    // and the channel alive has not been acted on (without a limiter: the known finding D-C06 is
    // about a limiter that stops reading at its limit)
    for (q1i, q) in f.q0.iter().chain(f.q1.iter()) {
        if q[1] != 0 && q[0] > 0 && cfg.limit.is_none() && f.first_err.map(|x| x.0 > *q1i).unwrap_or(true) && f.eof_read.map(|x| x > *q1i).unwrap_or(true) {
            for r in &e.recs[..*q1i] {
                if let Rec::N("cancel_sent", c) = r {
                    let id = c[0] as u64;
                    if f.cancels_read.iter().any(|(ci, cid)| *cid == id && ci < q1i) {
                        continue;
                    }
                    for i in f.inst.values() {
                        if i.id == id && i.hstart.is_some() && i.hfinish.is_none() && i.hdrop.map(|d| d.0 > *q1i).unwrap_or(true) && i.resp.is_empty() {
                            v(vs, "C04-cancel-not-received", cfg, format!("the cancellation of request id {} (payload {}) sits unread in the transport, nothing is woken, and its handler is still alive", i.id, i.p));
                        }
                    }
                }
            }
        }
    }
    // (c) it stops counting as in flight: after each stream poll, in_flight <= |maybe tracked|
    for (idx, r) in e.recs.iter().enumerate() {
        if let Rec::N("snap", s) = r {
            let maybe = f.inst.values().filter(|i| tracked(f, i, idx).1).count() as i128;
            if s[0] > maybe {
                v(
                    vs,
                    "C04-c-still-counted",
                    cfg,
                    format!("channel reports {} in flight, but only {maybe} requests can still be tracked (cancelled ones must not count)", s[0]),
                );
            }
        }
    }
    // cancels for unknown or finished ids have no effect: differential rerun
    let base = observable(f);
    let mut n = 0u32;
    for r in &e.recs {
        if let Rec::N("cancel_sent", c) = r {
            n = c[1] as u32;
            let id = c[0] as u64;
            let stray = c[2] != 0;
            if !stray {
                continue;
            }
            *nt = true;
            let e2 = execute(cfg, prefix, Some(n));
            *extra += 1;
            if let Some(err) = &e2.err {
                v(vs, "C04-stray-cancel-diverged", cfg, format!("removing a cancellation for an unknown/finished id changed the shape of the run: {err}"));
                continue;
            }
            let o2 = observable(&sfacts(&e2.recs));
            if o2 != base {
                v(
                    vs,
                    "C04-stray-cancel-disturbed",
                    cfg,
                    format!("a cancellation for unknown/finished id {id} changed the run:\n with: {base}\n without: {o2}"),
                );
            }
        }
    }
    let _ = n;
}

// ---------------------------------------------------------------------------------------------
// C06

fn c06(cfg: &SCfg, e: &Exec, f: &SFacts, vs: &mut Vec<Violation>, nt: &mut bool) {
    if bad(f, cfg, "C06-panic", vs) {
        return;
    }
    let ms = 1_000_000i128;
    for i in f.inst.values() {
        if i.hstart.is_none() {
            continue;
        }
        // never early: a handler that was dropped without finishing, without a cancel, without the
        // application or the channel going away, was dropped by expiry
        if let Some((hd, t)) = i.hdrop {
            let other_reason = i.cancelled.map(|c| c <= hd || true).unwrap_or(false)
                || i.app_dropped.map(|d| d <= hd).unwrap_or(false)
                || f.stream_dropped.map(|d| d <= hd).unwrap_or(false)
                || f.teardown.map(|d| d <= hd).unwrap_or(false)
                || f.cancels_read.iter().any(|(_, cid)| *cid == i.id);
            if !other_reason {
                *nt = true;
                if t < i.deadline_ns {
                    v(
                        vs,
                        "C06-early",
                        cfg,
                        format!(
                            "handler of request id {} (deadline {}ms) was aborted at t={}ms",
                            i.id,
                            i.deadline_ns / ms,
                            t / ms
                        ),
                    );
                }
            }
        }
        // once a channel poll has completed at t >= D+1ms the handler makes no progress and nothing is sent
        let Some(&(ps0, pe, _)) = f
            .polls
            .iter()
            .find(|(ps, pe, t)| *t >= i.deadline_ns + ms && *ps > i.handed && !f.rewoken.contains(pe))
        else {
            continue;
        };
        // Known-finding discriminator: the request limiter was at its limit with the sink not
        // ready, so it returned without polling the inner channel at all (no read, hence no
        // expiry processing) in that poll.
        let limiter_blocked = limit_reached(cfg, e, f, ps0, pe)
            && !e.recs[ps0..pe]
                .iter()
                .any(|r| matches!(r, Rec::T { side: 1, op: Op::Next, .. }))
            && e.recs[ps0..pe]
                .iter()
                .any(|r| matches!(r, Rec::T { side: 1, op: Op::Ready, res: Res::Pending, .. }));
        let sfx = if limiter_blocked { "/limit-reached+sink-not-ready:inner-channel-not-polled" } else { "" };
        if i.hfinish.map(|h| h < pe).unwrap_or(false) || i.app_dropped.map(|d| d < pe).unwrap_or(false) {
            // finished (or given up by the application) before expiry could be processed: the
            // response may race the deadline, checked below
        } else {
            *nt = true;
            if let Some((pi, t)) = i.hpolls.iter().find(|(pi, _)| *pi > pe) {
                let _ = pi;
                v(
                    vs,
                    &format!("C06-runs-past-deadline{sfx}"),
                    cfg,
                    format!(
                        "handler of request id {} (deadline {}ms) was still polled at t={}ms, after the channel had been polled past the deadline",
                        i.id,
                        i.deadline_ns / ms,
                        t / ms
                    ),
                );
            }
        }
        if let Some(r) = i.resp.iter().find(|r| **r > pe) {
            // written after an expiry-processing poll: only legal if never tracked as expired, i.e. never
            let _ = r;
            v(
                vs,
                &format!("C06-response-after-expiry{sfx}"),
                cfg,
                format!(
                    "a response for request id {} (deadline {}ms) was transmitted after the channel had been polled past the deadline",
                    i.id,
                    i.deadline_ns / ms
                ),
            );
        }
    }
    // "transmits nothing for it afterwards": no response bearing a request's token is handed to
    // the transport at t >= D+1ms, whatever the order of work inside that poll
    for i in f.inst.values() {
        for r in &i.resp {
            let t = f.time_at(*r);
            if t >= i.deadline_ns + ms {
                // the known limiter finding delays expiry processing; keep its signature apart
                let blocked_before = f.polls.iter().any(|(ps, pe, pt)| {
                    *pt >= i.deadline_ns + ms
                        && *ps > i.handed
                        && *pe < *r
                        && limit_reached(cfg, e, f, *ps, *pe)
                        && !e.recs[*ps..*pe].iter().any(|x| matches!(x, Rec::T { side: 1, op: Op::Next, .. }))
                        && e.recs[*ps..*pe].iter().any(|x| matches!(x, Rec::T { side: 1, op: Op::Ready, res: Res::Pending, .. }))
                });
                let sfx = if blocked_before { "/limit-reached+sink-not-ready:inner-channel-not-polled" } else { "" };
                *nt = true;
                v(
                    vs,
                    &format!("C06-response-after-deadline{sfx}"),
                    cfg,
                    format!(
                        "the response for request id {} (deadline {}ms) was transmitted at t={}ms",
                        i.id,
                        i.deadline_ns / ms,
                        t / ms
                    ),
                );
            }
        }
    }
    // at every settled checkpoint past D+1ms the handler is gone
    let mut cur: Option<(usize, i128)> = None;
    for (idx, r) in e.recs.iter().enumerate() {
        match r {
            Rec::N("QD", q) | Rec::N("Q2", q) => {
                cur = Some((idx, q[5]));
                let (qidx, now) = cur.unwrap();
                if q[1] == 0 {
                    continue;
                }
                for i in f.inst.values() {
                    if i.hstart.is_some()
                        && i.hfinish.is_none()
                        && i.app_dropped.is_none()
                        && now >= i.deadline_ns + ms
                        && i.hdrop.map(|d| d.0 > qidx).unwrap_or(true)
                    {
                        v(
                            vs,
                            "C06-not-aborted",
                            cfg,
                            format!(
                                "handler of request id {} (deadline {}ms) is still alive at t={}ms after the system settled",
                                i.id,
                                i.deadline_ns / ms,
                                now / ms
                            ),
                        );
                    }
                }
            }
            _ => {}
        }
    }
}

/// Was the request limiter at its limit during the stream poll recs[ps..pe]? The known C06
/// finding is about exactly that state, so anything that happens below the limit must not be
/// filed under its signature. Uses the count the channel itself reports right after the poll
/// where the harness can read it, the reference model otherwise.
fn limit_reached(cfg: &SCfg, e: &Exec, f: &SFacts, ps: usize, pe: usize) -> bool {
    let Some(l) = cfg.limit else { return false };
    for r in e.recs.iter().skip(pe).take(4) {
        if let Rec::N("snap", v) = r {
            return v[0] >= l as i128;
        }
        if matches!(r, Rec::PollStart(_)) {
            break;
        }
    }
    // (execute() route: the count is not observable; a request whose deadline has passed still
    // counts, since the blocked limiter cannot have processed its expiry)
    let maybe = f.inst.values().filter(|i| i.yielded.is_some() && tracked(f, i, ps).1).count();
    maybe >= l
}

// ---------------------------------------------------------------------------------------------
// C08

fn c08(cfg: &SCfg, e: &Exec, f: &SFacts, vs: &mut Vec<Violation>, nt: &mut bool) {
    let _ = e;
    if bad(f, cfg, "C08-panic", vs) {
        return;
    }
    let ended_at = f
        .stream_dropped
        .or(f.stream_end)
        .or(f.stream_err.as_ref().map(|e| e.0));
    let mut yields: BTreeMap<u32, u32> = BTreeMap::new();
    for r in &e.recs {
        if let Rec::N("yield", y) = r {
            *yields.entry(y[1] as u32).or_insert(0) += 1;
        }
    }
    if f.orphan_yields > 0 {
        v(vs, "C08-yield-unread", cfg, format!("{} handler futures were offered for which no request was read", f.orphan_yields));
    }
    for (p, n) in &yields {
        if *n > 1 {
            v(vs, "C08-yielded-twice", cfg, format!("request payload {p} was offered to the application {n} times"));
        }
        if !f.inst.contains_key(p) {
            v(vs, "C08-yield-unread", cfg, format!("a request (payload {p}) was offered that the transport never handed over"));
        }
    }
    for i in f.inst.values() {
        if i.dup_of_tracked {
            *nt = true;
            if i.yielded.is_some() {
                v(
                    vs,
                    "C08-dup-yielded",
                    cfg,
                    format!("request reusing id {} while it was still in flight was offered to the application (payload {})", i.id, i.p),
                );
            }
            if i.throttled.is_some() {
                v(vs, "C08-dup-answered", cfg, format!("duplicate of in-flight id {} was answered", i.id));
            }
        } else if !i.maybe_tracked_at_handover && cfg.limit.is_none() {
            // fresh (or reused after completion): exactly one offer, unless the stream was gone first
            let offered = i.yielded.is_some();
            let stream_gone = ended_at.map(|x| x < f.poll_end_after(i.handed)).unwrap_or(false)
                || ended_at.map(|x| x <= i.handed + 3).unwrap_or(false);
            if !offered && !stream_gone {
                v(
                    vs,
                    "C08-not-offered",
                    cfg,
                    format!("request id {} (payload {}) was read but never offered to the application", i.id, i.p),
                );
            }
            if i.maybe_tracked_at_handover {
                *nt = true;
            }
        }
        if i.resp.len() > 1 {
            v(
                vs,
                "C08-two-responses",
                cfg,
                format!("{} responses transmitted for request id {} (payload {})", i.resp.len(), i.id, i.p),
            );
        }
        for r in &i.resp {
            match i.hfinish {
                Some(h) if h < *r => {}
                _ => v(vs, "C08-response-without-handler", cfg, format!("response for payload {} transmitted although its handler never finished", i.p)),
            }
            if let Some(c) = i.cancelled {
                if c < *r {
                    v(vs, "C08-response-after-cancel", cfg, format!("response for id {} transmitted after its cancellation was processed", i.id));
                }
            }
            // "... only if the handler finished before the request ... expired": a handler that
            // finished a whole millisecond (the timers' granularity) after the deadline was too late
            // whatever the channel had or had not been polled for in between (no limiter here, so the
            // known finding D-C06 does not apply)
            if cfg.limit.is_none() {
                if let Some(hf) = i.hfinish {
                    let ms = 1_000_000i128;
                    if f.time_at(hf) >= i.deadline_ns + ms && i.deadline_ns > 0 {
                        v(vs, "C08-response-after-expiry", cfg, format!("response for id {} (deadline {}ms) transmitted although its handler finished only at t={}ms", i.id, i.deadline_ns / ms, f.time_at(hf) / ms));
                    }
                }
            }
        }
    }
    // every response answers a request read on this channel, with that request's id
    for (idx, m) in &f.wire {
        if let Msg::Resp { id, body } = m {
            match body {
                Ok(tok) => {
                    let ok = *tok >= 5000
                        && f.inst.get(&(tok - 5000)).map(|i| i.id == *id && i.handed < *idx).unwrap_or(false);
                    if !ok {
                        v(vs, "C08-response-unmatched", cfg, format!("response {m:?} does not answer a request read on this channel"));
                    }
                }
                Err((kind, _)) => {
                    if cfg.limit.is_none() || kind != "WouldBlock" {
                        v(vs, "C08-unexpected-error-response", cfg, format!("{m:?}"));
                    }
                }
            }
        }
    }
    if f.inst.len() >= 2 {
        *nt = true;
    }
}

// ---------------------------------------------------------------------------------------------
// C09 (server side)

fn c09(cfg: &SCfg, e: &Exec, f: &SFacts, vs: &mut Vec<Violation>, nt: &mut bool) {
    let _ = e;
    for p in &f.panics {
        v(vs, "C09-panic", cfg, format!("panic: {p}"));
    }
    if f.horizon {
        v(vs, "C09-hang", cfg, "step horizon exceeded under a transport fault".into());
    }
    if f.horizon || f.spin || !f.panics.is_empty() {
        return;
    }
    let Some((fidx, op)) = f.first_err else {
        if let Some((_, k)) = &f.stream_err {
            v(vs, "C09-spurious-error", cfg, format!("stream reported {k} without any transport failure"));
        }
        return;
    };
    *nt = true;
    let want = match op {
        Op::Next => "Read",
        Op::Ready => "Ready",
        Op::Send => "Write",
        Op::Flush => "Flush",
        Op::Close => "Close",
    };
    if cfg.route == Route::Requests {
        match &f.stream_err {
            Some((sidx, k)) => {
                if k != want {
                    v(vs, "C09-wrong-activity", cfg, format!("transport failed during {want} but the stream reported {k}"));
                }
                // (normally reported by the very poll that hit the failure; "reported" is what the
                // property asks for, and C02's quiescence oracle covers a report that never comes)
                let _ = sidx;
            }
            None => {
                if f.stream_dropped.map(|d| d > fidx).unwrap_or(true) && f.stream_end.is_none() {
                    v(vs, "C09-not-reported", cfg, format!("transport failed during {want} but the stream never reported it"));
                } else if f.stream_end.map(|s| s > fidx).unwrap_or(false) {
                    v(vs, "C09-swallowed", cfg, format!("transport failed during {want} but the stream ended normally"));
                }
            }
        }
    } else {
        if f.stream_end.is_none() && f.stream_dropped.is_none() {
            v(vs, "C09-execute-not-stopped", cfg, format!("transport failed during {want} but execute() kept going"));
        }
        // execute() is the one that stops serving: nothing is read, let alone offered, after the
        // failure (it may end in the poll that hit the failure or in the next one, not later)
        for i in f.inst.values() {
            if i.handed > fidx {
                v(
                    vs,
                    "C09-served-after-failure",
                    cfg,
                    format!("transport failed during {want}, yet execute() went on to read request id {} from it", i.id),
                );
            }
        }
    }
    // serving stopped and handlers aborted once the channel is dropped
    let q1idx = f.q1.as_ref().map(|q| q.0).unwrap_or(usize::MAX);
    if let Some(sd) = f.stream_dropped {
        if sd < q1idx {
            for i in f.inst.values() {
                if i.hstart.is_some()
                    && i.hfinish.is_none()
                    && i.hdrop.map(|d| d.0 > q1idx).unwrap_or(true)
                {
                    v(
                        vs,
                        "C09-handler-survives",
                        cfg,
                        format!("handler of request id {} still alive at quiescence after the failed channel was dropped", i.id),
                    );
                }
                if i.yielded.map(|y| y > sd).unwrap_or(false) {
                    v(vs, "C09-served-after-failure", cfg, format!("request id {} offered after the channel failed", i.id));
                }
            }
        }
    }
}

// ---------------------------------------------------------------------------------------------
// C10 (server side)

fn c10(cfg: &SCfg, e: &Exec, f: &SFacts, vs: &mut Vec<Violation>, nt: &mut bool) {
    if bad(f, cfg, "C10-panic", vs) {
        return;
    }
    if f.first_err.is_some() {
        return;
    }
    if let Some(se) = f.stream_end {
        *nt = true;
        if f.eof_read.map(|x| x > se).unwrap_or(true) {
            v(vs, "C10-ended-without-eof", cfg, "request stream ended although the inbound side had not ended".into());
        }
        for i in f.inst.values() {
            let (surely, _) = tracked(f, i, se);
            if surely {
                v(
                    vs,
                    "C10-ended-with-in-flight",
                    cfg,
                    format!("request stream ended while request id {} (payload {}) was still in flight (not answered, cancelled or expired)", i.id, i.p),
                );
            }
            // a completed execute future's response is written before the stream ends
            if let (Some(h), Some(d)) = (i.hfinish, i.exec_done) {
                if h < se && d < se && i.resp.is_empty() && i.cancelled.is_none() {
                    let now = f.time_at(se);
                    if i.deadline_ns > now {
                        v(
                            vs,
                            "C10-response-lost",
                            cfg,
                            format!("request stream ended without transmitting the response of the completed handler for id {} (payload {})", i.id, i.p),
                        );
                    }
                }
            }
        }
        // everything written is flushed (or the medium has taken it) before the stream ends
        let mut unflushed = 0;
        for r in &e.recs[..se] {
            if let Rec::T { side: 1, op, res, .. } = r {
                match (op, res) {
                    (Op::Send, Res::Ok) => unflushed += 1,
                    (Op::Flush, Res::Ok) | (Op::Close, Res::Ok) => unflushed = 0,
                    _ => {}
                }
            }
        }
        if unflushed > 0 {
            v(vs, "C10-ended-unflushed", cfg, format!("request stream ended with {unflushed} responses written but not flushed"));
        }
    }
    // at Q1 (clock frozen): ended iff nothing in flight, once EOF has been read
    if let (Some((q1idx, q)), Some(er)) = (&f.q1, f.eof_read) {
        if er < *q1idx && f.stream_dropped.map(|d| f.stream_end.map(|s| s < d).unwrap_or(false)).unwrap_or(true) {
            let ended = q[6] != 0;
            let surely: Vec<&Inst> = f.inst.values().filter(|i| tracked(f, i, *q1idx).0).collect();
            // (at quiescence a request the application has given up is over: its guard's notice has
            // been queued, and a channel that is not woken by it has lost it)
            let maybe = f.inst.values().filter(|i| tracked(f, i, *q1idx).1 && i.app_dropped.map(|d| d >= *q1idx).unwrap_or(true)).count();
            if !ended && maybe == 0 {
                v(
                    vs,
                    "C10-not-ended",
                    cfg,
                    "inbound side ended and nothing is in flight, yet the request stream has not ended at quiescence".into(),
                );
            }
            if ended && !surely.is_empty() && f.stream_end.is_some() {
                // reported above with more detail
            }
        }
    }
}

// ---------------------------------------------------------------------------------------------
// C11 (server side)

fn c11(cfg: &SCfg, e: &Exec, f: &SFacts, vs: &mut Vec<Violation>, nt: &mut bool) {
    if bad(f, cfg, "C11-panic", vs) {
        return;
    }
    for (idx, r) in e.recs.iter().enumerate() {
        if let Rec::N("snap", s) = r {
            let surely = f.inst.values().filter(|i| tracked(f, i, idx).0).count() as i128;
            let maybe = f.inst.values().filter(|i| tracked(f, i, idx).1).count() as i128;
            if s[0] > maybe {
                v(
                    vs,
                    "C11-reports-more",
                    cfg,
                    format!("channel reports {} in flight but only {maybe} yielded requests have not ended", s[0]),
                );
            }
            if s[0] < surely {
                v(
                    vs,
                    "C11-reports-less",
                    cfg,
                    format!("channel reports {} in flight but {surely} yielded requests are unanswered, uncancelled, unexpired and not abandoned", s[0]),
                );
            }
        }
    }
    if f.inst.len() >= 2 {
        *nt = true;
    }
    if let Some((q1idx, q)) = &f.q1 {
        if q[1] != 0 {
            let surely = f.inst.values().filter(|i| tracked(f, i, *q1idx).0).count() as i128;
            // at quiescence with the clock stopped the ambiguity windows are closed, except for
            // deadlines that have passed
            let now = q[5];
            let amb = f
                .inst
                .values()
                .filter(|i| {
                    let (s, m) = tracked(f, i, *q1idx);
                    m && !s && i.deadline_ns > now
                })
                .count();
            let expired_window = f
                .inst
                .values()
                .filter(|i| {
                    let (s, m) = tracked(f, i, *q1idx);
                    m && !s && i.deadline_ns == now
                })
                .count() as i128;
            let _ = amb;
            if q[2] < surely || q[2] > surely + expired_window {
                v(
                    vs,
                    "C11-idle-mismatch",
                    cfg,
                    format!("channel idle: reports {} in flight, {} yielded requests have not ended", q[2], surely),
                );
            }
            if surely == 0 && expired_window == 0 && (q[2] != 0 || q[3] != 0) {
                v(
                    vs,
                    "C11-not-reclaimed",
                    cfg,
                    format!("every yielded request has ended, clock stopped, yet {} requests and {} deadline timers are tracked", q[2], q[3]),
                );
            }
            if q[3] > q[2] + expired_window {
                v(
                    vs,
                    "C11-timer-leak",
                    cfg,
                    format!("{} deadline timers pending for {} tracked requests at quiescence", q[3], q[2]),
                );
            }
        }
    }
}

// ---------------------------------------------------------------------------------------------
// C12

fn c12(cfg: &SCfg, e: &Exec, f: &SFacts, vs: &mut Vec<Violation>, nt: &mut bool) {
    if bad(f, cfg, "C12-panic", vs) {
        return;
    }
    let Some(l) = cfg.limit else { return };
    // reference model over the order in which the transport handed things over and responses
    // passed start_send
    for p in &f.order {
        let i = &f.inst[p];
        if i.dup_of_tracked {
            if i.throttled.is_some() || i.yielded.is_some() {
                v(vs, "C12-dup-not-ignored", cfg, format!("duplicate of tracked id {} was refused or executed instead of ignored", i.id));
            }
            continue;
        }
        // A request the application had given up (its handler future dropped) before the poll
        // that read this one even started is not "really in flight" any more: the channel has
        // had its cancellation queued since then (seeded change C12e read first and processed
        // the cancellation afterwards, refusing a request with a free slot).
        let poll_start = f.polls.iter().rev().find(|(ps, _, _)| *ps <= i.handed).map(|p| p.0).unwrap_or(0);
        let set = f
            .inst
            .values()
            .filter(|o| o.p != i.p && tracked(f, o, i.handed).1 && !o.app_dropped.map(|d| d < poll_start).unwrap_or(false))
            .count();
        let surely_set = f
            .inst
            .values()
            .filter(|o| o.p != i.p && tracked(f, o, i.handed).0)
            .count();
        let gone = f.stream_dropped.map(|d| d < f.poll_end_after(i.handed)).unwrap_or(false);
        if gone {
            continue;
        }
        if i.yielded.is_some() {
            if surely_set >= l {
                v(
                    vs,
                    "C12-over-limit",
                    cfg,
                    format!("request id {} was handed to the application while {surely_set} requests were in flight (limit {l})", i.id),
                );
            }
            if i.throttled.is_some() {
                v(vs, "C12-refused-and-executed", cfg, format!("request id {} was both refused and executed", i.id));
            }
        } else if i.throttled.is_some() {
            *nt = true;
            if set < l {
                v(
                    vs,
                    "C12-refused-below-limit",
                    cfg,
                    format!("request id {} was refused while only {set} requests were in flight (limit {l})", i.id),
                );
            }
        } else if !i.maybe_tracked_at_handover {
            // a request read in the very poll that reported a transport failure is lost with it
            // (C09: serving stops at a transport failure - an application that polls on regardless
            // gets what is left)
            let e1 = f.poll_end_after(i.handed);
            let lost_in_failed_poll = e1 != usize::MAX && f.served_on_errors.iter().any(|x| *x > e1 && *x <= e1 + 3);
            if !lost_in_failed_poll {
                v(vs, "C12-dropped", cfg, format!("request id {} was neither executed nor refused", i.id));
            }
        }
    }
    // refusal responses: exactly one each, kind WouldBlock
    let mut refusals: BTreeMap<u64, u32> = BTreeMap::new();
    for (_, m) in &f.wire {
        if let Msg::Resp { id, body: Err((kind, _)) } = m {
            *refusals.entry(*id).or_insert(0) += 1;
            if kind != "WouldBlock" {
                v(vs, "C12-refusal-kind", cfg, format!("refusal for id {id} carries kind {kind}"));
            }
        }
    }
    let throttled_per_id: BTreeMap<u64, u32> = f.inst.values().filter(|i| i.throttled.is_some()).fold(BTreeMap::new(), |mut m, i| {
        *m.entry(i.id).or_insert(0) += 1;
        m
    });
    for (id, n) in &refusals {
        if throttled_per_id.get(id).copied().unwrap_or(0) != *n {
            v(vs, "C12-refusal-count", cfg, format!("{n} refusal responses for id {id}"));
        }
    }
    for i in f.inst.values() {
        if i.throttled.is_some() && (i.hstart.is_some() || i.yielded.is_some()) {
            v(vs, "C12-refused-executed", cfg, format!("refused request id {} was executed", i.id));
        }
    }
    // "gets an error response": once everything has settled (Q1: nothing woken, the medium has
    // taken whatever it was asked to flush) every refusal that was written has reached the peer
    if let Some((q1, _)) = &f.q1 {
        let broken = f.first_err.map(|(i, _)| i < *q1).unwrap_or(false)
            || f.stream_err.as_ref().map(|e| e.0 < *q1).unwrap_or(false)
            || f.stream_dropped.map(|d| d < *q1).unwrap_or(false);
        if !broken {
            for i in f.inst.values() {
                let Some(w) = i.throttled else { continue };
                let seen = e.recs[w..*q1].iter().any(|r| matches!(r, Rec::PeerSaw { side: 1, msg: Msg::Resp { id, body: Err(_) } } if *id == i.id));
                if !seen {
                    v(
                        vs,
                        "C12-refusal-not-delivered",
                        cfg,
                        format!("the refusal for request id {} was written but never reached the peer (left unflushed with the channel idle)", i.id),
                    );
                }
            }
        }
    }
    let _: BTreeSet<u32> = BTreeSet::new();
}

// ---------------------------------------------------------------------------------------------
// configurations

fn base(reqs: Vec<ReqCfg>, limit: Option<usize>, rb: usize, fl: Flavour, cap: usize, alphabet: u32) -> SCfg {
    SCfg {
        reqs,
        limit,
        resp_buf: rb,
        flavour: fl,
        cap,
        alphabet,
        fault: None,
        serve_on_after_error: false,
        eof_at_end: true,
        route: Route::Requests,
        burst: false,
        reuse_after_end: false,
        dup_deadline_ms: 10_000,
        via_serde: false,
        start_age_ms: 0,
        limit_via_incoming: false,
        via_key_limit: false,
    }
}

fn finish_policies(n: usize) -> Vec<Vec<bool>> {
    (0..(1u32 << n))
        .map(|m| (0..n).map(|i| m & (1 << i) != 0).collect())
        .collect()
}

pub fn configs(prop: SProp, tier: Tier) -> Vec<SCfg> {
    let thorough = tier == Tier::Thorough;
    let mut out = Vec::new();
    let sinks: &[(Flavour, usize)] = &[(Flavour::Always, 1), (Flavour::Coupled, 1), (Flavour::FlushFrees, 1)];
    // C12 also needs a buffering sink that is not full after one refusal (nothing but an explicit
    // flush then transmits it)
    let sinks_c12: &[(Flavour, usize)] = &[(Flavour::Always, 1), (Flavour::Coupled, 1), (Flavour::FlushFrees, 1), (Flavour::Coupled, 2)];
    match prop {
        SProp::C02 => {
            let alpha = S_CANCEL | S_FINISH | S_DRAIN | S_EOF | S_ADVANCE | S_DROPH | S_DUP;
            for n in 1..=3usize {
                for limit in [None, Some(1)] {
                    for rb in [1usize, 2] {
                        for (fl, cap) in [(Flavour::Always, 1usize), (Flavour::Coupled, 1), (Flavour::Coupled, 2), (Flavour::Indep, 1), (Flavour::FlushFrees, 1)] {
                            for pol in finish_policies(n) {
                                if !thorough && n == 3 && (rb == 2 || limit.is_some() || pol.iter().filter(|b| !**b).count() > 1) {
                                    continue;
                                }
                                for dl in [10_000i64, 50] {
                                    let reqs: Vec<ReqCfg> = pol
                                        .iter()
                                        .enumerate()
                                        .map(|(i, f)| ReqCfg { deadline_ms: dl, ..ReqCfg::simple(i as u64, *f) })
                                        .collect();
                                    for route in [Route::Requests, Route::Execute] {
                                        if route == Route::Execute && (n == 3 || rb == 2) && !thorough {
                                            continue;
                                        }
                                        let mut c = base(reqs.clone(), limit, rb, fl, cap, alpha);
                                        c.route = route;
                                        out.push(c);
                                    }
                                }
                            }
                        }
                    }
                }
            }
        }
        SProp::C04 => {
            let alpha = S_CANCEL | S_CANCEL_UNKNOWN | S_FINISH | S_DRAIN;
            // a request whose deadline lies beyond the timers' range (3 years, 10 years - the "no
            // deadline" idiom) is cancelled like any other (seeded change C04k armed no timer for it
            // and then failed to abort it on cancellation)
            for far_days in [1100i64, 3650] {
                for route in [Route::Requests, Route::Execute] {
                    for n in 1..=2usize {
                        let mut reqs: Vec<ReqCfg> = (0..n as u64).map(|i| ReqCfg::simple(i, false)).collect();
                        reqs[n - 1].deadline_ms = far_days * 86_400_000;
                        let mut c = base(reqs, None, 1, Flavour::Always, 1, alpha);
                        c.route = route;
                        out.push(c);
                    }
                }
            }
            // request ids need not arrive in increasing order (two threads sharing a client draw
            // their ids before they hand their requests over): a cancellation is honoured
            // whatever the order (seeded change C04n ignored cancellations for ids above the
            // id of the request started last)
            for ids in [vec![1u64, 0], vec![2, 0, 1], vec![7, 3], vec![u64::MAX, 0]] {
                for route in [Route::Requests, Route::Execute] {
                    let reqs: Vec<ReqCfg> = ids.iter().map(|id| ReqCfg::simple(*id, false)).collect();
                    let mut c = base(reqs, None, 1, Flavour::Always, 1, alpha);
                    c.route = route;
                    out.push(c);
                }
            }
            // the sink (one slot, not drained) and the response buffer (one slot) are full of finished
            // responses when the cancellation of a third, running request arrives: it is read and
            // acted on all the same (seeded change C04i / C06g stopped reading while the response
            // buffer was full)
            for route in [Route::Requests, Route::Execute] {
                let reqs = vec![ReqCfg::simple(0, true), ReqCfg::simple(1, true), ReqCfg::simple(2, false)];
                let mut c = base(reqs, None, 1, Flavour::Coupled, 1, alpha);
                c.route = route;
                out.push(c);
            }
            for n in 1..=3usize {
                for limit in [None, Some(1), Some(2)] {
                    for rb in [1usize, 2] {
                        for (fl, cap) in sinks {
                            for pol in finish_policies(n) {
                                if !thorough && n == 3 && (rb == 2 || pol.iter().filter(|b| **b).count() == 2) {
                                    continue;
                                }
                                for route in [Route::Requests, Route::Execute] {
                                    if route == Route::Execute && (n == 3 || rb == 2) && !thorough {
                                        continue;
                                    }
                                    let reqs = pol.iter().enumerate().map(|(i, f)| ReqCfg::simple(i as u64, *f)).collect();
                                    let mut c = base(reqs, limit, rb, *fl, *cap, alpha);
                                    c.route = route;
                                    out.push(c);
                                }
                            }
                        }
                    }
                }
            }
        }
        SProp::C06 => {
            let alpha = S_ADVANCE | S_FINISH | S_DRAIN | S_DUP;
            // several requests expiring together while finished responses wait behind a sink that
            // was blocked, and a further request arrives
            for rb in [1usize, 2] {
                for (f0, f1) in [(false, true), (true, true), (true, false)] {
                    let mk = |id: u64, d: i64, fin: bool| ReqCfg { deadline_ms: d, ..ReqCfg::simple(id, fin) };
                    let reqs = vec![mk(0, 10_000, true), mk(1, 1, f0), mk(2, 1, f1), mk(3, 10_000, true)];
                    out.push(base(reqs, None, rb, Flavour::Coupled, 1, alpha));
                }
            }
            // the same with handlers whose result is a rejection (Err): a rejection buffered before
            // the deadline is a response like any other - it is not transmitted once the request
            // has expired (seeded change C06n let untracked error replies through)
            for rb in [1usize] {
                for (e1, e2) in [(true, false), (true, true)] {
                    let mk = |id: u64, d: i64, fails: bool| ReqCfg { deadline_ms: d, fails, ..ReqCfg::simple(id, true) };
                    let reqs = vec![mk(0, 10_000, false), mk(1, 1, e1), mk(2, 50, e2), mk(3, 10_000, true)];
                    out.push(base(reqs, None, rb, Flavour::Coupled, 1, alpha));
                }
            }
            // a request is in flight for more than a day when the next one arrives: its timer is
            // still there afterwards (seeded change C08g renewed the timer queue of a *busy* old
            // connection and lost the timers of the requests in flight)
            for limit in [None, Some(2)] {
                let day = 86_400_000i64;
                let r0 = ReqCfg { deadline_ms: 26 * day / 24, ..ReqCfg::simple(0, false) };
                let r1 = ReqCfg { deadline_ms: 25 * day / 24 + 10_000, at_ms: Some(25 * day / 24), ..ReqCfg::simple(1, true) };
                out.push(base(vec![r0, r1], limit, 1, Flavour::Always, 1, alpha));
            }
            // the response buffer (one slot) and the sink (one slot, not drained) are both full of
            // finished responses while a third request's deadline passes: it is aborted all the
            // same (seeded change C06g stopped reading - and with it expiring - while the
            // response buffer was full)
            for (d2, f2) in [(50i64, false), (1, false), (50, true)] {
                let mk = |id: u64, d: i64, fin: bool| ReqCfg { deadline_ms: d, ..ReqCfg::simple(id, fin) };
                let reqs = vec![mk(0, 10_000, true), mk(1, 10_000, true), mk(2, d2, f2)];
                out.push(base(reqs, None, 1, Flavour::Coupled, 1, alpha));
            }
            // one request is cancelled by its caller, a sibling with a later deadline stays in flight:
            // the sibling is still aborted at its deadline (seeded change C06l left the cancelled
            // request's timer behind and stopped draining the timer queue when it fired)
            for (d0, d1) in [(50i64, 100i64), (1, 50), (50, 10_000)] {
                for route in [Route::Requests, Route::Execute] {
                    let mk = |id: u64, d: i64| ReqCfg { deadline_ms: d, ..ReqCfg::simple(id, false) };
                    let mut c = base(vec![mk(0, d0), mk(1, d1), ReqCfg::cancel_of(0)], None, 1, Flavour::Always, 1, alpha);
                    c.route = route;
                    out.push(c);
                }
            }
            // the peer has stopped sending (end of the inbound side) but still reads: requests in
            // flight keep their deadlines (seeded change C08h stopped driving the timers of a
            // half-closed connection)
            for limit in [None, Some(1)] {
                for (d0, f0) in [(1i64, false), (50, false), (50, true)] {
                    let mk = |id: u64, d: i64, fin: bool| ReqCfg { deadline_ms: d, ..ReqCfg::simple(id, fin) };
                    out.push(base(vec![mk(0, d0, f0)], limit, 1, Flavour::Always, 1, alpha | S_EOF));
                    out.push(base(vec![mk(0, d0, f0), mk(1, 10_000, true)], limit, 1, Flavour::Coupled, 1, alpha | S_EOF));
                }
            }
            let ds: &[i64] = &[-1000, 0, 1, 50, 1000, 700 * 86_400_000];
            for limit in [None, Some(1), Some(2)] {
                for (fl, cap) in sinks {
                    for d0 in ds {
                        for fin in [false, true] {
                            let mut r = ReqCfg::simple(0, fin);
                            r.deadline_ms = *d0;
                            out.push(base(vec![r.clone()], limit, 1, *fl, *cap, alpha));
                            // the connection has been idle for 2 / 500 / 800 days when the
                            // request arrives (the channel's timer queue is renewed when it is
                            // found empty and old; seeded change C06f capped the first timer
                            // after the idle period by the old queue's age)
                            if *d0 >= 1 && *d0 <= 1000 && limit != Some(2) {
                                for age_days in [2i64, 500, 800] {
                                    let age = age_days * 86_400_000;
                                    let mut r0 = r.clone();
                                    r0.deadline_ms = age + *d0;
                                    let mut r1 = ReqCfg::simple(1, fin);
                                    r1.deadline_ms = age + 300 * 86_400_000;
                                    let mut c = base(vec![r0, r1], limit, 1, *fl, *cap, alpha);
                                    c.start_age_ms = age;
                                    out.push(c);
                                }
                            }
                            // the same request arriving over a serializing hop (deadline sent
                            // as the remaining time, zero when it has passed)
                            if *d0 <= 50 && limit != Some(2) {
                                let mut c = base(vec![r.clone(), ReqCfg::simple(1, true)], limit, 1, *fl, *cap, alpha);
                                c.via_serde = true;
                                out.push(c);
                            }
                            let mut c = base(vec![r], limit, 1, *fl, *cap, alpha);
                            c.route = Route::Execute;
                            out.push(c);
                        }
                        for d1 in [1i64, 50, 10_000] {
                            if !thorough && *d0 > 1000 {
                                continue;
                            }
                            for (f0, f1) in [(false, false), (true, false), (false, true)] {
                                let mut r0 = ReqCfg::simple(0, f0);
                                r0.deadline_ms = *d0;
                                let mut r1 = ReqCfg::simple(1, f1);
                                r1.deadline_ms = d1;
                                out.push(base(vec![r0.clone(), r1.clone()], limit, 1, *fl, *cap, alpha));
                                // (limit 2 with three requests is where re-introducing D-C06b,
                                // one expiry per poll, shows within two deviations)
                                // (quick tier: only there, and not with two long deadlines - the
                                // three-request shapes are what the quick tier spends its time on)
                                if thorough || (limit == Some(2) && (d1 != 10_000 || *d0 <= 50)) {
                                    let mut r2 = ReqCfg::simple(2, true);
                                    r2.deadline_ms = 50;
                                    out.push(base(vec![r0, r1, r2], limit, 1, *fl, *cap, alpha));
                                }
                            }
                        }
                    }
                }
            }
        }
        SProp::C08 => {
            let alpha = S_CANCEL | S_DUP | S_EOF | S_FINISH | S_DRAIN | S_DROPCHAN;
            for n in 1..=2usize {
                for rb in [1usize, 2] {
                    for (fl, cap) in sinks {
                        for pol in finish_policies(n) {
                            for route in [Route::Requests, Route::Execute] {
                                let reqs: Vec<ReqCfg> = pol.iter().enumerate().map(|(i, f)| ReqCfg::simple(i as u64 + 1, *f)).collect();
                                let mut c = base(reqs.clone(), None, rb, *fl, *cap, alpha);
                                c.route = route;
                                out.push(c);
                                // scripted id reuse: the same id twice in the script
                                let mut rs = reqs.clone();
                                rs.push(ReqCfg::simple(1, true));
                                let mut c = base(rs, None, rb, *fl, *cap, alpha);
                                c.route = route;
                                out.push(c);
                                // a pipelining peer: request, its cancellation and a reuse of the id,
                                // all sent before the server runs
                                let mut rs = vec![ReqCfg::simple(1, false), ReqCfg::cancel_of(1), ReqCfg::simple(1, pol[0])];
                                if n == 2 {
                                    rs.push(ReqCfg::simple(2, pol[1]));
                                }
                                for burst in [true, false] {
                                    let mut c = base(rs.clone(), None, rb, *fl, *cap, alpha);
                                    c.route = route;
                                    c.burst = burst;
                                    out.push(c);
                                }
                                // duplicates and the clock: a duplicate carrying a shorter
                                // deadline, time passing that deadline, another duplicate - the
                                // request in flight stays the only one (seeded change C08c: the
                                // ignored duplicate left a timer behind that later "expired" the
                                // original, so the next duplicate was offered as a new request)
                                // a handler that has finished while the response buffer and the sink
                                // are full waits for room; its request is cancelled and the id reused
                                // at once: the old response never appears (seeded change C08i took the
                                // wait for room out of the abortable part of `execute`)
                                if n == 1 && rb == 1 && pol[0] && *fl == Flavour::Coupled && *cap == 1 {
                                    for fin_new in [false, true] {
                                        let im = |id: u64| ReqCfg { hk: HKind::Immediate, ..ReqCfg::simple(id, true) };
                                        let rs = vec![im(1), im(2), im(3), ReqCfg::cancel_of(3), ReqCfg::simple(3, fin_new)];
                                        let mut c = base(rs, None, rb, *fl, *cap, alpha);
                                        c.route = route;
                                        c.reuse_after_end = true;
                                        out.push(c);
                                    }
                                }
                                // a request in flight on a connection whose inbound side the peer
                                // has ended (it still reads), the clock passing the deadline, the
                                // handler finishing afterwards (seeded change C08h stopped driving
                                // the timers of a half-closed connection)
                                if n == 1 && rb == 1 && pol[0] {
                                    let rs = vec![ReqCfg { deadline_ms: 50, ..ReqCfg::simple(1, true) }];
                                    let mut c = base(rs, None, rb, *fl, *cap, S_EOF | S_FINISH | S_DRAIN | S_ADVANCE);
                                    c.route = route;
                                    out.push(c);
                                }
                                if n == 1 && rb == 1 {
                                    let rs = vec![
                                        ReqCfg::simple(1, pol[0]),
                                        ReqCfg { deadline_ms: 1, ..ReqCfg::simple(1, false) },
                                        ReqCfg::simple(1, false),
                                    ];
                                    let mut c = base(rs, None, rb, *fl, *cap, alpha | S_ADVANCE);
                                    c.route = route;
                                    out.push(c);
                                }
                            }
                        }
                    }
                }
            }
        }
        SProp::C09 => {}
        SProp::C10 => {
            let alpha = S_EOF | S_FINISH | S_CANCEL | S_DRAIN | S_DROPH | S_ADVANCE;
            // the inbound side has ended and the application gives up the requests still in flight one
            // after the other (every handler dropped after its first poll): each of them wakes the
            // channel, and when the last one has gone the channel ends (seeded change C10i stopped
            // listening for the guards' notices after the first one)
            // a request has been in flight for 25 h on a connection as old, then a request whose
            // deadline is 800 days / 300 days / 10 s away arrives, the peer ends its side, the
            // handlers finish: both are answered, the channel ends, nothing panics (seeded change
            // C10o renewed the aged timer queue while it still held the first request's timer).
            // The clock is NOT stepped in these configurations (no S_ADVANCE): see DESIGN 12.3 on
            // what stepping it by years does to tokio's timer wheel.
            for far in [800i64 * 86_400_000, 300 * 86_400_000, 10_000] {
                for route in [Route::Requests, Route::Execute] {
                    for limit in [None, Some(2)] {
                        let age = 25 * 3_600_000i64;
                        let r0 = ReqCfg { deadline_ms: 3 * 86_400_000, ..ReqCfg::simple(0, true) };
                        let r1 = ReqCfg { deadline_ms: age + far, ..ReqCfg::simple(1, true) };
                        let mut c = base(vec![r0, r1], limit, 1, Flavour::Always, 1, S_EOF | S_DRAIN | S_FINISH);
                        c.route = route;
                        c.start_age_ms = -age;
                        out.push(c);
                    }
                }
            }
            for n in 2..=3usize {
                for route in [Route::Requests, Route::Execute] {
                    let rs: Vec<ReqCfg> = (0..n as u64).map(|i| ReqCfg { hk: HKind::DropAfter(1), ..ReqCfg::simple(i, false) }).collect();
                    let mut c = base(rs, None, 1, Flavour::Always, 1, S_EOF | S_DRAIN);
                    c.route = route;
                    out.push(c);
                }
            }
            for n in 1..=3usize {
                for limit in [None, Some(1)] {
                    for rb in [1usize, 2] {
                        for (fl, cap) in sinks {
                            for pol in finish_policies(n) {
                                if !thorough && n == 3 && (rb == 2 || limit.is_some()) {
                                    continue;
                                }
                                for dl in [10_000i64, 50] {
                                    let reqs: Vec<ReqCfg> = pol
                                        .iter()
                                        .enumerate()
                                        .map(|(i, f)| ReqCfg { deadline_ms: dl, ..ReqCfg::simple(i as u64, *f) })
                                        .collect();
                                    for route in [Route::Requests, Route::Execute] {
                                        if route == Route::Execute && n == 3 && !thorough {
                                            continue;
                                        }
                                        let mut c = base(reqs.clone(), limit, rb, *fl, *cap, alpha);
                                        c.route = route;
                                        out.push(c);
                                    }
                                    if n <= 2 {
                                        let mut rs = reqs.clone();
                                        rs[0].hk = HKind::DropAfter(1);
                                        out.push(base(rs, limit, rb, *fl, *cap, alpha));
                                    }
                                }
                            }
                        }
                    }
                }
            }
        }
        SProp::C11 => {
            let alpha = S_CANCEL | S_FINISH | S_DROPH | S_DRAIN | S_ADVANCE | S_DUP;
            // one write fails (a response that cannot be encoded), the application logs the error
            // and keeps serving: a request that had been read in that very poll and was never
            // yielded must not stay counted (seeded change C11h)
            for op in [Op::Send, Op::Ready, Op::Flush] {
                for k in 1..=2u32 {
                    for rb in [1usize, 2] {
                        let reqs: Vec<ReqCfg> = (0..3u64).map(|i| ReqCfg::simple(i, true)).collect();
                        let mut c = base(reqs, None, rb, Flavour::Always, 1, S_FINISH | S_DRAIN | S_ADVANCE);
                        c.fault = Some(Fault { op, k, sticky: false, eof: false });
                        c.serve_on_after_error = true;
                        out.push(c);
                    }
                }
            }
            for limit in [None, Some(2)] {
                for rb in [1usize, 2] {
                    for (fl, cap) in sinks {
                        for dl in [10_000i64, 50] {
                            for kinds in [
                                [HKind::Run, HKind::Run, HKind::Run],
                                [HKind::DropIfr, HKind::Run, HKind::DropAfter(1)],
                                [HKind::DropAfter(0), HKind::DropIfr, HKind::Run],
                                [HKind::Panic, HKind::Run, HKind::DropAfter(2)],
                            ] {
                                for pol in [[true, true, true], [true, false, true], [false, false, false]] {
                                    if !thorough && rb == 2 && (pol[1] || kinds[0] != HKind::Run) {
                                        continue;
                                    }
                                    if !thorough && kinds[0] == HKind::Panic && pol != [true, false, true] {
                                        continue;
                                    }
                                    // three requests, then their ids reused (slot reuse)
                                    let mut reqs = Vec::new();
                                    for i in 0..6usize {
                                        reqs.push(ReqCfg {
                                            id: (i % 3) as u64,
                                            deadline_ms: dl,
                                            finish: pol[i % 3],
                                            hk: kinds[i % 3],
                                            cancel: false,
                                            at_ms: None,
                                            fails: false,
                                        });
                                    }
                                    if !thorough {
                                        reqs.truncate(4);
                                    }
                                    out.push(base(reqs, limit, rb, *fl, *cap, alpha));
                                }
                            }
                        }
                        // id reuse right after a cancellation (no application-side drops in this
                        // alphabet, DESIGN.md section 7): what is tracked follows the requests,
                        // not the ids
                        if rb == 1 {
                            for (f1, f2) in [(false, false), (true, false), (false, true)] {
                                let rs = vec![ReqCfg::simple(1, false), ReqCfg::cancel_of(1), ReqCfg::simple(1, f1), ReqCfg::simple(2, f2)];
                                // (the tracked count is only observable on the requests() route)
                                for route in [Route::Requests] {
                                    for burst in [false, true] {
                                        let mut c = base(rs.clone(), limit, rb, *fl, *cap, S_CANCEL | S_FINISH | S_DRAIN | S_ADVANCE | S_DUP);
                                        c.route = route;
                                        c.burst = burst;
                                        c.reuse_after_end = true;
                                        out.push(c);
                                    }
                                }
                            }
                        }
                    }
                }
            }
        }
        SProp::C12 => {
            let alpha = S_CANCEL | S_FINISH | S_DRAIN | S_DUP;
            for l in 0..=3usize {
                for (fl, cap) in sinks_c12 {
                    for n in 1..=4usize {
                        if !thorough && n == 4 && l != 2 {
                            continue;
                        }
                        for pol in [vec![true; n], vec![false; n], (0..n).map(|i| i % 2 == 0).collect::<Vec<_>>()] {
                            for rb in [1usize, 2] {
                                if rb == 2 && (n > 2 && !thorough) {
                                    continue;
                                }
                                let reqs: Vec<ReqCfg> = pol.iter().enumerate().map(|(i, f)| ReqCfg::simple(i as u64, *f)).collect();
                                out.push(base(reqs.clone(), Some(l), rb, *fl, *cap, alpha));
                                // the excess request's own deadline has already passed when it
                                // is read: it is still refused, with its one error response
                                // (seeded change C12g let the refusal fall through a "request
                                // has expired, send nothing" filter)
                                if n >= 2 && n <= 3 && rb == 1 {
                                    let mut rs = reqs.clone();
                                    rs[n - 1].deadline_ms = 0;
                                    out.push(base(rs.clone(), Some(l), rb, *fl, *cap, alpha));
                                    rs[n - 1].deadline_ms = -1000;
                                    out.push(base(rs, Some(l), rb, *fl, *cap, alpha));
                                }
                                // the same limit configured on the listener rather than on the
                                // channel (seeded change C12f: the listener adaptor silently
                                // raised a limit of 0 to 1)
                                if n <= 2 && rb == 1 && *cap == 1 {
                                    let mut c = base(reqs.clone(), Some(l), rb, *fl, *cap, alpha);
                                    c.limit_via_incoming = true;
                                    out.push(c);
                                }
                                // the application may also give a request up (drop its handler)
                                if (1..=2).contains(&l) && n <= 3 && rb == 1 && *cap == 1 {
                                    out.push(base(reqs.clone(), Some(l), rb, *fl, *cap, alpha | S_DROPH));
                                }
                                if n <= 3 && rb == 1 {
                                    let mut c = base(reqs, Some(l), rb, *fl, *cap, alpha);
                                    c.route = Route::Execute;
                                    out.push(c);
                                }
                            }
                        }
                    }
                    // a pipelining peer: request, its cancellation and further requests all sent before
                    // the server runs; the application drops the cancelled request's handler without
                    // ever polling it (its guard posts a notice for a request that is already gone): the
                    // limiter still counts what is really in flight (seeded change C12l subtracted the
                    // queued notices from the count)
                    if (1..=2).contains(&l) && *cap == 1 {
                        let mut rs = vec![ReqCfg::simple(0, false), ReqCfg::cancel_of(0)];
                        for i in 1..=(l as u64 + 1) {
                            rs.push(ReqCfg::simple(i, false));
                        }
                        let mut c = base(rs, Some(l), 1, *fl, *cap, alpha | S_DROPH);
                        c.burst = true;
                        out.push(c);
                    }
                    // a handler panics (the executor contains the panic and drops the task, as
                    // tokio::spawn does): its slot is given back like any other (seeded change C12k /
                    // C11k skipped the guard's notice while the thread is unwinding)
                    if (1..=2).contains(&l) && *cap == 1 {
                        for rb in [1usize, 2] {
                            let mut rs: Vec<ReqCfg> = (0..(l as u64 + 2)).map(|i| ReqCfg::simple(i, true)).collect();
                            rs[0].hk = HKind::Panic;
                            out.push(base(rs, Some(l), rb, *fl, *cap, alpha));
                        }
                    }
                    // the write of a refusal fails once (the application logs the error and keeps
                    // serving): the refused request is gone all the same, later requests are admitted
                    // while fewer than L are in flight (seeded change C12j untracked a request only after
                    // its response had been handed to the transport)
                    if (1..=2).contains(&l) && *cap == 1 {
                        for k in 1..=2u32 {
                            let rs: Vec<ReqCfg> = (0..(l as u64 + 2)).map(|i| ReqCfg::simple(i, true)).collect();
                            let mut c = base(rs, Some(l), 1, *fl, *cap, S_FINISH | S_DRAIN);
                            c.fault = Some(Fault { op: Op::Send, k, sticky: false, eof: false });
                            c.serve_on_after_error = true;
                            out.push(c);
                        }
                    }
                    // the application gives up several requests between two polls of the channel (their
                    // handlers dropped at their first poll), then more requests arrive: every slot has
                    // been given back (seeded change C12h bounded the queue of the guards' notices by
                    // the response buffer and lost the ones that did not fit)
                    if l == 2 {
                        for rb in [1usize, 2] {
                            for drops in [2usize, 3] {
                                let mut rs: Vec<ReqCfg> = (0..(drops as u64 + 2)).map(|i| ReqCfg::simple(i, true)).collect();
                                for r in rs.iter_mut().take(drops) {
                                    r.hk = HKind::DropAfter(0);
                                }
                                if drops == 3 && (rb == 1 || !thorough) && *cap != 1 {
                                    continue;
                                }
                                out.push(base(rs, Some(if drops == 3 { 3 } else { l }), rb, *fl, *cap, alpha));
                            }
                        }
                    }
                    // a peer that cancels a request and reuses its id at once, then sends more:
                    // the count must follow the requests, not the ids (seeded change C12c: an
                    // aborted handler's guard untracked the request that had taken over its id).
                    // No application-side handler drops in this alphabet (DESIGN.md section 7).
                    if (1..=2).contains(&l) {
                        for (f1, f2) in [(false, false), (true, false), (false, true), (true, true)] {
                            let mut rs = vec![ReqCfg::simple(1, false), ReqCfg::cancel_of(1), ReqCfg::simple(1, f1), ReqCfg::simple(2, f2)];
                            if l == 2 {
                                rs.push(ReqCfg::simple(3, false));
                            }
                            for route in [Route::Requests, Route::Execute] {
                                for burst in [false, true] {
                                    let mut c = base(rs.clone(), Some(l), 1, *fl, *cap, alpha);
                                    c.route = route;
                                    c.burst = burst;
                                    c.reuse_after_end = true;
                                    out.push(c);
                                }
                            }
                        }
                    }
                }
            }
        }
        SProp::C14 => {
            let alpha = S_CANCEL | S_FINISH | S_DRAIN;
            // fault sequences on the response sink
            for (fl, cap) in [(Flavour::Always, 1usize), (Flavour::Coupled, 1), (Flavour::Indep, 1)] {
                for limit in [None, Some(1)] {
                    for op in [Op::Ready, Op::Send, Op::Flush] {
                        for k in 1..=(if thorough { 6 } else { 4 }) {
                            for sticky in [false, true] {
                                let reqs = (0..2).map(|i| ReqCfg::simple(i as u64, true)).collect();
                                let mut c = base(reqs, limit, 1, fl, cap, alpha);
                                c.fault = Some(Fault { op, k, sticky, eof: false });
                                out.push(c.clone());
                                // the same through execute(): the handler stream ends at the
                                // first transport error and is not polled again (seeded change
                                // C14o kept polling: a response finished later was written to
                                // the transport that had reported the failure)
                                if limit.is_none() && k <= 3 {
                                    c.route = Route::Execute;
                                    out.push(c);
                                }
                            }
                        }
                    }
                }
            }
            for (fl, cap) in [
                (Flavour::Always, 1usize),
                (Flavour::Coupled, 1),
                (Flavour::Coupled, 2),
                (Flavour::Indep, 1),
                (Flavour::Indep, 2),
                (Flavour::FlushFrees, 1),
            ] {
                for limit in [None, Some(0), Some(1), Some(2)] {
                    for n in 1..=3usize {
                        for pol in [vec![true; n], vec![false; n], (0..n).map(|i| i % 2 == 0).collect::<Vec<_>>()] {
                            for rb in [1usize, 2] {
                                if rb == 2 && !thorough && n == 3 {
                                    continue;
                                }
                                let reqs = pol.iter().enumerate().map(|(i, f)| ReqCfg::simple(i as u64, *f)).collect();
                                out.push(base(reqs, limit, rb, fl, cap, alpha));
                            }
                        }
                    }
                }
            }
        }
    }
    if prop == SProp::C14 {
        // the same sinks behind the per-key channel limiter's wrapper (`max_channels_per_key`),
        // with and without a request limit on top (seeded change C14m made the wrapper's
        // poll_ready answer with its flush)
        for (fl, cap) in [(Flavour::Coupled, 1usize), (Flavour::Indep, 1), (Flavour::Indep, 2), (Flavour::FlushFrees, 1)] {
            for limit in [None, Some(1)] {
                for n in 2..=3usize {
                    for rb in [1usize, 2] {
                        let reqs = (0..n).map(|i| ReqCfg::simple(i as u64, true)).collect();
                        let mut c = base(reqs, limit, rb, fl, cap, S_CANCEL | S_FINISH | S_DRAIN);
                        c.route = Route::Execute;
                        c.via_key_limit = true;
                        out.push(c);
                    }
                }
            }
        }
    }
    if prop == SProp::C08 {
        for c in out.iter_mut() {
            c.reuse_after_end = true;
        }
    }
    if prop == SProp::C06 {
        for c in out.iter_mut() {
            c.dup_deadline_ms = 1; // duplicates carry a shorter deadline than the original
        }
    }
    out
}
