//! Shared execution log, flag wakers and the harness-owned transport (DESIGN.md §3.2, §3.4).

use futures::{Sink, Stream};
use std::cell::{Cell, RefCell};
use std::collections::VecDeque;
use std::io;
use std::pin::Pin;
use std::rc::Rc;
use std::sync::atomic::{AtomicBool, AtomicUsize, Ordering};
use std::sync::Arc;
use std::task::{Context, Poll, Wake, Waker};
use std::time::Instant;
use tarpc::{ClientMessage, Response};

/// developer aid: record the option list of every step (MC_SHOW_OPTIONS), looked up once
pub fn show_options() -> bool {
    static SHOW: std::sync::OnceLock<bool> = std::sync::OnceLock::new();
    *SHOW.get_or_init(|| std::env::var_os("MC_SHOW_OPTIONS").is_some())
}

// ---------------------------------------------------------------------------------------------
// wakers

pub struct Flag {
    pub woken: AtomicBool,
    pub wakes: AtomicUsize,
    /// generation of the waker handed to the task's most recent poll
    pub gen: AtomicUsize,
    /// wake-ups delivered to a waker of an earlier poll (not a wake-up of the task: `Future::poll`
    /// obliges a future to wake the waker of its MOST RECENT poll; an executor that moves a
    /// task - `select!` then `spawn`, `FuturesUnordered`, a hand-written join - gives it a new one)
    pub stale_wakes: AtomicUsize,
}
/// The waker of one poll of one task.
struct GenWaker {
    flag: Arc<Flag>,
    gen: usize,
}
impl Wake for GenWaker {
    fn wake(self: Arc<Self>) {
        self.wake_by_ref()
    }
    fn wake_by_ref(self: &Arc<Self>) {
        if self.flag.gen.load(Ordering::SeqCst) == self.gen {
            self.flag.woken.store(true, Ordering::SeqCst);
            self.flag.wakes.fetch_add(1, Ordering::SeqCst);
        } else {
            self.flag.stale_wakes.fetch_add(1, Ordering::SeqCst);
        }
    }
}
impl Flag {
    pub fn new(woken: bool) -> Arc<Flag> {
        Arc::new(Flag {
            woken: AtomicBool::new(woken),
            wakes: AtomicUsize::new(0),
            gen: AtomicUsize::new(0),
            stale_wakes: AtomicUsize::new(0),
        })
    }
    /// A new waker for the poll that is about to start; the wakers of earlier polls stop counting.
    pub fn fresh_waker(self: &Arc<Self>) -> Waker {
        static SAME: std::sync::OnceLock<bool> = std::sync::OnceLock::new();
        if *SAME.get_or_init(|| std::env::var_os("MC_SAME_WAKER").is_some()) {
            return Waker::from(self.clone());
        }
        let gen = self.gen.fetch_add(1, Ordering::SeqCst) + 1;
        Waker::from(Arc::new(GenWaker { flag: self.clone(), gen }))
    }
    pub fn is_set(&self) -> bool {
        self.woken.load(Ordering::SeqCst)
    }
    pub fn clear(&self) {
        self.woken.store(false, Ordering::SeqCst)
    }
    pub fn set(&self) {
        self.woken.store(true, Ordering::SeqCst)
    }
}
impl Wake for Flag {
    fn wake(self: Arc<Self>) {
        self.wake_by_ref()
    }
    fn wake_by_ref(self: &Arc<Self>) {
        self.woken.store(true, Ordering::SeqCst);
        self.wakes.fetch_add(1, Ordering::SeqCst);
    }
}

// ---------------------------------------------------------------------------------------------
// messages as the oracles see them

/// Equality and hashing ignore `sid`: span ids are random (`rand::thread_rng`) and not
/// control-relevant; oracles that care about them compare the fields explicitly.
#[derive(Clone, Debug, Eq, serde::Serialize)]
pub enum Msg {
    Req {
        id: u64,
        payload: u32,
        /// deadline relative to the start of the execution, in ns (negative = already past)
        deadline_ns: i128,
        tid: u128,
        sid: u64,
        sampled: bool,
    },
    Cancel {
        id: u64,
        tid: u128,
        sid: u64,
        sampled: bool,
    },
    Resp {
        id: u64,
        body: Result<u32, (String, String)>,
    },
}

impl Msg {
    fn canon(&self) -> Msg {
        let mut m = self.clone();
        match &mut m {
            Msg::Req { sid, .. } | Msg::Cancel { sid, .. } => *sid = 0,
            _ => {}
        }
        m
    }
    fn key(&self) -> (u8, u64, u32, i128, u128, bool, Option<Result<u32, (String, String)>>) {
        match self.canon() {
            Msg::Req { id, payload, deadline_ns, tid, sampled, .. } => (0, id, payload, deadline_ns, tid, sampled, None),
            Msg::Cancel { id, tid, sampled, .. } => (1, id, 0, 0, tid, sampled, None),
            Msg::Resp { id, body } => (2, id, 0, 0, 0, false, Some(body)),
        }
    }
    pub fn id(&self) -> u64 {
        match self {
            Msg::Req { id, .. } | Msg::Cancel { id, .. } | Msg::Resp { id, .. } => *id,
        }
    }
}

impl PartialEq for Msg {
    fn eq(&self, o: &Msg) -> bool {
        self.key() == o.key()
    }
}
impl std::hash::Hash for Msg {
    fn hash<H: std::hash::Hasher>(&self, h: &mut H) {
        self.key().hash(h)
    }
}

pub fn rel_ns(t0: Instant, t: Instant) -> i128 {
    match t.checked_duration_since(t0) {
        Some(d) => d.as_nanos() as i128,
        None => -(t0.duration_since(t).as_nanos() as i128),
    }
}

pub trait ToMsg {
    fn to_msg(&self, t0: Instant) -> Msg;
}

impl ToMsg for ClientMessage<u32> {
    fn to_msg(&self, t0: Instant) -> Msg {
        match self {
            ClientMessage::Request(r) => Msg::Req {
                id: r.id,
                payload: r.message,
                deadline_ns: rel_ns(t0, r.context.deadline),
                tid: u128::from(r.context.trace_context.trace_id),
                sid: u64::from(r.context.trace_context.span_id),
                sampled: r.context.trace_context.sampling_decision
                    == tarpc::trace::SamplingDecision::Sampled,
            },
            ClientMessage::Cancel {
                trace_context,
                request_id,
            } => Msg::Cancel {
                id: *request_id,
                tid: u128::from(trace_context.trace_id),
                sid: u64::from(trace_context.span_id),
                sampled: trace_context.sampling_decision
                    == tarpc::trace::SamplingDecision::Sampled,
            },
            _ => unreachable!("non_exhaustive"),
        }
    }
}

impl ToMsg for Response<u32> {
    fn to_msg(&self, _t0: Instant) -> Msg {
        Msg::Resp {
            id: self.request_id,
            body: match &self.message {
                Ok(v) => Ok(*v),
                Err(e) => Err((format!("{:?}", e.kind), e.detail.clone())),
            },
        }
    }
}

// ---------------------------------------------------------------------------------------------
// log

#[derive(Clone, Copy, Debug, PartialEq, Eq, Hash, serde::Serialize, serde::Deserialize)]
pub enum Op {
    Ready,
    Send,
    Flush,
    Close,
    Next,
}
pub const OPS: [Op; 5] = [Op::Ready, Op::Send, Op::Flush, Op::Close, Op::Next];

#[derive(Clone, Copy, Debug, PartialEq, Eq, Hash, serde::Serialize)]
pub enum Res {
    Ok,
    Pending,
    Err,
    Item,
    Eof,
}

/// Identifies a schedulable task: (kind, index).
#[derive(Clone, Copy, Debug, PartialEq, Eq, Hash, serde::Serialize)]
pub enum Task {
    None,
    Caller(usize),
    Dispatch(usize),
    Stream(usize),
    Handler(usize),
    Listener,
}

#[derive(Clone, Debug, PartialEq, Eq, Hash, serde::Serialize)]
pub enum Rec {
    /// an event chosen by the explorer (rendered text) at a step
    Ev(String),
    /// a subject task was polled; the transport calls made inside follow until PollEnd
    PollStart(Task),
    PollEnd(Task, bool),
    /// a transport method call and its result
    T {
        side: u8,
        op: Op,
        res: Res,
        msg: Option<Msg>,
        task: Task,
        poll: u32,
    },
    /// the peer of transport `side` received an item (on drain / immediately)
    PeerSaw { side: u8, msg: Msg },
    /// harness-specific structured record (name, numbers)
    N(&'static str, Vec<i128>),
    /// harness-specific structured record with a message
    M(&'static str, Msg),
    /// free text (outcomes etc.)
    S(&'static str, String),
}

pub struct Log {
    pub recs: RefCell<Vec<Rec>>,
    pub t0: Instant,
    pub cur_task: Cell<Task>,
    pub poll_seq: Cell<u32>,
    pub steps: Cell<u32>,
    /// number of choice points consumed so far (maintained by the world)
    pub choice_pos: Cell<u32>,
}

impl Log {
    pub fn new() -> Rc<Log> {
        Rc::new(Log {
            recs: RefCell::new(Vec::with_capacity(256)),
            t0: tokio::time::Instant::now().into_std(),
            cur_task: Cell::new(Task::None),
            poll_seq: Cell::new(0),
            steps: Cell::new(0),
            choice_pos: Cell::new(0),
        })
    }
    pub fn push(&self, r: Rec) {
        self.recs.borrow_mut().push(r);
    }
    pub fn now_ns(&self) -> i128 {
        rel_ns(self.t0, tokio::time::Instant::now().into_std())
    }
    pub fn begin_poll(&self, t: Task) -> Task {
        let prev = self.cur_task.replace(t);
        self.poll_seq.set(self.poll_seq.get() + 1);
        self.push(Rec::PollStart(t));
        prev
    }
    pub fn end_poll(&self, t: Task, prev: Task, ready: bool) {
        self.push(Rec::PollEnd(t, ready));
        self.cur_task.set(prev);
        // a nested (parked) poll must not share the poll id of the poll it interrupts
        self.poll_seq.set(self.poll_seq.get() + 1);
    }
}

// ---------------------------------------------------------------------------------------------
// transport

#[derive(Clone, Copy, Debug, PartialEq, Eq, Hash, serde::Serialize, serde::Deserialize)]
pub enum Flavour {
    /// never blocks, nothing to flush
    Always,
    /// socket-like (a framed byte stream): written items sit in the transport's buffer and are
    /// put on the medium only once a flush has been asked for - by poll_flush, poll_close, or by
    /// poll_ready finding the buffer full (tokio-util's Framed flushes there itself); not ready
    /// iff the buffer is full; the flush stays pending until the environment drains
    Coupled,
    /// bounded-queue-like: flush always completes; not ready iff buffer full
    Indep,
    /// own write buffer over an always-writable medium: not ready iff the buffer is full, and
    /// poll_flush itself empties the buffer and completes. A task that was told "not ready" is
    /// woken when the capacity returns, also when its own flush call freed it (the Sink contract:
    /// poll_ready -> Pending registers the task to be notified when it should be called again).
    FlushFrees,
    /// socket-like, closer to a real framed socket than `Coupled`: bytes move only INSIDE a call
    /// of poll_flush / poll_close / poll_ready-on-a-full-buffer. When such a call cannot finish
    /// it registers the task; the environment's "the medium is writable again" only wakes that
    /// task and grants credit - the task has to call again for anything to be transmitted.
    Socket,
}

#[derive(Clone, Copy, Debug, PartialEq, Eq, Hash, serde::Serialize, serde::Deserialize)]
pub struct Fault {
    pub op: Op,
    /// 1-based index of the call of `op` that fails
    pub k: u32,
    pub sticky: bool,
    /// for Op::Next: report end-of-stream instead of an error
    #[serde(default)]
    pub eof: bool,
}

pub enum InItem<I> {
    Item(I),
    Err,
    Eof,
}

pub struct Core<I> {
    pub side: u8,
    pub flavour: Flavour,
    pub cap: usize,
    pub buf: VecDeque<Msg>,
    /// Coupled: how many items at the front of `buf` a flush has been requested for
    pub flush_requested: usize,
    /// Flavour::Socket: how many buffered items the medium will take at the next flushing call
    pub credits: usize,
    pub delivered: Vec<Msg>,
    pub wire: Vec<Msg>,
    pub inbox: VecDeque<InItem<I>>,
    pub eof_read: bool,
    pub rw: Option<Waker>,
    pub ww: Option<Waker>,
    pub closed: bool,
    pub dropped: bool,
    pub fault: Option<Fault>,
    pub counts: [u32; 5],
    pub fault_fired: u32,
    pub spin_poll: u32,
    pub spin_count: u32,
    pub calls_poll: u32,
    pub calls_in_poll: u32,
    /// called at the start of `start_send`, before anything is recorded: another thread may run here
    pub op_hook: Option<Rc<dyn Fn(&'static str)>>,
    /// (op, number of choice points consumed when the call was made) for every call
    pub call_pos: Vec<(Op, u32)>,
    pub log: Rc<Log>,
}

pub struct SpinGuard;

impl<I> Core<I> {
    pub fn new(side: u8, flavour: Flavour, cap: usize, fault: Option<Fault>, log: Rc<Log>) -> Self {
        Core {
            side,
            flavour,
            cap,
            buf: VecDeque::new(),
            flush_requested: 0,
            credits: 0,
            delivered: Vec::new(),
            wire: Vec::new(),
            inbox: VecDeque::new(),
            eof_read: false,
            rw: None,
            ww: None,
            closed: false,
            dropped: false,
            fault,
            counts: [0; 5],
            fault_fired: 0,
            spin_poll: 0,
            spin_count: 0,
            calls_poll: u32::MAX,
            calls_in_poll: 0,
            op_hook: None,
            call_pos: Vec::new(),
            log,
        }
    }
    fn rec(&self, op: Op, res: Res, msg: Option<Msg>) {
        self.log.push(Rec::T {
            side: self.side,
            op,
            res,
            msg,
            task: self.log.cur_task.get(),
            poll: self.log.poll_seq.get(),
        });
    }
    fn faulty(&mut self, op: Op) -> bool {
        // an unbounded loop over the transport inside ONE poll (of any operation, whatever it
        // answers) becomes a finite observation instead of eating the machine
        let p = self.log.poll_seq.get();
        if self.calls_poll == p {
            self.calls_in_poll += 1;
            if self.calls_in_poll > 400_000 {
                self.calls_in_poll = 0;
                std::panic::panic_any(SpinGuard);
            }
        } else {
            self.calls_poll = p;
            self.calls_in_poll = 1;
        }
        let idx = OPS.iter().position(|o| *o == op).unwrap();
        self.counts[idx] += 1;
        self.call_pos.push((op, self.log.choice_pos.get()));
        if let Some(f) = self.fault {
            if f.op == op && (self.counts[idx] == f.k || (f.sticky && self.counts[idx] > f.k)) {
                self.fault_fired += 1;
                return true;
            }
        }
        false
    }
    /// environment: push an inbound item and wake the reader
    pub fn push_in(&mut self, it: InItem<I>) {
        self.inbox.push_back(it);
        if let Some(w) = self.rw.take() {
            w.wake();
        }
    }
    /// environment: a spurious wake of the reader
    pub fn wake_reader(&mut self) {
        if let Some(w) = self.rw.take() {
            w.wake();
        }
    }
    /// environment: the medium drains the write buffer
    pub fn drain(&mut self) -> usize {
        if self.flavour == Flavour::Socket {
            // writable again: the waiting task is woken and has to call again
            let n = self.flush_requested.min(self.buf.len());
            self.flush_requested = 0;
            self.credits = n;
            if let Some(w) = self.ww.take() {
                w.wake();
            }
            return n;
        }
        // a socket-like transport only transmits what it was asked to flush
        let n = if self.flavour == Flavour::Coupled { self.flush_requested.min(self.buf.len()) } else { self.buf.len() };
        self.flush_requested = 0;
        for _ in 0..n {
            let m = self.buf.pop_front().unwrap();
            self.log.push(Rec::PeerSaw {
                side: self.side,
                msg: m.clone(),
            });
            self.delivered.push(m);
        }
        if let Some(w) = self.ww.take() {
            w.wake();
        }
        n
    }
    /// the transport's own flush moves everything buffered to the peer
    fn flush_out(&mut self) {
        let was_full = self.buf.len() >= self.cap;
        while let Some(m) = self.buf.pop_front() {
            self.log.push(Rec::PeerSaw {
                side: self.side,
                msg: m.clone(),
            });
            self.delivered.push(m);
        }
        if was_full {
            if let Some(w) = self.ww.take() {
                w.wake();
            }
        }
    }
    /// Flavour::Socket: a flushing call transmits what the medium takes right now
    fn push_credited(&mut self) {
        while self.credits > 0 && !self.buf.is_empty() {
            self.credits -= 1;
            let m = self.buf.pop_front().unwrap();
            self.log.push(Rec::PeerSaw {
                side: self.side,
                msg: m.clone(),
            });
            self.delivered.push(m);
        }
        if self.buf.is_empty() {
            self.credits = 0;
        }
    }
    pub fn blocked(&self) -> bool {
        if self.flavour == Flavour::Socket {
            self.flush_requested > 0 && !self.buf.is_empty() && self.credits == 0
        } else if self.flavour == Flavour::Coupled {
            self.flush_requested > 0 && !self.buf.is_empty()
        } else if self.flavour == Flavour::FlushFrees {
            // only the transport's own flush moves data
            false
        } else {
            !self.buf.is_empty()
        }
    }
}

pub struct MockTransport<S, I> {
    pub core: Rc<RefCell<Core<I>>>,
    _p: std::marker::PhantomData<fn(S)>,
}

impl<S, I> MockTransport<S, I> {
    pub fn new(core: Rc<RefCell<Core<I>>>) -> Self {
        MockTransport {
            core,
            _p: std::marker::PhantomData,
        }
    }
}

impl<S, I> Drop for MockTransport<S, I> {
    fn drop(&mut self) {
        // items still buffered when the transport is dropped are lost (never reach the peer)
        if let Ok(mut c) = self.core.try_borrow_mut() {
            c.dropped = true;
        }
    }
}

fn mkerr(what: &str) -> io::Error {
    io::Error::new(io::ErrorKind::Other, format!("injected fault: {what}"))
}

impl<S, I: ToMsg> Stream for MockTransport<S, I> {
    type Item = Result<I, io::Error>;
    fn poll_next(self: Pin<&mut Self>, cx: &mut Context<'_>) -> Poll<Option<Self::Item>> {
        let mut c = self.core.borrow_mut();
        if c.eof_read {
            // The Stream contract leaves polling past the end unspecified ("may panic, block
            // forever, or cause other kinds of problems"); this transport takes the first option,
            // as futures::stream::unfold does. tarpc fuses its transports, so it never gets here
            // (seeded changes C09m / C10m removed the fuse on the server).
            drop(c);
            panic!("transport stream polled again after it returned Poll::Ready(None)");
        }
        if c.faulty(Op::Next) {
            if c.fault.map(|f| f.eof).unwrap_or(false) {
                c.eof_read = true;
                c.inbox.clear();
                c.inbox.push_front(InItem::Eof);
                c.rec(Op::Next, Res::Eof, None);
                return Poll::Ready(None);
            }
            c.rec(Op::Next, Res::Err, None);
            return Poll::Ready(Some(Err(mkerr("poll_next"))));
        }
        match c.inbox.pop_front() {
            Some(InItem::Item(i)) => {
                let m = i.to_msg(c.log.t0);
                c.rec(Op::Next, Res::Item, Some(m));
                Poll::Ready(Some(Ok(i)))
            }
            Some(InItem::Err) => {
                c.rec(Op::Next, Res::Err, None);
                Poll::Ready(Some(Err(mkerr("peer read error"))))
            }
            Some(InItem::Eof) => {
                c.eof_read = true;
                // stay at eof
                c.inbox.push_front(InItem::Eof);
                c.rec(Op::Next, Res::Eof, None);
                Poll::Ready(None)
            }
            None => {
                c.rw = Some(cx.waker().clone());
                c.rec(Op::Next, Res::Pending, None);
                Poll::Pending
            }
        }
    }
}

impl<S: ToMsg, I> Sink<S> for MockTransport<S, I> {
    type Error = io::Error;

    fn poll_ready(self: Pin<&mut Self>, cx: &mut Context<'_>) -> Poll<Result<(), io::Error>> {
        let mut c = self.core.borrow_mut();
        if c.faulty(Op::Ready) {
            c.rec(Op::Ready, Res::Err, None);
            return Poll::Ready(Err(mkerr("poll_ready")));
        }
        if c.flavour == Flavour::Socket && c.buf.len() >= c.cap {
            c.push_credited();
        }
        let full = match c.flavour {
            Flavour::Always => false,
            _ => c.buf.len() >= c.cap,
        };
        if full {
            c.flush_requested = c.buf.len();
            c.ww = Some(cx.waker().clone());
            c.rec(Op::Ready, Res::Pending, None);
            // spin guard: an unbounded retry loop inside one poll becomes a finite observation
            let p = c.log.poll_seq.get();
            if c.spin_poll == p {
                c.spin_count += 1;
                if c.spin_count > 1000 {
                    drop(c);
                    std::panic::panic_any(SpinGuard);
                }
            } else {
                c.spin_poll = p;
                c.spin_count = 1;
            }
            Poll::Pending
        } else {
            c.rec(Op::Ready, Res::Ok, None);
            Poll::Ready(Ok(()))
        }
    }

    fn start_send(self: Pin<&mut Self>, item: S) -> Result<(), io::Error> {
        let hook = self.core.borrow().op_hook.clone();
        if let Some(h) = hook {
            h("transport:start_send");
        }
        let mut c = self.core.borrow_mut();
        let m = item.to_msg(c.log.t0);
        if c.faulty(Op::Send) {
            c.rec(Op::Send, Res::Err, Some(m));
            return Err(mkerr("start_send"));
        }
        // a bounded medium rejects an item it has no room for (tarpc never gets here if it
        // honours poll_ready; sinks such as futures' bounded channel or PollSender behave so)
        if c.flavour != Flavour::Always && c.buf.len() >= c.cap {
            c.rec(Op::Send, Res::Err, Some(m));
            return Err(io::Error::new(
                io::ErrorKind::Other,
                "start_send called on a sink that is not ready",
            ));
        }
        c.rec(Op::Send, Res::Ok, Some(m.clone()));
        c.wire.push(m.clone());
        match c.flavour {
            Flavour::Always => {
                let side = c.side;
                c.log.push(Rec::PeerSaw {
                    side,
                    msg: m.clone(),
                });
                c.delivered.push(m);
            }
            _ => c.buf.push_back(m),
        }
        Ok(())
    }

    fn poll_flush(self: Pin<&mut Self>, cx: &mut Context<'_>) -> Poll<Result<(), io::Error>> {
        let mut c = self.core.borrow_mut();
        if c.faulty(Op::Flush) {
            c.rec(Op::Flush, Res::Err, None);
            return Poll::Ready(Err(mkerr("poll_flush")));
        }
        if c.flavour == Flavour::Socket {
            c.push_credited();
        }
        if matches!(c.flavour, Flavour::Coupled | Flavour::Socket) && !c.buf.is_empty() {
            c.flush_requested = c.buf.len();
            c.ww = Some(cx.waker().clone());
            c.rec(Op::Flush, Res::Pending, None);
            Poll::Pending
        } else {
            if c.flavour == Flavour::FlushFrees {
                c.flush_out();
            }
            c.rec(Op::Flush, Res::Ok, None);
            Poll::Ready(Ok(()))
        }
    }

    fn poll_close(self: Pin<&mut Self>, cx: &mut Context<'_>) -> Poll<Result<(), io::Error>> {
        let mut c = self.core.borrow_mut();
        if c.faulty(Op::Close) {
            c.rec(Op::Close, Res::Err, None);
            return Poll::Ready(Err(mkerr("poll_close")));
        }
        if c.flavour == Flavour::Socket {
            c.push_credited();
        }
        if matches!(c.flavour, Flavour::Coupled | Flavour::Socket) && !c.buf.is_empty() {
            c.flush_requested = c.buf.len();
            c.ww = Some(cx.waker().clone());
            c.rec(Op::Close, Res::Pending, None);
            Poll::Pending
        } else {
            if c.flavour == Flavour::FlushFrees {
                c.flush_out();
            }
            c.closed = true;
            c.rec(Op::Close, Res::Ok, None);
            Poll::Ready(Ok(()))
        }
    }
}

// ---------------------------------------------------------------------------------------------
// panic capture

thread_local! {
    pub static LAST_PANIC: RefCell<Option<String>> = const { RefCell::new(None) };
}

pub fn install_quiet_panic_hook() {
    std::panic::set_hook(Box::new(|info| {
        let msg = if let Some(s) = info.payload().downcast_ref::<&str>() {
            s.to_string()
        } else if let Some(s) = info.payload().downcast_ref::<String>() {
            s.clone()
        } else if info.payload().downcast_ref::<SpinGuard>().is_some() {
            "SPINGUARD".to_string()
        } else {
            "non-string panic".to_string()
        };
        let loc = info
            .location()
            .map(|l| format!("{}:{}", l.file(), l.line()))
            .unwrap_or_default();
        LAST_PANIC.with(|p| *p.borrow_mut() = Some(format!("{msg} @ {loc}")));
    }));
}

pub fn take_panic() -> String {
    LAST_PANIC
        .with(|p| p.borrow_mut().take())
        .unwrap_or_else(|| "unknown panic".into())
}
