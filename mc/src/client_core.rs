//! `client_core`: the real `tarpc::client::new` dispatch + callers over a harness-owned transport;
//! the harness plays the peer, the medium, the clock and the scheduler (DESIGN.md §3, §5).

use crate::explore::{Chooser, Point, RunOut};
use crate::mock::*;
use futures::Future;
use serde::{Deserialize, Serialize};
use std::cell::{Cell, RefCell};
use std::collections::{BTreeMap, BTreeSet};
use std::hash::{Hash, Hasher};
use std::panic::{catch_unwind, AssertUnwindSafe};
use std::pin::Pin;
use std::rc::{Rc, Weak};
use std::sync::Arc;
use std::task::{Context, Poll, Waker};
use std::time::Duration;
use tarpc::client::{self, RequestDispatch, RpcError};
use tarpc::{context, ChannelError, ClientMessage, Response, ServerError};

pub const A_REPLY_UNOWED: u32 = 1 << 0;
pub const A_DUP: u32 = 1 << 1;
pub const A_UNKNOWN: u32 = 1 << 2;
pub const A_EOF: u32 = 1 << 3;
pub const A_RERR: u32 = 1 << 4;
pub const A_ABANDON: u32 = 1 << 5;
pub const A_PARK: u32 = 1 << 6;
pub const A_DROPDISPATCH: u32 = 1 << 7;
pub const A_DRAIN: u32 = 1 << 8;
pub const A_ADVANCE: u32 = 1 << 9;
pub const A_DROPROOT: u32 = 1 << 10;
pub const A_PARKPOLL: u32 = 1 << 11;
pub const A_REORDER: u32 = 1 << 12;
/// another thread may run while the dispatch is inside the transport's `start_send`
pub const A_PARKSEND: u32 = 1 << 13;

pub type MT = MockTransport<ClientMessage<u32>, Response<u32>>;
type CallFut = Pin<Box<dyn Future<Output = Result<u32, RpcError>>>>;

#[derive(Clone, Copy, Debug, PartialEq, Eq, Hash, Serialize, Deserialize)]
pub enum Script {
    Await,
    /// the application drops the call future once it has been polled k times and is pending
    /// (k = 0: before its first poll)
    AbandonAfter(u32),
    /// the application drops the call future once its request has been written to the transport
    AbandonOnceSent,
}

#[derive(Clone, Copy, Debug, PartialEq, Eq, Hash, Serialize, Deserialize)]
pub enum Handle {
    Own,
    Shared,
    CloneOfClone,
    /// the original handle itself (not a clone of it)
    Root,
    /// a clone of the original handle that has itself been cloned (to `Grand`)
    Middle,
    /// the clone of `Middle`
    Grand,
}

#[derive(Clone, Debug, PartialEq, Eq, Hash, Serialize, Deserialize)]
pub struct CallerCfg {
    /// deadline relative to the start of the run, in ms (<= 0: already expired)
    pub deadline_ms: i64,
    pub script: Script,
    pub handle: Handle,
    /// peer policy: does the peer answer this call unprompted
    pub answered: bool,
    /// peer answers with a ServerError instead of a body
    pub reply_err: bool,
    /// start only after this caller has resolved or been dropped
    pub after: Option<usize>,
    pub sampled: bool,
}

impl CallerCfg {
    pub fn simple(answered: bool) -> Self {
        CallerCfg {
            deadline_ms: 10_000,
            script: Script::Await,
            handle: Handle::Own,
            answered,
            reply_err: false,
            after: None,
            sampled: false,
        }
    }
}

#[derive(Clone, Debug, PartialEq, Eq, Hash, Serialize, Deserialize)]
pub struct CCfg {
    pub callers: Vec<CallerCfg>,
    pub max_in_flight: usize,
    pub buffer: usize,
    pub flavour: Flavour,
    pub cap: usize,
    pub alphabet: u32,
    pub fault: Option<Fault>,
    pub keep_root: bool,
    /// the connection has been open (and idle) for this long before the first call is made;
    /// the callers' deadlines are still given relative to the start of the run
    #[serde(default)]
    pub start_age_ms: i64,
    /// abandoned calls are dropped while their thread is unwinding (the task that owns the call
    /// panicked; tokio drops a panicking task's future from a guard inside its catch_unwind)
    #[serde(default)]
    pub abandon_by_unwind: bool,
}

#[derive(Clone, Debug, PartialEq, Eq, Hash)]
pub enum Outcome {
    Ok(u32),
    Server(String),
    Deadline,
    Shutdown,
    Send,
    Channel(String),
}

/// The trace id caller `idx` supplies: distinct per caller; the second caller uses the all-zero
/// id (what an untraced process sends) and the third the largest one.
pub fn caller_tid(idx: usize) -> u128 {
    match idx {
        1 => 0,
        2 => u128::MAX,
        i => 100 + i as u128,
    }
}

fn outcome_of(r: Result<u32, RpcError>) -> Outcome {
    match r {
        Ok(v) => Outcome::Ok(v),
        Err(RpcError::Server(e)) => Outcome::Server(e.detail),
        Err(RpcError::DeadlineExceeded) => Outcome::Deadline,
        Err(RpcError::Shutdown) => Outcome::Shutdown,
        Err(RpcError::Send(_)) => Outcome::Send,
        Err(RpcError::Channel(c)) => Outcome::Channel(chan_kind(&c).to_string()),
    }
}

pub fn chan_kind<E: ?Sized>(c: &ChannelError<E>) -> &'static str {
    match c {
        ChannelError::Read(_) => "Read",
        ChannelError::Ready(_) => "Ready",
        ChannelError::Write(_) => "Write",
        ChannelError::Flush(_) => "Flush",
        ChannelError::Close(_) => "Close",
    }
}

#[derive(Clone, Copy, Debug, PartialEq, Eq, Hash)]
enum CS {
    Waiting, // not yet eligible (sequential)
    Running,
    Done,
    Abandoned,
}

struct CallerSt {
    fut: Option<CallFut>,
    flag: Arc<Flag>,
    waker: Waker,
    polls: u32,
    status: CS,
}

#[derive(Clone, Debug, PartialEq)]
enum Ev {
    ScriptAbandon(usize),
    Start(usize),
    PollCaller(usize),
    PollDispatch,
    Reply(u64),
    ReplyDup(u64),
    ReplyUnknown(u64),
    /// an unsolicited reply bearing the id the client will hand out NEXT (ids are sequential)
    ReplyFuture(u64),
    PeerEof,
    PeerErr,
    Abandon(usize),
    DropDispatch,
    Drain,
    Advance(i64),
    DropRoot,
    Stop,
}

struct St {
    callers: Vec<CallerSt>,
    dispatch: Option<Pin<Box<RequestDispatch<u32, u32, MT>>>>,
    dflag: Arc<Flag>,
    dwaker: Waker,
    d_done: bool,
    root: Option<Rc<client::Channel<u32, u32>>>,
    next_tok: u32,
    replied: BTreeMap<u64, u32>,
    dup_sent: BTreeSet<u64>,
    unknown_sent: [bool; 5],
    future_sent: bool,
    eof_sent: bool,
    err_sent: bool,
    park_depth: u32,
    park_armed: bool,
    dead: bool, // a panic or horizon ended the execution
    stray_seen: u32,
}

pub struct World {
    q0_done: Cell<bool>,
    cfg: CCfg,
    log: Rc<Log>,
    st: RefCell<St>,
    ch: RefCell<Chooser>,
    core: Rc<RefCell<Core<Response<u32>>>>,
    /// differential rerun: the n-th stray reply is replaced by a spurious wake of the reader
    suppress_stray: Option<u32>,
    free: Cell<bool>,
    pending_advance: Cell<Option<i64>>,
    state_hashes: RefCell<Vec<u64>>,
}

const HORIZON: u32 = 2000;
/// ids no call ever used: a small one, the largest, and ids that agree with the first calls' ids
/// (0, 1) in their low 32 bits / all bits but the top one
const UNKNOWN_IDS: [u64; 5] = [99, u64::MAX, 1 << 32, (1 << 32) + 1, 1 << 63];

fn mk_ctx(log: &Log, deadline_ms: i64, idx: usize, sampled: bool) -> context::Context {
    let mut ctx = context::current();
    ctx.deadline = if deadline_ms >= 0 {
        log.t0 + Duration::from_millis(deadline_ms as u64)
    } else {
        log.t0
            .checked_sub(Duration::from_millis((-deadline_ms) as u64))
            .unwrap_or(log.t0)
    };
    ctx.trace_context.trace_id = tarpc::trace::TraceId::from(caller_tid(idx));
    ctx.trace_context.span_id = tarpc::trace::SpanId::from(7000u64 + idx as u64);
    ctx.trace_context.sampling_decision = if sampled {
        tarpc::trace::SamplingDecision::Sampled
    } else {
        tarpc::trace::SamplingDecision::Unsampled
    };
    ctx
}

impl World {
    fn new(cfg: &CCfg, prefix: &[u16], suppress_stray: Option<u32>) -> Rc<World> {
        let log = Log::new();
        let core = Rc::new(RefCell::new(Core::new(
            0,
            cfg.flavour,
            cfg.cap,
            cfg.fault,
            log.clone(),
        )));
        let mut ccfg = client::Config::default();
        ccfg.max_in_flight_requests = cfg.max_in_flight;
        ccfg.pending_request_buffer = cfg.buffer;
        let nc = client::new::<u32, u32, MT>(ccfg, MockTransport::new(core.clone()));
        let root = Rc::new(nc.client);
        let shared = Rc::new((*root).clone());
        // a chain of handles: root -> middle -> grand (only built when some caller uses it)
        let chain = cfg.callers.iter().any(|c| matches!(c.handle, Handle::Middle | Handle::Grand));
        let middle = if chain { Some(Rc::new((*root).clone())) } else { None };
        let grand = middle.as_ref().map(|m| Rc::new((**m).clone()));
        let mut callers = Vec::new();
        for (i, c) in cfg.callers.iter().enumerate() {
            let ctx = mk_ctx(&log, c.deadline_ms, i, c.sampled);
            let payload = i as u32;
            let fut: CallFut = match c.handle {
                Handle::Own => {
                    // through the `Stub` trait, as the generated clients and the retry / load
                    // balancing stubs call a channel (the other handle kinds use the inherent
                    // method)
                    let ch = (*root).clone();
                    Box::pin(async move { tarpc::client::stub::Stub::call(&ch, ctx, payload).await })
                }
                Handle::Root => {
                    let ch = root.clone();
                    Box::pin(async move { ch.call(ctx, payload).await })
                }
                Handle::Middle => {
                    let ch = middle.clone().unwrap();
                    Box::pin(async move { ch.call(ctx, payload).await })
                }
                Handle::Grand => {
                    let ch = grand.clone().unwrap();
                    Box::pin(async move { ch.call(ctx, payload).await })
                }
                Handle::Shared => {
                    let ch = shared.clone();
                    Box::pin(async move { ch.call(ctx, payload).await })
                }
                Handle::CloneOfClone => {
                    let a = (*root).clone();
                    let ch = a.clone();
                    drop(a);
                    Box::pin(async move { ch.call(ctx, payload).await })
                }
            };
            let flag = Flag::new(c.after.is_none());
            callers.push(CallerSt {
                fut: Some(fut),
                waker: Waker::from(flag.clone()),
                flag,
                polls: 0,
                status: if c.after.is_none() {
                    CS::Running
                } else {
                    CS::Waiting
                },
            });
        }
        drop(shared);
        drop(middle);
        drop(grand);
        let dflag = Flag::new(true);
        let st = St {
            callers,
            dispatch: Some(Box::pin(nc.dispatch)),
            dwaker: Waker::from(dflag.clone()),
            dflag,
            d_done: false,
            root: if cfg.keep_root { Some(root) } else { None },
            next_tok: 1000,
            replied: BTreeMap::new(),
            dup_sent: BTreeSet::new(),
            unknown_sent: [false; 5],
            future_sent: false,
            eof_sent: false,
            err_sent: false,
            park_depth: 0,
            park_armed: false,
            dead: false,
            stray_seen: 0,
        };
        Rc::new(World {
            q0_done: Cell::new(false),
            cfg: cfg.clone(),
            log,
            st: RefCell::new(st),
            ch: RefCell::new(Chooser::new(prefix)),
            core,
            suppress_stray,
            free: Cell::new(false),
            pending_advance: Cell::new(None),
            state_hashes: RefCell::new(Vec::new()),
        })
    }

    fn has(&self, a: u32) -> bool {
        self.cfg.alphabet & a != 0
    }

    fn now_ms(&self) -> i64 {
        (self.log.now_ns() / 1_000_000) as i64
    }

    /// ids of requests the peer has received, with their payloads, in arrival order
    fn peer_seen(&self) -> Vec<(u64, u32)> {
        self.core
            .borrow()
            .delivered
            .iter()
            .filter_map(|m| match m {
                Msg::Req { id, payload, .. } => Some((*id, *payload)),
                _ => None,
            })
            .collect()
    }

    fn instants(&self) -> Vec<i64> {
        let now = self.now_ms();
        let mut v: Vec<i64> = self
            .cfg
            .callers
            .iter()
            .flat_map(|c| [c.deadline_ms - 1, c.deadline_ms, c.deadline_ms + 1])
            .filter(|t| *t > now)
            .collect();
        v.sort();
        v.dedup();
        v
    }

    /// (options, number of mandatory ones)
    fn enabled(&self, nested: bool) -> (Vec<Ev>, usize) {
        let st = self.st.borrow();
        let mut m = Vec::new();
        if st.dead {
            return (m, 0);
        }
        for (i, c) in st.callers.iter().enumerate() {
            if c.fut.is_none() || c.status != CS::Running {
                continue;
            }
            if let Script::AbandonAfter(k) = self.cfg.callers[i].script {
                if c.polls >= k {
                    m.push(Ev::ScriptAbandon(i));
                }
            }
            if self.cfg.callers[i].script == Script::AbandonOnceSent
                && self.core.borrow().wire.iter().any(|m| matches!(m, Msg::Req { payload, .. } if *payload as usize == i))
            {
                m.push(Ev::ScriptAbandon(i));
            }
        }
        for (i, c) in st.callers.iter().enumerate() {
            if c.status == CS::Waiting {
                let j = self.cfg.callers[i].after.unwrap();
                if matches!(st.callers[j].status, CS::Done | CS::Abandoned) {
                    m.push(Ev::Start(i));
                }
            }
        }
        for (i, c) in st.callers.iter().enumerate() {
            if c.fut.is_some() && c.status == CS::Running && c.flag.is_set() {
                // a scripted abandon that is due takes precedence over polling
                if !m.contains(&Ev::ScriptAbandon(i)) {
                    m.push(Ev::PollCaller(i));
                }
            }
        }
        if st.dispatch.is_some() && st.dflag.is_set() {
            m.push(Ev::PollDispatch);
        }
        let seen = self.peer_seen();
        let peer_can_talk = !st.eof_sent && !st.err_sent;
        let mut unowed = Vec::new();
        if peer_can_talk {
            for (id, p) in &seen {
                if st.replied.contains_key(id) {
                    continue;
                }
                let owed = self
                    .cfg
                    .callers
                    .get(*p as usize)
                    .map(|c| c.answered)
                    .unwrap_or(false);
                if owed {
                    m.push(Ev::Reply(*id));
                } else {
                    unowed.push(*id);
                }
            }
        }
        let nm = m.len();
        // optional events
        if !self.free.get() {
            if peer_can_talk {
                if self.has(A_REPLY_UNOWED) {
                    for id in unowed {
                        m.push(Ev::Reply(id));
                    }
                }
                if self.has(A_DUP) {
                    for (id, n) in st.replied.iter() {
                        if *n == 1 && !st.dup_sent.contains(id) {
                            m.push(Ev::ReplyDup(*id));
                        }
                    }
                }
                if self.has(A_UNKNOWN) {
                    for (k, u) in UNKNOWN_IDS.iter().enumerate() {
                        if !st.unknown_sent[k] {
                            m.push(Ev::ReplyUnknown(*u));
                        }
                    }
                }
                // a frame for an id that has not been handed out yet, while some caller has still to
                // make its call (every started caller took exactly one id, in the order of first polls)
                if self.has(A_UNKNOWN) && !st.future_sent && st.callers.iter().any(|c| c.fut.is_some() && c.polls == 0) {
                    let issued = st.callers.iter().filter(|c| c.polls > 0).count() as u64;
                    m.push(Ev::ReplyFuture(issued));
                }
                if self.has(A_EOF) {
                    m.push(Ev::PeerEof);
                }
                if self.has(A_RERR) {
                    m.push(Ev::PeerErr);
                }
            }
            if self.has(A_ABANDON) {
                for (i, c) in st.callers.iter().enumerate() {
                    if c.fut.is_some() && c.status == CS::Running {
                        m.push(Ev::Abandon(i));
                    }
                }
            }
            if self.has(A_DROPDISPATCH) && st.dispatch.is_some() {
                m.push(Ev::DropDispatch);
            }
            if self.has(A_DRAIN) && self.core.borrow().blocked() {
                m.push(Ev::Drain);
            }
            if self.has(A_ADVANCE) && !nested {
                for t in self.instants() {
                    m.push(Ev::Advance(t));
                }
            }
            if self.has(A_DROPROOT) && st.root.is_some() {
                m.push(Ev::DropRoot);
            }
        }
        (m, nm)
    }

    fn fingerprint(&self) {
        let st = self.st.borrow();
        let mut h = std::collections::hash_map::DefaultHasher::new();
        for c in &st.callers {
            (c.status, c.flag.is_set(), c.polls, c.fut.is_some()).hash(&mut h);
        }
        (st.dispatch.is_some(), st.dflag.is_set(), st.d_done, st.root.is_some()).hash(&mut h);
        if let Some(d) = &st.dispatch {
            (d.verif_in_flight_len(), d.verif_timers_len()).hash(&mut h);
        }
        let c = self.core.borrow();
        (c.buf.len(), c.inbox.len(), c.closed, c.eof_read).hash(&mut h);
        c.wire.hash(&mut h);
        c.delivered.len().hash(&mut h);
        st.replied.hash(&mut h);
        (st.eof_sent, st.err_sent, st.park_depth).hash(&mut h);
        self.now_ms().hash(&mut h);
        // caller outcomes are part of the log; include count of outcome records via statuses
        self.state_hashes.borrow_mut().push(h.finish());
    }

    fn snap(&self) {
        let st = self.st.borrow();
        if let Some(d) = &st.dispatch {
            // bit i set: caller i is running (not resolved/abandoned) / has been woken
            let mut running = 0i128;
            let mut woken = 0i128;
            for (i, c) in st.callers.iter().enumerate() {
                if c.status == CS::Running && c.fut.is_some() {
                    running |= 1 << i;
                }
                if c.flag.is_set() {
                    woken |= 1 << i;
                }
            }
            self.log.push(Rec::N(
                "snap",
                vec![
                    d.verif_in_flight_len() as i128,
                    d.verif_timers_len() as i128,
                    self.log.now_ns(),
                    running,
                    woken,
                    st.dflag.is_set() as i128,
                ],
            ));
        }
    }

    fn on_panic(&self, task: Task) {
        let msg = take_panic();
        self.log.push(Rec::S("panic", format!("{task:?}: {msg}")));
        self.st.borrow_mut().dead = true;
    }

    fn apply(&self, ev: Ev) {
        self.log.steps.set(self.log.steps.get() + 1);
        if self.log.steps.get() > HORIZON {
            self.log.push(Rec::S("horizon", "step horizon exceeded".into()));
            self.st.borrow_mut().dead = true;
            return;
        }
        self.log.push(Rec::Ev(format!("{ev:?}")));
        match ev {
            Ev::Stop => {}
            Ev::Start(i) => {
                let mut st = self.st.borrow_mut();
                st.callers[i].status = CS::Running;
                st.callers[i].flag.set();
            }
            Ev::PollCaller(i) => {
                let (mut fut, waker) = {
                    let mut st = self.st.borrow_mut();
                    let c = &mut st.callers[i];
                    c.flag.clear();
                    (c.fut.take().unwrap(), c.flag.fresh_waker())
                };
                if self.has(A_PARKPOLL) {
                    self.st.borrow_mut().park_armed = true;
                }
                let prev = self.log.begin_poll(Task::Caller(i));
                let mut cx = Context::from_waker(&waker);
                let r = catch_unwind(AssertUnwindSafe(|| fut.as_mut().poll(&mut cx)));
                self.st.borrow_mut().park_armed = false;
                match r {
                    Ok(Poll::Pending) => {
                        self.log.end_poll(Task::Caller(i), prev, false);
                        let mut st = self.st.borrow_mut();
                        st.callers[i].polls += 1;
                        st.callers[i].fut = Some(fut);
                    }
                    Ok(Poll::Ready(out)) => {
                        self.log.end_poll(Task::Caller(i), prev, true);
                        let o = outcome_of(out);
                        self.log.push(Rec::S("caller_done", format!("{i} {o:?}")));
                        self.log.push(Rec::N(
                            "caller_done_at",
                            vec![i as i128, self.log.now_ns()],
                        ));
                        {
                            let mut st = self.st.borrow_mut();
                            st.callers[i].polls += 1;
                            st.callers[i].status = CS::Done;
                        }
                        if catch_unwind(AssertUnwindSafe(|| drop(fut))).is_err() {
                            self.on_panic(Task::Caller(i));
                        }
                    }
                    Err(_) => {
                        self.log.end_poll(Task::Caller(i), prev, false);
                        self.on_panic(Task::Caller(i));
                        std::mem::forget(fut);
                    }
                }
            }
            Ev::ScriptAbandon(i) | Ev::Abandon(i) => {
                let fut = {
                    let mut st = self.st.borrow_mut();
                    let c = &mut st.callers[i];
                    c.status = CS::Abandoned;
                    c.fut.take().unwrap()
                };
                let polls = self.st.borrow().callers[i].polls;
                self.log.push(Rec::N("abandon", vec![i as i128, polls as i128]));
                if self.has(A_PARK) && !self.free.get() {
                    self.st.borrow_mut().park_armed = true;
                }
                let r = if self.cfg.abandon_by_unwind {
                    struct Unwind;
                    struct DropInUnwind<F>(Option<F>);
                    impl<F> Drop for DropInUnwind<F> {
                        fn drop(&mut self) {
                            drop(self.0.take());
                        }
                    }
                    let r = catch_unwind(AssertUnwindSafe(|| {
                        let _g = DropInUnwind(Some(fut));
                        std::panic::panic_any(Unwind);
                    }));
                    let _ = take_panic();
                    match r {
                        Err(p) if p.downcast_ref::<Unwind>().is_some() => Ok(()),
                        Err(p) => Err(p),
                        Ok(()) => Ok(()),
                    }
                } else {
                    catch_unwind(AssertUnwindSafe(|| drop(fut)))
                };
                self.st.borrow_mut().park_armed = false;
                if r.is_err() {
                    self.on_panic(Task::Caller(i));
                }
                self.log.push(Rec::N("abandon_end", vec![i as i128]));
            }
            Ev::PollDispatch => {
                let (mut d, waker) = {
                    let mut st = self.st.borrow_mut();
                    st.dflag.clear();
                    (st.dispatch.take().unwrap(), st.dflag.fresh_waker())
                };
                let prev = self.log.begin_poll(Task::Dispatch(0));
                let mut cx = Context::from_waker(&waker);
                if self.has(A_PARKSEND) && !self.free.get() {
                    self.st.borrow_mut().park_armed = true;
                }
                let r = catch_unwind(AssertUnwindSafe(|| d.as_mut().poll(&mut cx)));
                self.st.borrow_mut().park_armed = false;
                match r {
                    Ok(Poll::Pending) => {
                        self.log.end_poll(Task::Dispatch(0), prev, false);
                        self.st.borrow_mut().dispatch = Some(d);
                        self.snap();
                    }
                    Ok(Poll::Ready(out)) => {
                        self.log.end_poll(Task::Dispatch(0), prev, true);
                        let s = match &out {
                            Ok(()) => "Ok".to_string(),
                            Err(e) => format!("Err({})", chan_kind(e)),
                        };
                        self.log.push(Rec::N(
                            "snap_final",
                            vec![
                                d.verif_in_flight_len() as i128,
                                d.verif_timers_len() as i128,
                            ],
                        ));
                        self.log.push(Rec::S("dispatch_done", s));
                        self.st.borrow_mut().d_done = true;
                        // a completed dispatch future is dropped (tokio::spawn, join!, select!)
                        if catch_unwind(AssertUnwindSafe(|| drop(d))).is_err() {
                            self.on_panic(Task::Dispatch(0));
                        }
                    }
                    Err(p) => {
                        self.log.end_poll(Task::Dispatch(0), prev, false);
                        if p.downcast_ref::<SpinGuard>().is_some() {
                            let _ = take_panic();
                            self.log.push(Rec::S("spin", "Dispatch".into()));
                            self.st.borrow_mut().dead = true;
                        } else {
                            self.on_panic(Task::Dispatch(0));
                        }
                        std::mem::forget(d);
                    }
                }
            }
            Ev::ReplyFuture(id) => {
                let tok = {
                    let mut st = self.st.borrow_mut();
                    st.future_sent = true;
                    let tok = st.next_tok;
                    st.next_tok += 1;
                    tok
                };
                self.log.push(Rec::N("future_reply", vec![id as i128, tok as i128, 0]));
                self.core.borrow_mut().push_in(InItem::Item(Response { request_id: id, message: Ok(tok) }));
            }
            Ev::Reply(id) | Ev::ReplyDup(id) | Ev::ReplyUnknown(id) => {
                let (tok, is_err, stray) = {
                    let mut st = self.st.borrow_mut();
                    let tok = st.next_tok;
                    st.next_tok += 1;
                    let mut stray = false;
                    match ev {
                        Ev::Reply(_) => {
                            *st.replied.entry(id).or_insert(0) += 1;
                        }
                        Ev::ReplyDup(_) => {
                            st.dup_sent.insert(id);
                            *st.replied.entry(id).or_insert(0) += 1;
                            stray = true;
                        }
                        _ => {
                            let k = UNKNOWN_IDS.iter().position(|u| *u == id).unwrap();
                            st.unknown_sent[k] = true;
                            stray = true;
                        }
                    }
                    let payload = self
                        .peer_seen()
                        .iter()
                        .find(|(i, _)| *i == id)
                        .map(|(_, p)| *p as usize);
                    // a reply for a call that has already resolved (e.g. with DeadlineExceeded) is
                    // late: its entry is certainly gone
                    if let Some(p) = payload {
                        if st.callers.get(p).map(|c| c.status == CS::Done).unwrap_or(false) {
                            stray = true;
                        }
                    }
                    let is_err = payload
                        .and_then(|p| self.cfg.callers.get(p))
                        .map(|c| c.reply_err)
                        .unwrap_or(false);
                    (tok, is_err, stray)
                };
                let mut suppressed = false;
                if stray {
                    let mut st = self.st.borrow_mut();
                    st.stray_seen += 1;
                    if self.suppress_stray == Some(st.stray_seen) {
                        suppressed = true;
                    }
                }
                let resp = Response {
                    request_id: id,
                    message: if is_err {
                        // the kind of an application error is the application's business: the
                        // error reply of an even request id says TimedOut, of an odd one Other
                        Err(ServerError::new(
                            if id % 2 == 0 { std::io::ErrorKind::TimedOut } else { std::io::ErrorKind::Other },
                            tok.to_string(),
                        ))
                    } else {
                        Ok(tok)
                    },
                };
                if suppressed {
                    self.log.push(Rec::N("stray_suppressed", vec![id as i128]));
                    self.core.borrow_mut().wake_reader();
                } else {
                    self.log.push(Rec::N(
                        if stray { "stray_reply" } else { "reply" },
                        vec![id as i128, tok as i128, is_err as i128],
                    ));
                    self.core.borrow_mut().push_in(InItem::Item(resp));
                }
            }
            Ev::PeerEof => {
                self.log.push(Rec::N("peer_eof", vec![]));
                self.st.borrow_mut().eof_sent = true;
                self.core.borrow_mut().push_in(InItem::Eof);
            }
            Ev::PeerErr => {
                self.st.borrow_mut().err_sent = true;
                self.core.borrow_mut().push_in(InItem::Err);
            }
            Ev::DropDispatch => {
                let d = self.st.borrow_mut().dispatch.take();
                self.log.push(Rec::S("dispatch_dropped", String::new()));
                if catch_unwind(AssertUnwindSafe(|| drop(d))).is_err() {
                    self.on_panic(Task::Dispatch(0));
                }
            }
            Ev::Drain => {
                self.core.borrow_mut().drain();
            }
            Ev::Advance(t) => {
                self.pending_advance.set(Some(t));
            }
            Ev::DropRoot => {
                let r = self.st.borrow_mut().root.take();
                drop(r);
            }
        }
        self.fingerprint();
    }

    /// One step of the scheduler loop. Returns false when the loop stops.
    fn step(&self, nested: bool) -> bool {
        let (opts, nm) = self.enabled(nested);
        if self.free.get() {
            // completion phase: canonical answers only, no choice points
            if nm == 0 {
                return false;
            }
            self.apply(opts[0].clone());
            return true;
        }
        let mut all = Vec::with_capacity(opts.len() + 1);
        if nm == 0 {
            all.push(Ev::Stop);
        }
        all.extend(opts);
        if nested && nm > 0 {
            // resuming the parked drop early is a deviation
            all.push(Ev::Stop);
        }
        if crate::mock::show_options() {
            self.log.push(Rec::S("options", format!("{all:?}")));
        }
        let k = self.ch.borrow_mut().choose("step", all.len());
        self.log.choice_pos.set(self.ch.borrow().points.len() as u32);
        let ev = all[k].clone();
        if ev == Ev::Stop {
            return false;
        }
        self.apply(ev);
        !self.st.borrow().dead
    }

    /// yield-point callback (runs inside a Drop of a call guard)
    fn on_yield(self: &Rc<Self>, label: &'static str) {
        {
            let st = self.st.borrow();
            if !st.park_armed || st.park_depth > 0 || st.dead {
                return;
            }
        }
        if self.free.get() {
            return;
        }
        let k = self.ch.borrow_mut().choose("park", 2);
        self.log.choice_pos.set(self.ch.borrow().points.len() as u32);
        if k == 0 {
            return;
        }
        self.log.push(Rec::S("park", label.to_string()));
        {
            let mut st = self.st.borrow_mut();
            st.park_depth += 1;
            st.park_armed = false;
        }
        while self.step(true) {}
        {
            let mut st = self.st.borrow_mut();
            st.park_depth -= 1;
            st.park_armed = true;
        }
        self.log.push(Rec::S("unpark", label.to_string()));
    }

    fn q_record(&self, name: &'static str) {
        let st = self.st.borrow();
        let c = self.core.borrow();
        let (inf, tim) = st
            .dispatch
            .as_ref()
            .map(|d| (d.verif_in_flight_len() as i128, d.verif_timers_len() as i128))
            .unwrap_or((-1, -1));
        let inbox_items = c
            .inbox
            .iter()
            .filter(|i| !matches!(i, InItem::Eof))
            .count();
        self.log.push(Rec::N(
            name,
            vec![
                inbox_items as i128,
                st.dispatch.is_some() as i128,
                inf,
                tim,
                c.buf.len() as i128,
                self.log.now_ns(),
                st.root.is_some() as i128,
            ],
        ));
        for (i, cl) in st.callers.iter().enumerate() {
            self.log.push(Rec::N(
                match name {
                    "Q1" => "Q1caller",
                    "Q2" => "Q2caller",
                    _ => "QDcaller",
                },
                vec![i as i128, cl.status as i128, cl.polls as i128],
            ));
        }
    }

    fn settle(&self) {
        loop {
            while self.step(false) {}
            if self.st.borrow().dead {
                return;
            }
            if self.core.borrow().blocked() {
                // everything has settled while the peer is not reading what the client wrote: a
                // quiescent point of its own (recorded once, before Q1)
                if !self.q0_done.get() {
                    self.q0_done.set(true);
                    self.q_record("Q0");
                }
                self.apply(Ev::Drain);
                continue;
            }
            break;
        }
    }
}

pub struct Exec {
    pub recs: Vec<Rec>,
    pub points: Vec<Point>,
    pub steps: u32,
    pub state_hashes: Vec<u64>,
    pub err: Option<String>,
    pub call_pos: Vec<(Op, u32)>,
}

pub fn execute(cfg: &CCfg, prefix: &[u16], suppress_stray: Option<u32>) -> Exec {
    let rt = tokio::runtime::Builder::new_current_thread()
        .enable_time()
        .start_paused(true)
        .build()
        .unwrap();
    rt.block_on(tokio::task::unconstrained(async {
        let w = World::new(cfg, prefix, suppress_stray);
        let weak: Weak<World> = Rc::downgrade(&w);
        tarpc::verif::set_yield_hook(Some(Rc::new(move |label| {
            if let Some(w) = weak.upgrade() {
                w.on_yield(label);
            }
        })));
        if cfg.alphabet & A_PARKSEND != 0 {
            let weak2: Weak<World> = Rc::downgrade(&w);
            w.core.borrow_mut().op_hook = Some(Rc::new(move |label| {
                if let Some(w) = weak2.upgrade() {
                    w.on_yield(label);
                }
            }));
        }
        w.fingerprint();
        if cfg.start_age_ms > 0 {
            tokio::time::advance(Duration::from_millis(cfg.start_age_ms as u64)).await;
            w.log.push(Rec::N("time", vec![w.log.now_ns()]));
        }
        // main phase
        loop {
            let more = w.step(false);
            if let Some(t) = w.pending_advance.take() {
                let now = w.now_ms();
                if t > now {
                    tokio::time::advance(Duration::from_millis((t - now) as u64)).await;
                    w.log.push(Rec::N("time", vec![w.log.now_ns()]));
                }
                continue;
            }
            if !more {
                break;
            }
        }
        // completion phase
        w.log.push(Rec::N("main_end", vec![]));
        w.free.set(true);
        w.settle();
        w.q0_done.set(true);
        w.q_record("Q1");
        {
            let r = w.st.borrow_mut().root.take();
            drop(r);
        }
        w.settle();
        let mut ds: Vec<i64> = cfg.callers.iter().map(|c| c.deadline_ms + 1).collect();
        ds.sort();
        ds.dedup();
        for t in ds {
            if w.st.borrow().dead {
                break;
            }
            let now = w.now_ms();
            if t > now {
                w.log.push(Rec::Ev(format!("Advance({t})")));
                tokio::time::advance(Duration::from_millis((t - now) as u64)).await;
                w.log.push(Rec::N("time", vec![w.log.now_ns()]));
                w.settle();
                w.q_record("QD");
            }
        }
        w.q_record("Q2");
        tarpc::verif::set_yield_hook(None);
        // tear down
        let (callers, d, root) = {
            let mut st = w.st.borrow_mut();
            (
                std::mem::take(&mut st.callers),
                st.dispatch.take(),
                st.root.take(),
            )
        };
        let dead = w.st.borrow().dead;
        if dead {
            // state may be inconsistent after a panic; leak instead of running more subject code
            std::mem::forget(callers);
            std::mem::forget(d);
            std::mem::forget(root);
        } else {
            let _ = catch_unwind(AssertUnwindSafe(|| {
                drop(callers);
                drop(d);
                drop(root);
            }));
        }
        let ch = w.ch.borrow();
        let err = ch.err.clone().or_else(|| {
            if !ch.consumed_prefix() {
                Some("replay divergence: execution ended before the prefix was consumed".into())
            } else {
                None
            }
        });
        let ex = Exec {
            recs: w.log.recs.borrow().clone(),
            points: ch.points.clone(),
            steps: w.log.steps.get(),
            state_hashes: w.state_hashes.borrow().clone(),
            err,
            call_pos: w.core.borrow().call_pos.clone(),
        };
        drop(ch);
        ex
    }))
}

pub fn hash_recs(recs: &[Rec]) -> u64 {
    let mut h = std::collections::hash_map::DefaultHasher::new();
    for r in recs {
        if matches!(r, Rec::N("hsid", _)) {
            continue;
        }
        r.hash(&mut h);
    }
    h.finish()
}

pub fn render(recs: &[Rec]) -> String {
    let mut s = String::new();
    for r in recs {
        match r {
            Rec::Ev(e) => s.push_str(&format!("* {e}\n")),
            Rec::PollStart(_) => {}
            Rec::PollEnd(t, ready) => s.push_str(&format!(
                "    {t:?} -> {}\n",
                if *ready { "Ready" } else { "Pending" }
            )),
            Rec::T {
                op, res, msg, side, ..
            } => s.push_str(&format!(
                "      t{side}.{op:?} -> {res:?}{}\n",
                msg.as_ref().map(|m| format!(" {m:?}")).unwrap_or_default()
            )),
            Rec::PeerSaw { side, msg } => s.push_str(&format!("      peer{side} saw {msg:?}\n")),
            Rec::N(n, v) => s.push_str(&format!("    [{n} {v:?}]\n")),
            Rec::M(n, m) => s.push_str(&format!("    [{n} {m:?}]\n")),
            Rec::S(n, m) => s.push_str(&format!("    [{n} {m}]\n")),
        }
    }
    s
}

// ---------------------------------------------------------------------------------------------
// facts extracted from a log

#[derive(Default, Debug)]
pub struct Facts {
    /// successful start_sends, in order: (rec index, msg)
    pub wire: Vec<(usize, Msg)>,
    pub failed_sends: Vec<(usize, Msg)>,
    /// payload -> request id (from transmitted or attempted requests)
    pub id_of: BTreeMap<u32, u64>,
    /// replies the peer sent: (rec idx, id, tok, is_err, stray)
    pub replies: Vec<(usize, u64, u32, bool, bool)>,
    /// responses the transport handed to the dispatch: (rec idx, id)
    pub read: Vec<(usize, u64)>,
    pub caller_out: BTreeMap<usize, (usize, String, i128)>,
    pub abandoned: BTreeMap<usize, usize>,
    pub dispatch_done: Option<(usize, String)>,
    pub dispatch_dropped: Option<usize>,
    pub panics: Vec<String>,
    pub spin: bool,
    pub horizon: bool,
    /// first quiescent point reached while the peer was not reading (the client's sink blocked)
    pub q0: Option<(usize, Vec<i128>)>,
    pub q1: Option<(usize, Vec<i128>)>,
    pub q2: Option<(usize, Vec<i128>)>,
    pub q1c: BTreeMap<usize, (i128, i128)>,
    pub q2c: BTreeMap<usize, (i128, i128)>,
    pub eof_read: Option<usize>,
    /// the peer ended the read side (whether or not the dispatch has looked)
    pub eof_sent: Option<usize>,
    pub parks: u32,
    pub strays: u32,
    /// unsolicited replies for ids not yet handed out: (rec idx, id, tok)
    pub future: Vec<(usize, u64, u32)>,
}

pub fn facts(recs: &[Rec]) -> Facts {
    let mut f = Facts::default();
    for (i, r) in recs.iter().enumerate() {
        match r {
            Rec::T {
                side: 0,
                op: Op::Send,
                res,
                msg: Some(m),
                ..
            } => {
                if let Msg::Req { id, payload, .. } = m {
                    f.id_of.insert(*payload, *id);
                }
                if *res == Res::Ok {
                    f.wire.push((i, m.clone()));
                } else {
                    f.failed_sends.push((i, m.clone()));
                }
            }
            Rec::T {
                side: 0,
                op: Op::Next,
                res: Res::Item,
                msg: Some(m),
                ..
            } => f.read.push((i, m.id())),
            Rec::T {
                side: 0,
                op: Op::Next,
                res: Res::Eof,
                ..
            } => {
                if f.eof_read.is_none() {
                    f.eof_read = Some(i)
                }
            }
            Rec::N("reply", v) => f.replies.push((i, v[0] as u64, v[1] as u32, v[2] != 0, false)),
            Rec::N("stray_reply", v) => {
                f.strays += 1;
                f.replies.push((i, v[0] as u64, v[1] as u32, v[2] != 0, true))
            }
            Rec::N("future_reply", v) => {
                f.future.push((i, v[0] as u64, v[1] as u32));
                f.replies.push((i, v[0] as u64, v[1] as u32, false, false))
            }
            Rec::N("peer_eof", _) => f.eof_sent = Some(i),
            Rec::N("stray_suppressed", _) => f.strays += 1,
            Rec::S("caller_done", s) => {
                let (a, b) = s.split_once(' ').unwrap();
                f.caller_out
                    .insert(a.parse().unwrap(), (i, b.to_string(), 0));
            }
            Rec::N("caller_done_at", v) => {
                if let Some(e) = f.caller_out.get_mut(&(v[0] as usize)) {
                    e.2 = v[1];
                }
            }
            Rec::N("abandon", v) => {
                f.abandoned.insert(v[0] as usize, i);
            }
            Rec::S("dispatch_done", s) => f.dispatch_done = Some((i, s.clone())),
            Rec::S("dispatch_dropped", _) => f.dispatch_dropped = Some(i),
            Rec::S("panic", s) => f.panics.push(s.clone()),
            Rec::S("spin", _) => f.spin = true,
            Rec::S("horizon", _) => f.horizon = true,
            Rec::S("park", _) => f.parks += 1,
            Rec::N("Q0", v) => {
                if f.q0.is_none() {
                    f.q0 = Some((i, v.clone()))
                }
            }
            Rec::N("Q1", v) => f.q1 = Some((i, v.clone())),
            Rec::N("Q2", v) => f.q2 = Some((i, v.clone())),
            Rec::N("Q1caller", v) => {
                f.q1c.insert(v[0] as usize, (v[1], v[2]));
            }
            Rec::N("Q2caller", v) => {
                f.q2c.insert(v[0] as usize, (v[1], v[2]));
            }
            _ => {}
        }
    }
    f
}

pub const CS_WAITING: i128 = 0;
pub const CS_RUNNING: i128 = 1;
pub const CS_DONE: i128 = 2;
pub const CS_ABANDONED: i128 = 3;

pub fn to_runout(e: &Exec, render_it: bool) -> RunOut {
    RunOut {
        violations: vec![],
        nontrivial: false,
        trace_hash: hash_recs(&e.recs),
        outcome_hash: 0,
        steps: e.steps,
        state_hashes: e.state_hashes.clone(),
        render: if render_it { Some(render(&e.recs)) } else { None },
        machinery_error: e.err.clone(),
        extra_execs: 0,
    }
}
