//! C16, histories rather than single odd messages: floods that reach a channel within one poll
//! (runs of duplicates of an in-flight request and of cancellations for unused ids, every pair of
//! run lengths up to N), connections of every age in a grid (the timer wheel measures time from
//! the connection's start, so the same boundary deadline is a different input on an old
//! connection), and responses of the wrong method reaching a macro-generated client stub.

use crate::c16::*;
use crate::codec::*;
use crate::mock::{take_panic, Flag};
use futures::{Future, Sink, Stream, StreamExt};
use std::cell::{Cell, RefCell};
use std::collections::VecDeque;
use std::io;
use std::panic::{catch_unwind, AssertUnwindSafe};
use std::pin::Pin;
use std::rc::Rc;
use std::task::{Context, Poll, Waker};
use std::time::Duration;
use tarpc::server::{BaseChannel, Channel};
use tarpc::{client, context, ClientMessage, Response};
use tokio::io::{AsyncRead, AsyncWrite, ReadBuf};
use tokio_serde::formats::{Bincode, Json};
use tokio_util::codec::{Framed, LengthDelimitedCodec};

/// A byte pipe whose readable side is filled by the harness between drives.
#[derive(Clone, Default)]
pub struct StageIo {
    pub inbox: Rc<RefCell<VecDeque<u8>>>,
    pub eof: Rc<Cell<bool>>,
    pub out: Rc<RefCell<Vec<u8>>>,
}
impl AsyncRead for StageIo {
    fn poll_read(self: Pin<&mut Self>, _: &mut Context<'_>, buf: &mut ReadBuf<'_>) -> Poll<io::Result<()>> {
        let mut q = self.inbox.borrow_mut();
        if q.is_empty() {
            return if self.eof.get() { Poll::Ready(Ok(())) } else { Poll::Pending };
        }
        let n = buf.remaining().min(q.len());
        let v: Vec<u8> = q.drain(..n).collect();
        buf.put_slice(&v);
        Poll::Ready(Ok(()))
    }
}
impl AsyncWrite for StageIo {
    fn poll_write(self: Pin<&mut Self>, _: &mut Context<'_>, buf: &[u8]) -> Poll<io::Result<usize>> {
        self.out.borrow_mut().extend_from_slice(buf);
        Poll::Ready(Ok(buf.len()))
    }
    fn poll_flush(self: Pin<&mut Self>, _: &mut Context<'_>) -> Poll<io::Result<()>> {
        Poll::Ready(Ok(()))
    }
    fn poll_shutdown(self: Pin<&mut Self>, _: &mut Context<'_>) -> Poll<io::Result<()>> {
        Poll::Ready(Ok(()))
    }
}

type Handler = Pin<Box<dyn Future<Output = ()>>>;
type HandlerStream = Pin<Box<dyn Stream<Item = Handler>>>;

/// echo service; payloads starting with "hold" are never answered (the request stays in flight)
async fn echo_or_hold(_: context::Context, s: String) -> Result<String, tarpc::ServerError> {
    if s.starts_with("hold") {
        futures::future::pending::<()>().await;
    }
    Ok(s)
}

fn server_over(codec: Codec, io: StageIo) -> HandlerStream {
    let framed = Framed::new(io, LengthDelimitedCodec::new());
    macro_rules! go {
        ($c:expr) => {{
            let t = tarpc::serde_transport::new::<_, ClientMessage<String>, Response<String>, _>(framed, $c);
            let ch = BaseChannel::with_defaults(t);
            Box::pin(ch.execute(tarpc::server::serve(echo_or_hold)).map(|f| Box::pin(f) as Handler)) as HandlerStream
        }};
    }
    match codec {
        Codec::Json => go!(Json::<ClientMessage<String>, Response<String>>::default()),
        Codec::Bincode => go!(Bincode::<ClientMessage<String>, Response<String>>::default()),
    }
}

struct Srv {
    stream: HandlerStream,
    handlers: Vec<Handler>,
    ended: bool,
}

impl Srv {
    /// polls the channel and its handlers until nothing makes progress; Err = panic, Ok(true) = spinning
    fn drive(&mut self) -> Result<bool, String> {
        let r = catch_unwind(AssertUnwindSafe(|| {
            // a task that wakes itself (a cooperative yield) is polled again
            let flag = Flag::new(false);
            let waker = Waker::from(flag.clone());
            let mut cx = Context::from_waker(&waker);
            for _ in 0..20_000 {
                let mut progress = flag.is_set();
                flag.clear();
                if !self.ended {
                    match self.stream.as_mut().poll_next(&mut cx) {
                        Poll::Ready(Some(f)) => {
                            self.handlers.push(f);
                            progress = true;
                        }
                        Poll::Ready(None) => {
                            self.ended = true;
                            progress = true;
                        }
                        Poll::Pending => {}
                    }
                }
                let mut i = 0;
                while i < self.handlers.len() {
                    if self.handlers[i].as_mut().poll(&mut cx).is_ready() {
                        let _ = self.handlers.swap_remove(i);
                        progress = true;
                    } else {
                        i += 1;
                    }
                }
                if !progress && !flag.is_set() {
                    return false;
                }
            }
            true
        }));
        r.map_err(|_| take_panic())
    }
}

pub struct Stage {
    pub bytes: Vec<u8>,
    pub then_advance: Duration,
}

/// A real server channel fed in stages, with the (paused) clock advanced between stages.
pub async fn serve_stages(codec: Codec, stages: &[Stage]) -> ServeResult {
    let mut res = ServeResult::default();
    let io = StageIo::default();
    let mut srv = match catch_unwind(AssertUnwindSafe(|| server_over(codec, io.clone()))) {
        Ok(s) => Srv { stream: s, handlers: vec![], ended: false },
        Err(_) => {
            res.panic = Some(take_panic());
            return res;
        }
    };
    let mut steps: Vec<Option<&Stage>> = stages.iter().map(Some).collect();
    steps.push(None);
    for st in steps {
        match st {
            Some(st) => io.inbox.borrow_mut().extend(st.bytes.iter().copied()),
            None => io.eof.set(true),
        }
        match srv.drive() {
            Ok(spin) => res.stuck |= spin,
            Err(p) => {
                res.panic = Some(p);
                break;
            }
        }
        if let Some(st) = st {
            if st.then_advance > Duration::ZERO {
                tokio::time::advance(st.then_advance).await;
                match srv.drive() {
                    Ok(spin) => res.stuck |= spin,
                    Err(p) => {
                        res.panic = Some(p);
                        break;
                    }
                }
            }
        }
    }
    // the handlers and the channel are dropped here; a panic in a destructor counts as well
    if let Err(_) = catch_unwind(AssertUnwindSafe(move || drop(srv))) {
        res.panic.get_or_insert(take_panic());
    }
    let bytes = io.out.borrow().clone();
    let (items, _) = decode::<Response<String>>(codec, &bytes, &[], false);
    res.responses = items.len();
    res.probe_answered = items.iter().any(|s| s.contains(&format!("request_id: {PROBE_ID},")));
    res
}

pub const DAY: u64 = 86_400;
/// the boundary deadlines plus spans inside the timers' supported range: on an aged connection
/// the range that matters is the one left until the wheel's limit (about 795 days after the
/// connection's timer queue was created)
pub fn age_durations() -> Vec<(&'static str, Duration)> {
    let mut v = boundary_durations();
    v.extend([
        ("10s", Duration::from_secs(10)),
        ("30d", Duration::from_secs(30 * DAY)),
        ("1y", Duration::from_secs(365 * DAY)),
        ("500d", Duration::from_secs(500 * DAY)),
        ("600d", Duration::from_secs(600 * DAY)),
        ("693d", Duration::from_secs(693 * DAY)),
        ("729d", Duration::from_secs(729 * DAY)),
        ("730d-1s", Duration::from_secs(730 * DAY - 1)),
        ("730d", Duration::from_secs(730 * DAY)),
        ("730d+1s", Duration::from_secs(730 * DAY + 1)),
        ("795d", Duration::from_secs(795 * DAY)),
        ("796d", Duration::from_secs(796 * DAY)),
    ]);
    v
}
pub fn ages() -> Vec<(&'static str, Duration)> {
    vec![
        ("0", Duration::ZERO),
        ("1h", Duration::from_secs(3600)),
        ("25h", Duration::from_secs(25 * 3600)),
        ("65d", Duration::from_secs(65 * DAY)),
        ("67d", Duration::from_secs(67 * DAY)),
        ("70d", Duration::from_secs(70 * DAY)),
        ("100d", Duration::from_secs(100 * DAY)),
        ("300d", Duration::from_secs(300 * DAY)),
        ("1y", Duration::from_secs(365 * DAY)),
        ("2y", Duration::from_secs(730 * DAY)),
        ("2.2y", Duration::from_secs(803 * DAY)),
        ("3y", Duration::from_secs(1096 * DAY)),
        ("30y", Duration::from_secs(10_958 * DAY)),
    ]
}

#[derive(Clone, Copy, Debug, PartialEq, Eq, Hash)]
pub enum Prior {
    /// nothing happened on the connection before it aged
    Fresh,
    /// one request was served before the connection aged
    Served,
    /// one request with a far deadline is still in flight while the connection ages
    Held,
}

pub async fn server_age_cases(st: &mut S16, codec: Codec) {
    for prior in [Prior::Fresh, Prior::Served, Prior::Held] {
        for (an, age) in ages() {
            for (dn, d) in age_durations() {
                let mut stages = vec![];
                let first = match prior {
                    Prior::Fresh => vec![],
                    Prior::Served => request_msg(codec, 1, Duration::from_secs(10), "m"),
                    Prior::Held => request_msg(codec, 1, Duration::from_secs(2 * 365 * DAY + 5 * DAY), "hold"),
                };
                stages.push(Stage { bytes: first, then_advance: age });
                // the odd request stays in flight (its timer stays armed) while the probe is served
                let mut second = request_msg(codec, 2, d, "hold");
                second.extend_from_slice(&probe_frame(codec));
                stages.push(Stage { bytes: second, then_advance: Duration::ZERO });
                st.evals += 1;
                st.distinct.insert(h(&(codec, "age", prior, an, dn)));
                let label = format!("{codec:?} connection {prior:?}, aged {an}, then a request with deadline {dn} and a probe");
                if st.samples.len() < 2 {
                    st.samples.push(format!("server {label}"));
                }
                let r = serve_stages(codec, &stages).await;
                if let Some(p) = &r.panic {
                    failure(st, format!("C16-server-panic/{}", site(p)), format!("{label}: {p}"));
                } else if r.stuck {
                    failure(st, "C16-server-stuck".into(), label);
                } else if !r.probe_answered {
                    failure(st, "C16-server-stops-serving".into(), format!("{label}: the probe was never answered"));
                }
            }
        }
    }
}

// ---------------------------------------------------------------------------------------------
// short timed histories on one id

/// Every sequence of at most `depth` peer actions on request id 5 - a request that stays in
/// flight with a 1 s / 10 s / 30 s deadline (a duplicate whenever 5 is in flight), a request
/// that is answered at once, a cancellation, letting 2 s or 40 s pass - each followed by another
/// 40 s and a probe. Nothing may panic and the probe is served.
pub async fn timed_history_cases(st: &mut S16, codec: Codec, depth: usize) {
    #[derive(Clone, Copy, Debug)]
    enum A {
        Hold(u64),
        Echo,
        Cancel,
        Wait(u64),
    }
    let alphabet = [A::Hold(1), A::Hold(10), A::Hold(30), A::Echo, A::Cancel, A::Wait(2), A::Wait(40)];
    let mut seqs: Vec<Vec<A>> = vec![vec![]];
    let mut frontier: Vec<Vec<A>> = vec![vec![]];
    for _ in 0..depth {
        let mut next = vec![];
        for s0 in &frontier {
            for a in alphabet {
                // two waits in a row add nothing new beyond their sum being covered
                if let (Some(A::Wait(_)), A::Wait(_)) = (s0.last(), a) {
                    continue;
                }
                let mut s1 = s0.clone();
                s1.push(a);
                next.push(s1);
            }
        }
        seqs.extend(next.iter().cloned());
        frontier = next;
    }
    for seq in &seqs {
        if !seq.iter().any(|a| matches!(a, A::Hold(_) | A::Echo)) {
            continue;
        }
        let mut stages: Vec<Stage> = vec![];
        for a in seq {
            match a {
                A::Hold(d) => stages.push(Stage { bytes: request_msg(codec, 5, Duration::from_secs(*d), "hold"), then_advance: Duration::ZERO }),
                A::Echo => stages.push(Stage { bytes: request_msg(codec, 5, Duration::from_secs(10), "m"), then_advance: Duration::ZERO }),
                A::Cancel => stages.push(Stage { bytes: cancel_frame(codec, 5), then_advance: Duration::ZERO }),
                A::Wait(t) => match stages.last_mut() {
                    Some(s) => s.then_advance += Duration::from_secs(*t),
                    None => stages.push(Stage { bytes: vec![], then_advance: Duration::from_secs(*t) }),
                },
            }
        }
        if let Some(s) = stages.last_mut() {
            s.then_advance += Duration::from_secs(40);
        }
        stages.push(Stage { bytes: probe_frame(codec), then_advance: Duration::ZERO });
        st.evals += 1;
        st.distinct.insert(h(&(codec, "timed", format!("{seq:?}"))));
        let label = format!("{codec:?} history on id 5: {seq:?}, then 40 s and a probe");
        if seq.len() == 3 && st.samples.len() < 3 {
            st.samples.push(format!("server {label}"));
        }
        let r = serve_stages(codec, &stages).await;
        if let Some(p) = &r.panic {
            failure(st, format!("C16-server-panic/{}", site(p)), format!("{label}: {p}"));
        } else if r.stuck {
            failure(st, "C16-server-stuck".into(), label);
        } else if !r.probe_answered {
            failure(st, "C16-server-stops-serving".into(), format!("{label}: the probe was never answered"));
        }
    }
}

// ---------------------------------------------------------------------------------------------
// floods within one poll

/// request 5 stays in flight; then `a` messages of one kind and `b` of the other reach the
/// channel in one read, followed by the probe.
pub fn flood_cases(st: &mut S16, codec: Codec, n: usize) {
    let held = request_msg(codec, 5, Duration::from_secs(10), "hold");
    let cancel_unused = cancel_frame(codec, 999);
    for dup_first in [false, true] {
        for a in 0..=n {
            for b in 0..=n {
                if dup_first && (a == 0 || b == 0) {
                    continue; // the same input as the other order
                }
                let (x, y, xn, yn) = if dup_first {
                    (&held, &cancel_unused, "duplicates of in-flight request 5", "cancels for unused id 999")
                } else {
                    (&cancel_unused, &held, "cancels for unused id 999", "duplicates of in-flight request 5")
                };
                let mut input = held.clone();
                for _ in 0..a {
                    input.extend_from_slice(x);
                }
                for _ in 0..b {
                    input.extend_from_slice(y);
                }
                input.extend_from_slice(&probe_frame(codec));
                st.evals += 1;
                st.distinct.insert(h(&(codec, "flood", dup_first, a, b)));
                let label = format!("{codec:?} request 5 in flight, then {a} {xn}, {b} {yn}, then a probe (all readable at once)");
                if a == 3 && b == 2 && st.samples.len() < 3 {
                    st.samples.push(format!("server {label}"));
                }
                let r = serve_held(codec, &input);
                if let Some(p) = &r.panic {
                    failure(st, format!("C16-server-panic/{}", site(p)), format!("{label}: {p}"));
                } else if r.stuck {
                    failure(st, "C16-server-stuck".into(), label);
                } else if !r.probe_answered {
                    failure(st, "C16-server-stops-serving".into(), format!("{label}: the probe was never answered"));
                } else if r.responses != 1 {
                    failure(st, "C16-server-flood-answered".into(), format!("{label}: {} responses, only the probe should be answered", r.responses));
                }
            }
        }
    }
}

/// Duplicates of an in-flight request that state another deadline than the original - shorter,
/// or decades away, or at the numeric limits - are ignored like any other duplicate (seeded change
/// C16n re-armed the original's timer with the duplicate's uncapped deadline).
pub fn duplicate_deadline_cases(st: &mut S16, codec: Codec) {
    let held = request_msg(codec, 5, Duration::from_secs(10), "hold");
    let deadlines: [(&str, Duration); 9] = [
        ("0", Duration::ZERO),
        ("1ns", Duration::from_nanos(1)),
        ("1ms", Duration::from_millis(1)),
        ("2y+1d", Duration::from_secs(731 * 86_400)),
        ("3y", Duration::from_secs(3 * 365 * 86_400)),
        ("30y", Duration::from_secs(30 * 365 * 86_400)),
        ("u32::MAX s", Duration::from_secs(u32::MAX as u64)),
        ("1e12 s", Duration::from_secs(1_000_000_000_000)),
        ("u64::MAX s", Duration::new(u64::MAX, 999_999_999)),
    ];
    for (name, d) in deadlines {
        for copies in 1..=2usize {
            let dup = request_msg(codec, 5, d, "hold");
            let mut input = held.clone();
            for _ in 0..copies {
                input.extend_from_slice(&dup);
            }
            input.extend_from_slice(&probe_frame(codec));
            st.evals += 1;
            st.distinct.insert(h(&(codec, "dup-deadline", name, copies)));
            let label = format!("{codec:?} request 5 (10 s) in flight, then {copies} duplicates of it stating {name} left, then a probe");
            let r = serve_held(codec, &input);
            if let Some(p) = &r.panic {
                failure(st, format!("C16-server-panic/{}", site(p)), format!("{label}: {p}"));
            } else if r.stuck {
                failure(st, "C16-server-stuck".into(), label);
            } else if !r.probe_answered {
                failure(st, "C16-server-stops-serving".into(), format!("{label}: the probe was never answered"));
            } else if r.responses != 1 {
                failure(st, "C16-server-flood-answered".into(), format!("{label}: {} responses, only the probe should be answered", r.responses));
            }
        }
    }
}

/// like `c16::serve_bytes`, but requests whose payload starts with "hold" stay in flight
pub fn serve_held(codec: Codec, input: &[u8]) -> ServeResult {
    let mut res = ServeResult::default();
    let io = StageIo::default();
    io.inbox.borrow_mut().extend(input.iter().copied());
    io.eof.set(true);
    let r = catch_unwind(AssertUnwindSafe(|| {
        let mut srv = Srv { stream: server_over(codec, io.clone()), handlers: vec![], ended: false };
        srv.drive()
    }));
    match r {
        Ok(Ok(spin)) => res.stuck = spin,
        Ok(Err(p)) => res.panic = Some(p),
        Err(_) => res.panic = Some(take_panic()),
    }
    let bytes = io.out.borrow().clone();
    let (items, _) = decode::<Response<String>>(codec, &bytes, &[], false);
    res.responses = items.len();
    res.probe_answered = items.iter().any(|s| s.contains(&format!("request_id: {PROBE_ID},")));
    res
}

// ---------------------------------------------------------------------------------------------
// client: connections of every age, floods of unsolicited responses

type Dispatch = Pin<Box<dyn Future<Output = Result<(), String>>>>;
type Call = Pin<Box<dyn Future<Output = Result<String, client::RpcError>>>>;

fn client_over(codec: Codec, io: StageIo) -> (client::Channel<String, String>, Dispatch) {
    let framed = Framed::new(io, LengthDelimitedCodec::new());
    macro_rules! go {
        ($c:expr) => {{
            let t = tarpc::serde_transport::new::<_, Response<String>, ClientMessage<String>, _>(framed, $c);
            let nc = client::new::<String, String, _>(client::Config::default(), t);
            let d = nc.dispatch;
            (nc.client, Box::pin(async move { d.await.map_err(|e| e.to_string()) }) as Dispatch)
        }};
    }
    match codec {
        Codec::Json => go!(Json::<Response<String>, ClientMessage<String>>::default()),
        Codec::Bincode => go!(Bincode::<Response<String>, ClientMessage<String>>::default()),
    }
}

struct Cli {
    dispatch: Option<Dispatch>,
    dispatch_out: Option<String>,
    calls: Vec<(Option<Call>, Option<String>)>,
}

impl Cli {
    fn drive(&mut self) -> Result<bool, String> {
        let r = catch_unwind(AssertUnwindSafe(|| {
            let flag = Flag::new(false);
            let waker = Waker::from(flag.clone());
            let mut cx = Context::from_waker(&waker);
            for _ in 0..20_000 {
                let mut progress = flag.is_set();
                flag.clear();
                for (c, out) in self.calls.iter_mut() {
                    if let Some(f) = c.as_mut() {
                        if let Poll::Ready(o) = f.as_mut().poll(&mut cx) {
                            *out = Some(match o {
                                Ok(s) => format!("Ok({s})"),
                                Err(e) => format!("Err({e})"),
                            });
                            *c = None;
                            progress = true;
                        }
                    }
                }
                if let Some(d) = self.dispatch.as_mut() {
                    if let Poll::Ready(o) = d.as_mut().poll(&mut cx) {
                        self.dispatch_out = Some(format!("{o:?}"));
                        self.dispatch = None;
                        progress = true;
                    }
                }
                if !progress && !flag.is_set() {
                    return false;
                }
            }
            true
        }));
        r.map_err(|_| take_panic())
    }
}

fn reply(codec: Codec, id: u64, s: &str) -> Vec<u8> {
    frame(&encode_body(codec, &Response::<String> { request_id: id, message: Ok(s.into()) }))
}

pub async fn client_age_cases(st: &mut S16, codec: Codec) {
    for prior in [Prior::Fresh, Prior::Served, Prior::Held] {
        for (an, age) in ages() {
            for (dn, d) in age_durations() {
                st.evals += 1;
                st.distinct.insert(h(&(codec, "client-age", prior, an, dn)));
                let label = format!("{codec:?} client connection {prior:?}, aged {an}, then a local call with deadline now+{dn}");
                if st.samples.len() < 2 {
                    st.samples.push(label.clone());
                }
                let io = StageIo::default();
                let built = catch_unwind(AssertUnwindSafe(|| client_over(codec, io.clone())));
                let Ok((ch, dispatch)) = built else {
                    failure(st, format!("C16-client-panic/{}", site(&take_panic())), label);
                    continue;
                };
                let mut cli = Cli { dispatch: Some(dispatch), dispatch_out: None, calls: vec![] };
                let mut fail: Option<(String, String)> = None;
                let mut next_id = 0u64;
                macro_rules! drive {
                    () => {
                        match cli.drive() {
                            Ok(false) => {}
                            Ok(true) => fail = fail.or(Some(("C16-client-stuck".into(), label.clone()))),
                            Err(p) => fail = fail.or(Some((format!("C16-client-panic/{}", site(&p)), format!("{label}: {p}")))),
                        }
                    };
                }
                if prior != Prior::Fresh {
                    let mut ctx = context::current();
                    if prior == Prior::Held {
                        ctx.deadline = tokio::time::Instant::now().into_std() + Duration::from_secs(2 * 365 * DAY + 5 * DAY);
                    }
                    let c = ch.clone();
                    cli.calls.push((Some(Box::pin(async move { c.call(ctx, "one".to_string()).await })), None));
                    drive!();
                    if prior == Prior::Served {
                        io.inbox.borrow_mut().extend(reply(codec, next_id, "r1"));
                        drive!();
                        if fail.is_none() && cli.calls[0].1.as_deref() != Some("Ok(r1)") {
                            fail = Some(("C16-client-call-lost".into(), format!("{label}: the first call ended with {:?}", cli.calls[0].1)));
                        }
                    }
                    next_id += 1;
                }
                if fail.is_none() && age > Duration::ZERO {
                    tokio::time::advance(age).await;
                    drive!();
                }
                if fail.is_none() {
                    let now = tokio::time::Instant::now().into_std();
                    if let Some(deadline) = now.checked_add(d) {
                        let mut ctx = context::current();
                        ctx.deadline = deadline;
                        let c = ch.clone();
                        let k = cli.calls.len();
                        cli.calls.push((Some(Box::pin(async move { c.call(ctx, "two".to_string()).await })), None));
                        drive!();
                        io.inbox.borrow_mut().extend(reply(codec, next_id, "r2"));
                        drive!();
                        let out = cli.calls[k].1.clone();
                        let expired_ok = d <= Duration::from_nanos(1) && out.as_deref() == Some("Err(the request exceeded its deadline)");
                        if fail.is_none() && !expired_ok && out.as_deref() != Some("Ok(r2)") {
                            fail = Some(("C16-client-call-lost".into(), format!("{label}: the call ended with {out:?}, dispatch {:?}", cli.dispatch_out)));
                        }
                    }
                }
                let dropped = catch_unwind(AssertUnwindSafe(move || {
                    drop(cli);
                    drop(ch);
                }));
                if dropped.is_err() {
                    let p = take_panic();
                    fail = fail.or(Some((format!("C16-client-panic/{}", site(&p)), format!("{label} (on drop): {p}"))));
                }
                if let Some((sig, msg)) = fail {
                    failure(st, sig, msg);
                }
            }
        }
    }
}

/// `n` responses for ids never used (and `m` duplicates of the real reply afterwards) around
/// the real reply of the one outstanding call.
pub fn client_flood_cases(st: &mut S16, codec: Codec, n: usize) {
    for a in 0..=n {
        for b in [0usize, 1, n] {
            let mut input = vec![];
            for i in 0..a {
                input.extend_from_slice(&reply(codec, 1000 + i as u64, "x"));
            }
            input.extend_from_slice(&reply(codec, 0, "r"));
            for _ in 0..b {
                input.extend_from_slice(&reply(codec, 0, "again"));
            }
            st.evals += 1;
            st.distinct.insert(h(&(codec, "client-flood", a, b)));
            let r = client_bytes(codec, None, &input);
            let label = format!("{codec:?} {a} responses for ids never used, the reply, {b} duplicates of the reply");
            if let Some(p) = &r.panic {
                failure(st, format!("C16-client-panic/{}", site(p)), format!("{label}: {p}"));
            } else if r.stuck || r.call.as_deref() != Some("Ok(1)") {
                failure(st, "C16-client-call-lost".into(), format!("{label}: call {:?} dispatch {:?}", r.call, r.dispatch));
            }
        }
    }
}

// ---------------------------------------------------------------------------------------------
// a macro-generated client stub receiving a well-typed response of another method

mod two {
    #[tarpc::service]
    pub trait Two {
        async fn number(x: u32) -> u32;
        async fn text(s: String) -> String;
    }
}

/// A frame that does not decode arrives while n calls are queued, the dispatch being a spawned
/// tokio task (cooperative budget on): the connection ends with an error - the dispatch stops,
/// nothing is written afterwards, no call is left hanging.
pub fn spawned_backlog_cases(st: &mut S16, thorough: bool) {
    for cfg in crate::burst::configs_many(crate::burst::Side::SpawnedClientReadFault, thorough) {
        st.evals += 1;
        st.distinct.insert(h(&("spawned-backlog", cfg.n)));
        // (own thread: the burst builds a runtime of its own)
        let out = std::thread::spawn(move || crate::burst::run_cfg(&cfg, false)).join();
        match out {
            Ok(o) => {
                for v in o.violations {
                    crate::c16::failure(st, format!("C16-malformed-not-fatal/{}", v.signature), v.message);
                }
            }
            Err(_) => crate::c16::failure(st, "C16-client-panic/spawned-backlog".into(), format!("{} queued calls, malformed frame: panic", cfg.n)),
        }
    }
}

pub fn stub_variant_cases(st: &mut S16) {
    use two::{TwoClient, TwoRequest, TwoResponse};
    for call_text in [false, true] {
        for answer_text in [false, true] {
            st.evals += 1;
            st.distinct.insert(h(&("stub-variant", call_text, answer_text)));
            let label = format!(
                "generated client calls {}() and the peer answers with a well-typed response of {}()",
                if call_text { "text" } else { "number" },
                if answer_text { "text" } else { "number" }
            );
            if st.samples.len() < 4 {
                st.samples.push(label.clone());
            }
            let r = catch_unwind(AssertUnwindSafe(|| {
                let (ct, st_) = tarpc::transport::channel::unbounded::<Response<TwoResponse>, ClientMessage<TwoRequest>>();
                let mut server_end: tarpc::transport::channel::UnboundedChannel<ClientMessage<TwoRequest>, Response<TwoResponse>> = st_;
                let nc = TwoClient::new(client::Config::default(), ct);
                let client = nc.client;
                let mut dispatch = Box::pin(nc.dispatch);
                let call: Pin<Box<dyn Future<Output = String>>> = if call_text {
                    Box::pin(async move { format!("{:?}", client.text(context::current(), "s".into()).await.map_err(|e| e.to_string())) })
                } else {
                    Box::pin(async move { format!("{:?}", client.number(context::current(), 7).await.map_err(|e| e.to_string())) })
                };
                let mut call = call;
                let waker = futures::task::noop_waker();
                let mut cx = Context::from_waker(&waker);
                let mut answered = false;
                for _ in 0..200 {
                    if let Poll::Ready(o) = call.as_mut().poll(&mut cx) {
                        return Some(o);
                    }
                    let _ = dispatch.as_mut().poll(&mut cx);
                    if !answered {
                        if let Poll::Ready(Some(Ok(ClientMessage::Request(req)))) = Pin::new(&mut server_end).poll_next(&mut cx) {
                            let message = if answer_text { TwoResponse::Text("t".into()) } else { TwoResponse::Number(8) };
                            let _ = Pin::new(&mut server_end).start_send(Response { request_id: req.id, message: Ok(message) });
                            answered = true;
                        }
                    }
                }
                None
            }));
            match r {
                Err(_) => {
                    let p = take_panic();
                    failure(st, "C16-client-panic/stub-unexpected-response-variant".into(), format!("{label}: {p}"));
                }
                Ok(None) => failure(st, "C16-client-stuck".into(), label),
                Ok(Some(out)) => {
                    if call_text == answer_text && !out.starts_with("Ok(") {
                        failure(st, "C16-client-call-lost".into(), format!("{label}: {out}"));
                    }
                }
            }
        }
    }
}

type PeerEnd = tarpc::transport::channel::Channel<Response<String>, ClientMessage<String>>;
/// one server poll (up to 3 items), then the peer reads what is there (at most 2 responses)
fn flood_round<S, E>(
    reqs: &mut Pin<Box<S>>,
    peer: &mut PeerEnd,
    held: &mut Vec<tarpc::server::InFlightRequest<String, String>>,
    cx: &mut Context<'_>,
    refused: &mut usize,
    probe_answered: &mut bool,
) -> Result<(), String>
where
    S: futures::Stream<Item = Result<tarpc::server::InFlightRequest<String, String>, E>>,
    E: std::fmt::Display,
{
    use futures::Stream;
    for _ in 0..3 {
        match reqs.as_mut().poll_next(cx) {
            Poll::Ready(Some(Ok(r))) => held.push(r),
            Poll::Ready(Some(Err(e))) => return Err(format!("the server channel reported {e} and the connection is gone")),
            Poll::Ready(None) => return Err("the server channel ended".into()),
            Poll::Pending => break,
        }
    }
    for _ in 0..2 {
        match Pin::new(&mut *peer).poll_next(cx) {
            Poll::Ready(Some(Ok(resp))) => {
                if resp.request_id == 9_999 {
                    *probe_answered = resp.message.is_ok();
                } else if resp.message.is_err() {
                    *refused += 1;
                }
            }
            Poll::Ready(Some(Err(e))) => return Err(format!("the peer's read failed: {e}")),
            Poll::Ready(None) => return Err("the peer sees end-of-stream".into()),
            Poll::Pending => break,
        }
    }
    Ok(())
}

/// A channel with a request limit over tarpc's own bounded in-memory transport: one request is held
/// in flight, then a flood of further well-formed requests (fresh ids, or duplicates of one
/// over-limit id) arrives in one go while the peer is slow to read its responses. Every one of them
/// is refused, none of this ends the connection, and once the held request is cancelled a probe is
/// served. (The peer reads one response between any two polls of the server at the latest.)
pub fn limited_bounded_flood_cases(st: &mut S16, n: usize) {
    use futures::{Sink, Stream};
    use tarpc::server::{BaseChannel, Channel};
    use tarpc::Request;
    for cap in [0usize, 1, 2] {
        for limit in [1usize, 2] {
            for flood in 1..=n {
                for dup in [false, true] {
                    st.evals += 1;
                    st.distinct.insert(h(&("limited-bounded-flood", cap, limit, flood, dup)));
                    let label = format!("limit {limit} over bounded({cap}): {limit} requests held in flight, then {flood} more {} in one go", if dup { "copies of one id" } else { "with fresh ids" });
                    let r = catch_unwind(AssertUnwindSafe(|| -> Result<(), String> {
                        let (mut peer, server_end) = tarpc::transport::channel::bounded::<Response<String>, ClientMessage<String>>(cap);
                        let mut reqs = Box::pin(BaseChannel::with_defaults(server_end).max_concurrent_requests(limit).requests());
                        let waker = futures::task::noop_waker();
                        let mut cx = Context::from_waker(&waker);
                        let mk = |id: u64| {
                            let mut ctx = context::current();
                            ctx.deadline = std::time::Instant::now() + Duration::from_secs(3600);
                            ClientMessage::Request(Request { context: ctx, id, message: "x".to_string() })
                        };
                        let send = |peer: &mut PeerEnd, m: ClientMessage<String>, cx: &mut Context<'_>| -> Result<(), String> {
                            for _ in 0..4 {
                                if let Poll::Ready(r) = Pin::new(&mut *peer).poll_ready(cx) {
                                    r.map_err(|e| format!("the peer cannot send: {e}"))?;
                                    return Pin::new(&mut *peer).start_send(m).map_err(|e| format!("the peer cannot send: {e}"));
                                }
                            }
                            Err("machinery: the peer's sender stays full".into())
                        };
                        let mut held = vec![];
                        let mut refused = 0usize;
                        let mut probe_answered = false;
                        for id in 0..limit as u64 {
                            send(&mut peer, mk(id), &mut cx)?;
                            flood_round(&mut reqs, &mut peer, &mut held, &mut cx, &mut refused, &mut probe_answered)?;
                        }
                        if held.len() != limit {
                            return Err(format!("machinery: {} of {limit} requests were handed over", held.len()));
                        }
                        // the flood: as many as the peer's sender takes at once, the rest as room returns
                        let mut sent = 0usize;
                        for _ in 0..(8 * flood + 16) {
                            while sent < flood {
                                let id = if dup { 100 } else { 100 + sent as u64 };
                                match Pin::new(&mut peer).poll_ready(&mut cx) {
                                    Poll::Ready(Ok(())) => {
                                        Pin::new(&mut peer).start_send(mk(id)).map_err(|e| format!("the peer cannot send: {e}"))?;
                                        sent += 1;
                                    }
                                    Poll::Ready(Err(e)) => return Err(format!("the peer cannot send: {e}")),
                                    Poll::Pending => break,
                                }
                            }
                            flood_round(&mut reqs, &mut peer, &mut held, &mut cx, &mut refused, &mut probe_answered)?;
                            if sent == flood && refused == flood {
                                break;
                            }
                        }
                        if held.len() != limit {
                            return Err(format!("{} requests were handed to the application with a limit of {limit}", held.len()));
                        }
                        if refused != flood {
                            return Err(format!("{refused} of {flood} excess requests were refused"));
                        }
                        // the held requests are answered; then the probe must be served
                        let first: Vec<_> = held.drain(..).collect();
                        for r in first {
                            let f = r.execute(tarpc::server::serve(|_, s: String| async move { Ok(s) }));
                            let mut f = Box::pin(f);
                            for _ in 0..4 {
                                if f.as_mut().poll(&mut cx).is_ready() {
                                    break;
                                }
                                flood_round(&mut reqs, &mut peer, &mut held, &mut cx, &mut refused, &mut probe_answered)?;
                            }
                        }
                        for _ in 0..6 {
                            flood_round(&mut reqs, &mut peer, &mut held, &mut cx, &mut refused, &mut probe_answered)?;
                        }
                        send(&mut peer, mk(9_999), &mut cx)?;
                        for _ in 0..8 {
                            flood_round(&mut reqs, &mut peer, &mut held, &mut cx, &mut refused, &mut probe_answered)?;
                            for r in held.drain(..) {
                                let f = r.execute(tarpc::server::serve(|_, s: String| async move { Ok(s) }));
                                let mut f = Box::pin(f);
                                let _ = f.as_mut().poll(&mut cx);
                            }
                            if probe_answered {
                                return Ok(());
                            }
                        }
                        Err("the probe request after the flood was not served".into())
                    }));
                    match r {
                        Err(_) => {
                            let p = take_panic();
                            failure(st, "C16-server-panic/limited-bounded-flood".into(), format!("{label}: {p}"));
                        }
                        Ok(Err(m)) if m.starts_with("machinery") => failure(st, "C16-machinery".into(), format!("{label}: {m}")),
                        Ok(Err(m)) => failure(st, "C16-server-stops-serving".into(), format!("{label}: {m}")),
                        Ok(Ok(())) => {}
                    }
                }
            }
        }
    }
}

/// A flood of n well-formed requests with distinct ids, all in flight at once, then a cancellation
/// for each (or an answer to each), then a probe: sizes around every power of two up to `max`
/// (tables and queues that grow in steps show at the step), on the server and - as a burst of n
/// calls answered in one go - on the client.
pub fn distinct_flood_cases(st: &mut S16, max: usize) {
    use futures::{Sink, Stream};
    use tarpc::server::{BaseChannel, Channel};
    use tarpc::Request;
    let mut sizes: Vec<usize> = vec![1, 2, 3];
    let mut p = 4usize;
    while p <= max {
        sizes.extend([p - 1, p, p + 1]);
        p *= 2;
    }
    sizes.extend([895, 896, 897, 898, 1000, 1792, 1793]);
    sizes.retain(|n| *n <= max + 1);
    sizes.sort();
    sizes.dedup();
    for n in sizes {
        for answer in [false, true] {
            st.evals += 1;
            st.distinct.insert(h(&("distinct-flood", n, answer)));
            let label = format!("{n} requests with distinct ids in flight at once, then {} each, then a probe", if answer { "an answer to" } else { "a cancellation for" });
            let r = catch_unwind(AssertUnwindSafe(|| -> Result<(), String> {
                let (mut peer, server_end) = tarpc::transport::channel::unbounded::<Response<String>, ClientMessage<String>>();
                let mut reqs = Box::pin(BaseChannel::with_defaults(server_end).requests());
                let waker = futures::task::noop_waker();
                let mut cx = Context::from_waker(&waker);
                let deadline = std::time::Instant::now() + Duration::from_secs(3600);
                let mk = |id: u64| {
                    let mut ctx = context::current();
                    ctx.deadline = deadline;
                    ClientMessage::Request(Request { context: ctx, id, message: "x".to_string() })
                };
                for id in 0..n as u64 {
                    Pin::new(&mut peer).start_send(mk(id)).map_err(|e| format!("machinery: {e}"))?;
                }
                let mut held = vec![];
                for _ in 0..(2 * n + 8) {
                    match reqs.as_mut().poll_next(&mut cx) {
                        Poll::Ready(Some(Ok(r))) => held.push(r),
                        Poll::Ready(Some(Err(e))) => return Err(format!("the server channel reported {e}")),
                        Poll::Ready(None) => return Err("the server channel ended".into()),
                        Poll::Pending => break,
                    }
                }
                if held.len() != n {
                    return Err(format!("{} of {n} requests were handed over", held.len()));
                }
                if answer {
                    for r in held.drain(..) {
                        let mut f = Box::pin(r.execute(tarpc::server::serve(|_, s: String| async move { Ok(s) })));
                        let _ = f.as_mut().poll(&mut cx);
                    }
                } else {
                    for id in 0..n as u64 {
                        let tc = tarpc::trace::Context::default();
                        Pin::new(&mut peer).start_send(ClientMessage::Cancel { trace_context: tc, request_id: id }).map_err(|e| format!("machinery: {e}"))?;
                    }
                }
                for _ in 0..(2 * n + 8) {
                    if let Poll::Ready(Some(Err(e))) = reqs.as_mut().poll_next(&mut cx) {
                        return Err(format!("the server channel reported {e}"));
                    }
                }
                drop(held);
                Pin::new(&mut peer).start_send(mk(9_999_999)).map_err(|e| format!("machinery: {e}"))?;
                let mut probe = None;
                for _ in 0..4 {
                    match reqs.as_mut().poll_next(&mut cx) {
                        Poll::Ready(Some(Ok(r))) => probe = Some(r),
                        Poll::Ready(Some(Err(e))) => return Err(format!("the server channel reported {e}")),
                        Poll::Ready(None) => return Err("the server channel ended".into()),
                        Poll::Pending => {}
                    }
                }
                let Some(pr) = probe else { return Err("the probe request after the flood was not handed over".into()) };
                let mut f = Box::pin(pr.execute(tarpc::server::serve(|_, s: String| async move { Ok(s) })));
                let _ = f.as_mut().poll(&mut cx);
                let _ = reqs.as_mut().poll_next(&mut cx);
                let mut answered = false;
                while let Poll::Ready(Some(Ok(resp))) = Pin::new(&mut peer).poll_next(&mut cx) {
                    if resp.request_id == 9_999_999 && resp.message.is_ok() {
                        answered = true;
                    }
                }
                if answered {
                    Ok(())
                } else {
                    Err("the probe request after the flood was not answered".into())
                }
            }));
            match r {
                Err(_) => {
                    let p = take_panic();
                    failure(st, "C16-server-panic/distinct-flood".into(), format!("{label}: {p}"));
                }
                Ok(Err(m)) if m.starts_with("machinery") => failure(st, "C16-machinery".into(), format!("{label}: {m}")),
                Ok(Err(m)) => failure(st, "C16-server-stops-serving".into(), format!("{label}: {m}")),
                Ok(Ok(())) => {}
            }
            // the client: n calls outstanding at once (the default limits allow 1000), all answered in one go
            if n > 1000 {
                continue;
            }
            st.evals += 1;
            let label = format!("{n} calls outstanding at once on one client, all answered in one go");
            let r = catch_unwind(AssertUnwindSafe(|| -> Result<(), String> {
                let (ct, mut server_end) = tarpc::transport::channel::unbounded::<Response<String>, ClientMessage<String>>();
                let mut cfg = client::Config::default();
                cfg.pending_request_buffer = n.max(1);
                let nc = client::new::<String, String, _>(cfg, ct);
                let ch = nc.client;
                let mut dispatch = Box::pin(nc.dispatch);
                let waker = futures::task::noop_waker();
                let mut cx = Context::from_waker(&waker);
                let mut calls: Vec<Pin<Box<dyn Future<Output = Result<String, client::RpcError>>>>> = vec![];
                for i in 0..n {
                    let c = ch.clone();
                    let mut ctx = context::current();
                    ctx.deadline = std::time::Instant::now() + Duration::from_secs(3600);
                    let mut f: Pin<Box<dyn Future<Output = Result<String, client::RpcError>>>> = Box::pin(async move { c.call(ctx, format!("q{i}")).await });
                    let _ = f.as_mut().poll(&mut cx);
                    calls.push(f);
                }
                for _ in 0..4 {
                    if let Poll::Ready(r) = dispatch.as_mut().poll(&mut cx) {
                        return Err(format!("the dispatch ended with {r:?}"));
                    }
                }
                let mut ids = vec![];
                while let Poll::Ready(Some(Ok(m))) = Pin::new(&mut server_end).poll_next(&mut cx) {
                    if let ClientMessage::Request(r) = m {
                        ids.push(r.id);
                    }
                }
                if ids.len() != n {
                    return Err(format!("{} of {n} requests reached the peer", ids.len()));
                }
                for id in ids {
                    Pin::new(&mut server_end).start_send(Response { request_id: id, message: Ok("a".to_string()) }).map_err(|e| format!("machinery: {e}"))?;
                }
                for _ in 0..4 {
                    if let Poll::Ready(r) = dispatch.as_mut().poll(&mut cx) {
                        return Err(format!("the dispatch ended with {r:?}"));
                    }
                }
                let mut ok = 0;
                for f in calls.iter_mut() {
                    if let Poll::Ready(Ok(_)) = f.as_mut().poll(&mut cx) {
                        ok += 1;
                    }
                }
                if ok == n {
                    Ok(())
                } else {
                    Err(format!("{ok} of {n} calls completed with their reply"))
                }
            }));
            match r {
                Err(_) => {
                    let p = take_panic();
                    failure(st, "C16-client-panic/distinct-flood".into(), format!("{label}: {p}"));
                }
                Ok(Err(m)) if m.starts_with("machinery") => failure(st, "C16-machinery".into(), format!("{label}: {m}")),
                Ok(Err(m)) => failure(st, "C16-client-call-lost".into(), format!("{label}: {m}")),
                Ok(Ok(())) => {}
            }
        }
    }
}
