//! Per-property driver: iterate deviation bounds, double-replay violations, match known
//! findings, write replay files and evidence (DESIGN.md §3.6, §3.7, §6).

use crate::explore::*;
use serde_json::{json, Value};
use std::collections::BTreeMap;
use std::path::PathBuf;
use std::time::{Duration, Instant};

pub fn verif_dir() -> PathBuf {
    std::env::var("VERIF_DIR")
        .map(PathBuf::from)
        .unwrap_or_else(|_| PathBuf::from("/verif"))
}

#[derive(Clone, Copy, PartialEq, Eq, Debug)]
pub enum Tier {
    Quick,
    Thorough,
}

impl Tier {
    pub fn name(self) -> &'static str {
        match self {
            Tier::Quick => "quick",
            Tier::Thorough => "thorough",
        }
    }
}

pub fn seed() -> i64 {
    std::env::var("VERIF_SEED")
        .ok()
        .and_then(|s| s.parse().ok())
        .unwrap_or(0)
}

pub struct Known {
    pub property: String,
    pub signature: String,
    pub what: String,
}

pub fn load_known(prop: &str) -> Vec<Known> {
    let p = verif_dir().join("known_findings.json");
    let Ok(s) = std::fs::read_to_string(&p) else {
        return vec![];
    };
    let Ok(v) = serde_json::from_str::<Value>(&s) else {
        eprintln!("machinery: known_findings.json does not parse");
        std::process::exit(2);
    };
    let mut out = vec![];
    for e in v["findings"].as_array().cloned().unwrap_or_default() {
        if e["status"] == "known" && e["property"] == prop {
            out.push(Known {
                property: prop.to_string(),
                signature: e["signature"].as_str().unwrap_or("").to_string(),
                what: e["what"].as_str().unwrap_or("").to_string(),
            });
        }
    }
    out
}

pub struct Spec {
    pub prop: &'static str,
    pub level: &'static str,
    pub tier: Tier,
    /// deviation bounds to iterate, in order
    pub bounds: Vec<u32>,
    /// bounds below this index must complete; later ones may be cut by the wall cap
    pub wall_cap: Duration,
    pub rule: String,
    pub assumptions: Vec<String>,
    pub extra: BTreeMap<String, Value>,
    /// failures found by an extra, non-explorer part of the check: (signature, case description)
    pub extra_failures: Vec<(String, String)>,
}

fn fnv(s: &str) -> u64 {
    let mut h: u64 = 0xcbf29ce484222325;
    for b in s.bytes() {
        h ^= b as u64;
        h = h.wrapping_mul(0x100000001b3);
    }
    h
}

pub struct Verdict {
    pub violations: Vec<(String, PathBuf)>,
    pub known_seen: Vec<String>,
    pub machinery: Vec<String>,
}

/// Writes the replay artefact for a found violation after replaying it twice.
pub fn confirm_and_write(
    h: &dyn Harness,
    prop: &str,
    f: &Found,
    machinery: &mut Vec<String>,
) -> Option<PathBuf> {
    let (a, _) = h.run(f.cfg, &f.choices, true);
    let (b, _) = h.run(f.cfg, &f.choices, false);
    let in_a = a.violations.iter().any(|v| v.signature == f.v.signature);
    let in_b = b.violations.iter().any(|v| v.signature == f.v.signature);
    // The same schedule must fail every time. When the two replays differ in their traces but
    // both break the same rule, the nondeterminism is the subject's own (say, a freshly drawn
    // random number in a field that should have been copied) and the verdict stands; a verdict
    // that shows in one replay only is not believed.
    let subject_nondeterministic = a.trace_hash != b.trace_hash;
    if !(in_a && in_b) {
        machinery.push(format!(
            "violation {} did not reproduce on replay ({})",
            f.v.signature,
            if subject_nondeterministic { "and the two replays differ" } else { "deterministic replay" }
        ));
        return None;
    }
    let dir = verif_dir().join("replays").join(prop);
    let _ = std::fs::create_dir_all(&dir);
    let path = dir.join(format!("{:016x}.json", fnv(&f.v.signature)));
    let doc = json!({
        "property": prop,
        "harness": h.name(),
        "signature": f.v.signature,
        "message": f.v.message,
        "config_index": f.cfg,
        "config": h.config_json(f.cfg),
        "choices": f.choices,
        "deviations": cost(&f.choices),
        "replays_differ_but_both_break_the_rule": subject_nondeterministic,
        "trace": a.render.unwrap_or_default().lines().map(|l| l.to_string()).collect::<Vec<_>>(),
    });
    std::fs::write(&path, serde_json::to_string_pretty(&doc).unwrap()).ok()?;
    Some(path)
}

pub struct Summary {
    pub bound_completed: Option<u32>,
    pub bound_interrupted_at: Option<(u32, u64)>,
    pub stats: Option<Stats>,
    pub rounds: Vec<Value>,
    pub found: Vec<Found>,
    pub machinery: Vec<String>,
}

pub fn iterate_dyn(h: &dyn Harness, spec: &Spec, cap: Instant, known: &[Known]) -> Summary {
    let mut sum = Summary {
        bound_completed: None,
        bound_interrupted_at: None,
        stats: None,
        rounds: vec![],
        found: vec![],
        machinery: vec![],
    };
    for (k, b) in spec.bounds.iter().enumerate() {
        let deadline = if k == 0 { None } else { Some(cap) };
        if let Some(d) = deadline {
            if Instant::now() > d {
                break;
            }
        }
        let r = explore_round(h, *b, deadline);
        sum.rounds.push(json!({
            "bound": b, "completed": r.completed, "executions": r.stats.evaluations,
            "wall_s": r.wall.as_secs_f64(), "violating_executions": r.stats.found.len(),
        }));
        sum.machinery.extend(r.stats.machinery.iter().cloned());
        if !r.completed {
            sum.bound_interrupted_at = Some((*b, r.stats.evaluations));
            // violations seen in a cut round are still real
            sum.found.extend(r.stats.found.iter().cloned());
            break;
        }
        sum.bound_completed = Some(*b);
        // known findings do not stop the iteration; anything else does
        let has = r
            .stats
            .found
            .iter()
            .any(|f| !known.iter().any(|k| k.signature == f.v.signature));
        sum.found = r.stats.found.clone();
        sum.stats = Some(r.stats);
        if has {
            // the first counterexamples have the fewest deviations; stop here
            break;
        }
    }
    sum
}

/// Groups found violations by signature keeping the shortest choice vector of each.
pub fn dedupe(found: &[Found]) -> Vec<Found> {
    let mut m: BTreeMap<String, Found> = BTreeMap::new();
    for f in found {
        match m.get(&f.v.signature) {
            Some(g)
                if (cost(&g.choices), g.choices.len(), g.cfg)
                    <= (cost(&f.choices), f.choices.len(), f.cfg) => {}
            _ => {
                m.insert(f.v.signature.clone(), f.clone());
            }
        }
    }
    m.into_values().collect()
}

pub fn run_property<H: Harness>(h: &H, spec: Spec) -> i32 {
    run_parts(&[h as &dyn Harness], spec)
}

/// Runs every part (harness) of a property and merges the results into one evidence file.
pub fn run_parts(parts: &[&dyn Harness], spec: Spec) -> i32 {
    let start = Instant::now();
    let known = load_known(spec.prop);
    let mut known_seen = vec![];
    let mut violations: Vec<(String, PathBuf)> = vec![];
    let mut machinery: Vec<String> = vec![];
    let mut samples = vec![];
    let mut part_docs = vec![];
    let mut tot = Stats::default();
    let (mut states, mut nontrivial, mut outcomes) = (0usize, 0usize, 0usize);
    let mut bound_completed: Option<u32> = None;
    let mut all_completed = true;
    let mut interrupted: Vec<Value> = vec![];
    let mut configs = 0;
    // the wall cap is shared: each part gets an equal slice of what is left
    for (pi, h) in parts.iter().enumerate() {
        let left = spec.wall_cap.saturating_sub(start.elapsed());
        let slice = left / (parts.len() - pi) as u32;
        let part_spec_cap = Instant::now() + slice;
        let sum = iterate_dyn(*h, &spec, part_spec_cap, &known);
        machinery.extend(sum.machinery.iter().cloned());
        for f in dedupe(&sum.found) {
            if let Some(k) = known.iter().find(|k| k.signature == f.v.signature) {
                if !known_seen.contains(&k.signature) {
                    known_seen.push(k.signature.clone());
                    println!("KNOWN-FINDING: property={} {}", spec.prop, k.what);
                }
                let _ = confirm_and_write(*h, spec.prop, &f, &mut vec![]);
                continue;
            }
            if let Some(p) = confirm_and_write(*h, spec.prop, &f, &mut machinery) {
                println!("VIOLATION property={} replay={}", spec.prop, p.display());
                eprintln!("  {}: {}", f.v.signature, f.v.message);
                violations.push((f.v.signature.clone(), p));
            }
        }
        if h.n_configs() > 0 {
            let (o, _) = h.run(0, &[], true);
            samples.push(json!({"harness": h.name(), "config": h.config_json(0), "choices": [], "trace": o.render.unwrap_or_default().lines().take(100).collect::<Vec<_>>() }));
        }
        if let Some(st) = &sum.stats {
            if let Some((cfg, ch)) = &st.deepest {
                let (o, _) = h.run(*cfg, ch, true);
                samples.push(json!({"harness": h.name(), "config": h.config_json(*cfg), "choices": ch, "trace": o.render.unwrap_or_default().lines().take(140).collect::<Vec<_>>() }));
            }
        }
        match sum.bound_completed {
            Some(b) => bound_completed = Some(bound_completed.map(|x| x.min(b)).unwrap_or(b)),
            None => all_completed = false,
        }
        if let Some((b, n)) = sum.bound_interrupted_at {
            interrupted.push(json!({"harness": h.name(), "bound": b, "executions_when_cut": n}));
        }
        configs += h.n_configs();
        let st = sum.stats.unwrap_or_default();
        part_docs.push(json!({
            "harness": h.name(), "configs": h.n_configs(), "bound_completed": sum.bound_completed,
            "rounds": sum.rounds, "executions": st.evaluations, "states": st.states.len(),
            "transitions": st.transitions, "distinct_nontrivial": st.nontrivial.len(),
            "distinct_outcomes": st.outcomes.len(), "max_choice_points": st.max_points, "max_steps": st.max_steps,
        }));
        states += st.states.len();
        nontrivial += st.nontrivial.len();
        outcomes += st.outcomes.len();
        tot.evaluations += st.evaluations;
        tot.transitions += st.transitions;
        tot.extra_execs += st.extra_execs;
        tot.rechecks += st.rechecks;
        tot.max_points = tot.max_points.max(st.max_points);
        tot.max_steps = tot.max_steps.max(st.max_steps);
    }
    if !all_completed {
        bound_completed = None;
    }
    // Second regime: every tracing callsite enabled (a TRACE-level formatting subscriber writing
    // to a sink, installed process-wide once the plain exploration is over). tarpc's code paths
    // differ when its spans are enabled, and tracing evaluates event fields only then; the
    // properties must hold all the same. Bounds 0 and 1, own time cap.
    let mut trace_doc = json!({"run": false});
    if std::env::var("MC_NO_TRACE_PASS").is_err() && violations.is_empty() && machinery.is_empty() {
        install_trace_subscriber(spec.prop);
        let cap = Instant::now() + if spec.tier == Tier::Quick { Duration::from_secs(12) } else { Duration::from_secs(240) };
        let (mut execs, mut done_bound) = (0u64, None);
        'outer: for b in [0u32, 1] {
            for h in parts.iter() {
                let r = crate::explore::explore_round(*h, b, if b == 0 { None } else { Some(cap) });
                execs += r.stats.evaluations;
                for f in dedupe(&r.stats.found) {
                    if let Some(k) = known.iter().find(|k| k.signature == f.v.signature) {
                        let _ = k;
                        continue;
                    }
                    let mut m = vec![];
                    if let Some(p) = confirm_and_write(*h, spec.prop, &f, &mut m) {
                        // mark the replay file: it only reproduces under the subscriber
                        if let Ok(t) = std::fs::read_to_string(&p) {
                            if let Ok(mut d) = serde_json::from_str::<Value>(&t) {
                                d["regime"] = json!("trace-subscriber");
                                let _ = std::fs::write(&p, serde_json::to_string_pretty(&d).unwrap());
                            }
                        }
                        println!("VIOLATION property={} replay={}", spec.prop, p.display());
                        eprintln!("  {}: [second pass, process-wide tracing subscriber installed] {}", f.v.signature, f.v.message);
                        violations.push((f.v.signature.clone(), p));
                    }
                }
                if !r.completed {
                    break 'outer;
                }
            }
            done_bound = Some(b);
            if !violations.is_empty() {
                break;
            }
        }
        trace_doc = json!({"run": true, "executions": execs, "bound_completed": done_bound,
            "what": if otel_in_second_pass(spec.prop) { "the same harnesses explored again with a process-wide subscriber: a TRACE-level formatting layer (all callsites enabled, output discarded) plus a tracing-opentelemetry layer (spans carry trace contexts)" } else { "the same harnesses explored again with a process-wide TRACE-level tracing_subscriber::fmt subscriber (all callsites enabled, output discarded)" }});
    }
    {
        let mut by: BTreeMap<String, Vec<String>> = BTreeMap::new();
        for (sig, msg) in &spec.extra_failures {
            by.entry(sig.clone()).or_default().push(msg.clone());
        }
        for (sig, msgs) in by {
            let dir = verif_dir().join("replays").join(spec.prop);
            let _ = std::fs::create_dir_all(&dir);
            let path = dir.join(format!("{}.json", sig.replace(['/', ' '], "_")));
            let doc = json!({"property": spec.prop, "signature": sig, "cases": msgs.iter().take(20).collect::<Vec<_>>(), "count": msgs.len()});
            let _ = std::fs::write(&path, serde_json::to_string_pretty(&doc).unwrap());
            if let Some(k) = known.iter().find(|k| k.signature == sig) {
                println!("KNOWN-FINDING: property={} {}", spec.prop, k.what);
                known_seen.push(sig.clone());
            } else {
                println!("VIOLATION property={} replay={}", spec.prop, path.display());
                eprintln!("  {sig}: {} ({} cases)", msgs[0], msgs.len());
                violations.push((sig.clone(), path));
            }
        }
    }
    let mut cov = json!({
        "evaluations": tot.evaluations + tot.extra_execs,
        "executions": tot.evaluations,
        "differential_reruns": tot.extra_execs,
        "states": states,
        "transitions": tot.transitions,
        "traces_validated_against_impl": tot.evaluations,
        "distinct_nontrivial": nontrivial,
        "distinct_outcomes": outcomes,
        "rule": spec.rule,
        "samples": samples,
        "exhaustive": bound_completed.is_some() && machinery.is_empty(),
        "bound_completed": bound_completed,
        "bound_interrupted_at": interrupted,
        "parts": part_docs,
        "configs": configs,
        "max_choice_points": tot.max_points,
        "max_steps": tot.max_steps,
        "determinism_rechecks": tot.rechecks,
        "known_findings_seen": known_seen,
        "threads": nthreads(),
        "all_tracing_callsites_enabled_pass": trace_doc,
    });
    for (k, v) in &spec.extra {
        cov[k] = v.clone();
    }
    let ev = json!({
        "property_id": spec.prop,
        "tier": spec.tier.name(),
        "seed": seed(),
        "level": spec.level,
        "coverage": cov,
        "assumptions": spec.assumptions,
        "wall_s": start.elapsed().as_secs_f64(),
        "violations": violations.len(),
    });
    write_evidence(spec.prop, &ev);
    eprintln!(
        "{} {}: bound {:?} executions {} states {} transitions {} nontrivial {} outcomes {} wall {:.1}s violations {} known {}",
        spec.prop, spec.tier.name(), bound_completed, tot.evaluations, states, tot.transitions,
        nontrivial, outcomes, start.elapsed().as_secs_f64(), violations.len(), known_seen.len()
    );
    if !machinery.is_empty() {
        for m in machinery.iter().take(5) {
            eprintln!("machinery: {m}");
        }
        // a violation that was replayed twice stands on its own feet
        if !violations.is_empty() {
            return 1;
        }
        return 2;
    }
    if bound_completed.is_none() {
        eprintln!("machinery: no bound completed");
        return 2;
    }
    if violations.is_empty() {
        0
    } else {
        1
    }
}

/// Installs, once per process, a subscriber that enables every tracing callsite and discards
/// the output.
/// Properties whose second pass also carries a tracing-opentelemetry layer: the server-side ones,
/// whose oracles do not look at trace ids (under that layer tarpc takes trace contexts from spans,
/// and a server span has a trace id of its own to compare a peer's messages with - seeded change
/// C08j ignored cancellations whose trace id differed from the span's).
pub fn otel_in_second_pass(prop: &str) -> bool {
    matches!(prop, "C04" | "C06" | "C08" | "C11" | "C12")
}

pub fn install_trace_subscriber(prop: &str) {
    static ONCE: std::sync::Once = std::sync::Once::new();
    let otel = otel_in_second_pass(prop);
    ONCE.call_once(|| {
        use tracing_subscriber::layer::SubscriberExt;
        if otel {
            use opentelemetry::trace::TracerProvider as _;
            let provider = opentelemetry_sdk::trace::TracerProvider::builder().build();
            let tracer = provider.tracer("mc");
            std::mem::forget(provider);
            let sub = tracing_subscriber::registry()
                .with(tracing_subscriber::fmt::layer().with_writer(std::io::sink))
                .with(tracing_opentelemetry::layer().with_tracer(tracer));
            let _ = tracing::subscriber::set_global_default(sub);
        } else {
            let sub = tracing_subscriber::fmt().with_max_level(tracing::Level::TRACE).with_writer(std::io::sink).finish();
            let _ = tracing::subscriber::set_global_default(sub);
        }
        tracing::callsite::rebuild_interest_cache();
    });
}

pub fn write_evidence(prop: &str, ev: &Value) {
    let dir = verif_dir().join("evidence");
    let _ = std::fs::create_dir_all(&dir);
    let p = dir.join(format!("{prop}.json"));
    std::fs::write(&p, serde_json::to_string_pretty(ev).unwrap()).expect("write evidence");
}
