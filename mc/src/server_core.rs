//! `server_core`: the real `BaseChannel[.max_concurrent_requests(L)].requests()` (or the
//! `execute()` route) + gated handlers over a harness-owned transport; the harness plays the
//! client peer, the medium, the clock, the application and the scheduler.

use crate::explore::{Chooser, Point};
use crate::mock::*;
use futures::{Future, Stream, StreamExt};
use serde::{Deserialize, Serialize};
use std::cell::{Cell, RefCell};
use std::collections::{BTreeMap, BTreeSet};
use std::hash::{Hash, Hasher};
use std::panic::{catch_unwind, AssertUnwindSafe};
use std::pin::Pin;
use std::rc::Rc;
use std::sync::Arc;
use std::task::{Context, Poll, Waker};
use std::time::Duration;
use tarpc::server::limits::requests_per_channel::MaxRequests;
use tarpc::server::{self, BaseChannel, Channel, InFlightRequest, Requests};
use tarpc::{context, ChannelError, ClientMessage, Request, Response, ServerError};

pub const S_CANCEL: u32 = 1 << 0;
pub const S_CANCEL_UNKNOWN: u32 = 1 << 1;
pub const S_DUP: u32 = 1 << 2;
pub const S_EOF: u32 = 1 << 3;
pub const S_RERR: u32 = 1 << 4;
pub const S_FINISH: u32 = 1 << 5;
pub const S_DROPH: u32 = 1 << 6;
pub const S_DRAIN: u32 = 1 << 7;
pub const S_ADVANCE: u32 = 1 << 8;
pub const S_DROPCHAN: u32 = 1 << 9;

pub type ST = MockTransport<Response<u32>, ClientMessage<u32>>;
type BC = BaseChannel<u32, u32, ST>;
type HFut = Pin<Box<dyn Future<Output = ()>>>;
type Ifr = InFlightRequest<u32, u32>;

#[derive(Clone, Copy, Debug, PartialEq, Eq, Hash, Serialize, Deserialize)]
pub enum HKind {
    /// the application runs `execute` on the request
    Run,
    /// the application drops the InFlightRequest without executing it
    DropIfr,
    /// the application drops the execute future once it has been polled k times and is pending
    DropAfter(u32),
    /// the handler panics when it is first polled; the executor (like tokio::spawn) drops the task
    Panic,
    /// the handler returns at its first poll (nothing to wait for)
    Immediate,
}

#[derive(Clone, Debug, PartialEq, Eq, Hash, Serialize, Deserialize)]
pub struct ReqCfg {
    pub id: u64,
    pub deadline_ms: i64,
    /// the handler completes unprompted (Finish is a fair event) or only as a deviation
    pub finish: bool,
    pub hk: HKind,
    /// this script entry is a Cancel message for `id` instead of a request
    #[serde(default)]
    pub cancel: bool,
    /// the peer sends this entry no earlier than this many ms after the start of the run (the
    /// clock is advanced there first, as part of the canonical schedule)
    #[serde(default)]
    pub at_ms: Option<i64>,
    /// the handler's result is an error (a rejection), not a value
    #[serde(default)]
    pub fails: bool,
}

impl ReqCfg {
    pub fn simple(id: u64, finish: bool) -> Self {
        ReqCfg {
            id,
            deadline_ms: 10_000,
            finish,
            hk: HKind::Run,
            cancel: false,
            at_ms: None,
            fails: false,
        }
    }
    pub fn cancel_of(id: u64) -> Self {
        ReqCfg {
            cancel: true,
            ..ReqCfg::simple(id, false)
        }
    }
}

#[derive(Clone, Copy, Debug, PartialEq, Eq, Hash, Serialize, Deserialize)]
pub enum Route {
    Requests,
    Execute,
}

#[derive(Clone, Debug, PartialEq, Eq, Hash, Serialize, Deserialize)]
pub struct SCfg {
    pub reqs: Vec<ReqCfg>,
    pub limit: Option<usize>,
    pub resp_buf: usize,
    pub flavour: Flavour,
    pub cap: usize,
    pub alphabet: u32,
    pub fault: Option<Fault>,
    /// the application keeps polling `requests()` after a (transient) error item instead of
    /// dropping the channel
    #[serde(default)]
    pub serve_on_after_error: bool,
    pub eof_at_end: bool,
    pub route: Route,
    /// the peer sends its whole script at once, before the server is polled at all
    #[serde(default)]
    pub burst: bool,
    /// the peer may also reuse an id after cancelling it / after it expired, provided the earlier
    /// handler never completed (C08 only; see reuse_ok)
    #[serde(default)]
    pub reuse_after_end: bool,
    /// deadline of unscripted duplicate requests (DupReq events)
    #[serde(default = "default_dup_deadline")]
    pub dup_deadline_ms: i64,
    /// every request crosses a serializing hop on its way in (encoded with bincode and decoded
    /// again at the moment it is delivered): its deadline travels as the remaining duration,
    /// an already-passed one as zero
    #[serde(default)]
    pub via_serde: bool,
    /// the connection has been open and idle for this long before the first request arrives
    /// (request deadlines are still relative to the start of the run)
    #[serde(default)]
    pub start_age_ms: i64,
    /// the limit is configured on the listener (`Incoming::max_concurrent_requests_per_channel`)
    /// instead of on the channel (`Channel::max_concurrent_requests`)
    #[serde(default)]
    pub limit_via_incoming: bool,
    /// (Execute route) the channel is admitted through `Incoming::max_channels_per_key`, so the
    /// request pump talks to the transport through that adaptor's channel wrapper
    #[serde(default)]
    pub via_key_limit: bool,
}

fn default_dup_deadline() -> i64 {
    10_000
}

enum Reqs {
    Plain(Pin<Box<Requests<BC>>>),
    Limited(Pin<Box<Requests<MaxRequests<BC>>>>),
    Exec(Pin<Box<dyn Stream<Item = HFut>>>),
}

enum Yielded {
    Ifr(Ifr),
    Fut(HFut),
    Err(String),
    End,
    Pending,
}

impl Reqs {
    fn poll(&mut self, cx: &mut Context<'_>) -> Yielded {
        match self {
            Reqs::Plain(r) => match r.as_mut().poll_next(cx) {
                Poll::Pending => Yielded::Pending,
                Poll::Ready(None) => Yielded::End,
                Poll::Ready(Some(Ok(i))) => Yielded::Ifr(i),
                Poll::Ready(Some(Err(e))) => Yielded::Err(crate::client_core::chan_kind(&e).into()),
            },
            Reqs::Limited(r) => match r.as_mut().poll_next(cx) {
                Poll::Pending => Yielded::Pending,
                Poll::Ready(None) => Yielded::End,
                Poll::Ready(Some(Ok(i))) => Yielded::Ifr(i),
                Poll::Ready(Some(Err(e))) => Yielded::Err(crate::client_core::chan_kind(&e).into()),
            },
            Reqs::Exec(s) => match s.as_mut().poll_next(cx) {
                Poll::Pending => Yielded::Pending,
                Poll::Ready(None) => Yielded::End,
                Poll::Ready(Some(f)) => Yielded::Fut(f),
            },
        }
    }
    /// (in_flight_requests(), deadline timers) where observable
    fn counts(&self) -> Option<(usize, usize)> {
        match self {
            Reqs::Plain(r) => Some((
                r.channel().in_flight_requests(),
                r.channel().verif_timers_len(),
            )),
            Reqs::Limited(r) => Some((
                r.channel().in_flight_requests(),
                r.channel().get_ref().verif_timers_len(),
            )),
            Reqs::Exec(_) => None,
        }
    }
}

// ---------------------------------------------------------------------------------------------
// gated handler futures

pub struct GateShared {
    log: Rc<Log>,
    gates: RefCell<BTreeMap<u32, (bool, Option<Waker>)>>,
    panics: RefCell<BTreeSet<u32>>,
    fails: BTreeSet<u32>,
}

pub struct HandlerPanic;

pub struct Gate {
    sh: Rc<GateShared>,
    p: u32,
    done: bool,
}

impl Future for Gate {
    type Output = Result<u32, ServerError>;
    fn poll(mut self: Pin<&mut Self>, cx: &mut Context<'_>) -> Poll<Self::Output> {
        self.sh.log.push(Rec::N("hpoll", vec![self.p as i128, self.sh.log.now_ns()]));
        if self.sh.panics.borrow().contains(&self.p) {
            std::panic::panic_any(HandlerPanic);
        }
        let mut g = self.sh.gates.borrow_mut();
        let e = g.entry(self.p).or_insert((false, None));
        if e.0 {
            drop(g);
            self.done = true;
            self.sh.log.push(Rec::N("hfinish", vec![self.p as i128]));
            if self.sh.fails.contains(&self.p) {
                // (the detail carries the instance's token, as the value of an Ok does)
                return Poll::Ready(Err(ServerError::new(std::io::ErrorKind::InvalidInput, format!("handler-err:{}", self.p))));
            }
            Poll::Ready(Ok(5000 + self.p))
        } else {
            e.1 = Some(cx.waker().clone());
            Poll::Pending
        }
    }
}

impl Drop for Gate {
    fn drop(&mut self) {
        if !self.done {
            self.sh
                .log
                .push(Rec::N("hdrop", vec![self.p as i128, self.sh.log.now_ns()]));
        }
    }
}

fn mk_serve(
    sh: Rc<GateShared>,
) -> server::ServeFn<u32, u32, impl FnOnce(context::Context, u32) -> Gate + Clone> {
    server::serve(move |ctx: context::Context, p: u32| {
        sh.log.push(Rec::N(
            "hstart",
            vec![
                p as i128,
                rel_ns(sh.log.t0, ctx.deadline),
                u128::from(ctx.trace_context.trace_id) as i128,
                (ctx.trace_context.sampling_decision == tarpc::trace::SamplingDecision::Sampled)
                    as i128,
            ],
        ));
        // span ids are random: kept out of trace hashes (see hash_recs)
        sh.log.push(Rec::N(
            "hsid",
            vec![p as i128, u64::from(ctx.trace_context.span_id) as i128],
        ));
        Gate {
            sh: sh.clone(),
            p,
            done: false,
        }
    })
}

// ---------------------------------------------------------------------------------------------

struct HandlerSt {
    fut: Option<HFut>,
    flag: Arc<Flag>,
    waker: Waker,
    polls: u32,
    /// payload, if known (requests route)
    p: Option<u32>,
    ended: bool,
}

#[derive(Clone, Debug, PartialEq)]
enum Ev {
    ScriptDropH(usize),
    PollStream,
    PollHandler(usize),
    Deliver(usize),
    Finish(u32),
    DeliverEof,
    Cancel(u64),
    CancelUnknown,
    DupReq(u64),
    Eof,
    ReadErr,
    DropHandler(usize),
    Drain,
    Advance(i64),
    DropChannel,
    Stop,
}

struct St {
    errors_seen: u32,
    stream: Option<Reqs>,
    sflag: Arc<Flag>,
    swaker: Waker,
    handlers: Vec<HandlerSt>,
    delivered: usize,
    eof_sent: bool,
    err_sent: bool,
    cancels_sent: BTreeMap<u64, u32>,
    cancel_unknown_sent: bool,
    dups_sent: BTreeSet<u64>,
    next_dup_payload: u32,
    finished: BTreeSet<u32>,
    started_payloads: Vec<u32>,
    dead: bool,
    ended: bool,
    cancel_seq: u32,
    app_dropped: BTreeSet<u32>,
    /// handlers that must not complete any more: their id was reused after a cancellation /
    /// expiry on the premise that they never produced a response (see reuse_ok)
    no_finish: BTreeSet<u32>,
    /// payloads of requests sent while their id was in flight (the channel must ignore them)
    ignored_dups: BTreeSet<u32>,
    /// (id, payload, deadline_ms) of every request delivered so far
    sent_reqs: Vec<(u64, u32, i64)>,
}

pub struct World {
    cfg: SCfg,
    log: Rc<Log>,
    st: RefCell<St>,
    ch: RefCell<Chooser>,
    core: Rc<RefCell<Core<ClientMessage<u32>>>>,
    gates: Rc<GateShared>,
    /// differential rerun: the n-th cancel message is replaced by a spurious wake of the reader
    suppress_cancel: Option<u32>,
    free: Cell<bool>,
    q0_done: Cell<bool>,
    pending_advance: Cell<Option<i64>>,
    state_hashes: RefCell<Vec<u64>>,
}

const HORIZON: u32 = 2000;

pub fn mk_request(log: &Log, id: u64, payload: u32, deadline_ms: i64) -> ClientMessage<u32> {
    let mut ctx = context::current();
    ctx.deadline = if deadline_ms >= 0 {
        log.t0 + Duration::from_millis(deadline_ms as u64)
    } else {
        log.t0
            .checked_sub(Duration::from_millis((-deadline_ms) as u64))
            .unwrap_or(log.t0)
    };
    ctx.trace_context.trace_id = tarpc::trace::TraceId::from(200u128 + payload as u128);
    ctx.trace_context.span_id = tarpc::trace::SpanId::from(9000u64 + payload as u64);
    ctx.trace_context.sampling_decision = if payload % 2 == 1 {
        tarpc::trace::SamplingDecision::Sampled
    } else {
        tarpc::trace::SamplingDecision::Unsampled
    };
    ClientMessage::Request(Request {
        context: ctx,
        id,
        message: payload,
    })
}

impl World {
    fn new(cfg: &SCfg, prefix: &[u16], suppress_cancel: Option<u32>) -> Rc<World> {
        let log = Log::new();
        let core = Rc::new(RefCell::new(Core::new(
            1,
            cfg.flavour,
            cfg.cap,
            cfg.fault,
            log.clone(),
        )));
        let gates = Rc::new(GateShared {
            log: log.clone(),
            gates: RefCell::new(cfg.reqs.iter().enumerate().filter(|(_, r)| r.hk == HKind::Immediate).map(|(i, _)| (i as u32, (true, None))).collect()),
            panics: RefCell::new(
                cfg.reqs
                    .iter()
                    .enumerate()
                    .filter(|(_, r)| r.hk == HKind::Panic)
                    .map(|(i, _)| i as u32)
                    .collect(),
            ),
            fails: cfg.reqs.iter().enumerate().filter(|(_, r)| r.fails).map(|(i, _)| i as u32).collect(),
        });
        let bc: BC = BaseChannel::new(
            server::Config {
                pending_response_buffer: cfg.resp_buf,
            },
            MockTransport::new(core.clone()),
        );
        let limited = |bc: BC, l: usize| -> tarpc::server::limits::requests_per_channel::MaxRequests<BC> {
            if cfg.limit_via_incoming {
                use tarpc::server::incoming::Incoming;
                let mut listener = Box::pin(futures::stream::iter(vec![bc]).max_concurrent_requests_per_channel(l));
                let waker = futures::task::noop_waker();
                let mut cx = Context::from_waker(&waker);
                match listener.as_mut().poll_next(&mut cx) {
                    Poll::Ready(Some(c)) => c,
                    _ => unreachable!("the listener adaptor yields the channel at once"),
                }
            } else {
                bc.max_concurrent_requests(l)
            }
        };
        let stream = match (cfg.route, cfg.limit) {
            (Route::Requests, None) => Reqs::Plain(Box::pin(bc.requests())),
            (Route::Requests, Some(l)) => {
                Reqs::Limited(Box::pin(limited(bc, l).requests()))
            }
            (Route::Execute, limit) if cfg.via_key_limit => {
                use tarpc::server::incoming::Incoming;
                let mut listener = Box::pin(futures::stream::iter(vec![bc]).max_channels_per_key(1, |_: &BC| 0u8));
                let waker = futures::task::noop_waker();
                let mut cx = Context::from_waker(&waker);
                let tracked = match listener.as_mut().poll_next(&mut cx) {
                    Poll::Ready(Some(c)) => c,
                    _ => unreachable!("the listener adaptor yields the channel at once"),
                };
                match limit {
                    None => Reqs::Exec(Box::pin(tracked.execute(mk_serve(gates.clone())).map(|f| Box::pin(f) as HFut))),
                    Some(l) => Reqs::Exec(Box::pin(tracked.max_concurrent_requests(l).execute(mk_serve(gates.clone())).map(|f| Box::pin(f) as HFut))),
                }
            }
            (Route::Execute, None) => Reqs::Exec(Box::pin(
                bc.execute(mk_serve(gates.clone()))
                    .map(|f| Box::pin(f) as HFut),
            )),
            (Route::Execute, Some(l)) => Reqs::Exec(Box::pin(
                limited(bc, l)
                    .execute(mk_serve(gates.clone()))
                    .map(|f| Box::pin(f) as HFut),
            )),
        };
        let sflag = Flag::new(true);
        let st = St {
            errors_seen: 0,
            stream: Some(stream),
            swaker: Waker::from(sflag.clone()),
            sflag,
            handlers: Vec::new(),
            delivered: 0,
            eof_sent: false,
            err_sent: false,
            cancels_sent: BTreeMap::new(),
            cancel_unknown_sent: false,
            dups_sent: BTreeSet::new(),
            next_dup_payload: 100,
            finished: cfg.reqs.iter().enumerate().filter(|(_, r)| r.hk == HKind::Immediate).map(|(i, _)| i as u32).collect(),
            started_payloads: Vec::new(),
            dead: false,
            ended: false,
            cancel_seq: 0,
            app_dropped: BTreeSet::new(),
            no_finish: BTreeSet::new(),
            ignored_dups: BTreeSet::new(),
            sent_reqs: Vec::new(),
        };
        Rc::new(World {
            cfg: cfg.clone(),
            log,
            st: RefCell::new(st),
            ch: RefCell::new(Chooser::new(prefix)),
            core,
            gates,
            suppress_cancel,
            free: Cell::new(false),
            q0_done: Cell::new(false),
            pending_advance: Cell::new(None),
            state_hashes: RefCell::new(Vec::new()),
        })
    }

    fn has(&self, a: u32) -> bool {
        self.cfg.alphabet & a != 0
    }
    fn now_ms(&self) -> i64 {
        (self.log.now_ns() / 1_000_000) as i64
    }
    fn instants(&self) -> Vec<i64> {
        let now = self.now_ms();
        let mut v: Vec<i64> = self
            .cfg
            .reqs
            .iter()
            .filter(|c| !c.cancel)
            .flat_map(|c| [c.deadline_ms - 1, c.deadline_ms, c.deadline_ms + 1])
            .chain(if self.has(S_DUP) { vec![self.cfg.dup_deadline_ms - 1, self.cfg.dup_deadline_ms, self.cfg.dup_deadline_ms + 1] } else { vec![] })
            .filter(|t| *t > now)
            .collect();
        v.sort();
        v.dedup();
        v
    }
    fn hkind(&self, p: u32) -> HKind {
        self.cfg
            .reqs
            .get(p as usize)
            .map(|r| r.hk)
            .unwrap_or(HKind::Run)
    }
    fn auto_finish(&self, p: u32) -> bool {
        self.cfg
            .reqs
            .get(p as usize)
            .map(|r| r.finish)
            .unwrap_or(true)
    }

    /// May the peer send (another) request with this id now? The alphabet covers fresh ids,
    /// duplicates while the earlier request is in flight, and reuse after completion; reuse after
    /// a cancellation / expiry / application drop whose response was never written is outside it
    /// (DESIGN.md §7: a stale buffered response would be written under the new request).
    fn reuse_ok(&self, st: &St, id: u64) -> bool {
        // duplicates sent while the id was in flight are ignored by the channel: they neither
        // extend nor shorten the time the id is in flight
        // A duplicate that the peer sent while the id was in flight is expected to be ignored - but
        // if the original completed before the channel READ the duplicate, the channel took it for
        // a new request and handed it to the application: then it is one. And while such a
        // duplicate is still unread nobody knows yet which of the two it will be: no reuse until
        // it has been read.
        if self.core.borrow().inbox.iter().any(|it| matches!(it, InItem::Item(ClientMessage::Request(r)) if r.id == id && st.ignored_dups.contains(&r.message))) {
            return false;
        }
        let truly_ignored = |p: &u32| st.ignored_dups.contains(p) && !st.started_payloads.contains(p);
        let all: Vec<&(u64, u32, i64)> = st.sent_reqs.iter().filter(|r| r.0 == id && !truly_ignored(&r.1)).collect();
        if all.is_empty() {
            return true;
        }
        // instances that have been answered (responses carry the handler's token; refusals carry none)
        let (by_token, refusals) = {
            let c = self.core.borrow();
            let by_token: Vec<u32> = all.iter().map(|r| r.1).filter(|p| c.wire.iter().any(|m| matches!(m, Msg::Resp { id: rid, body: Ok(t) } if *rid == id && *t == 5000 + *p) || matches!(m, Msg::Resp { id: rid, body: Err((_, d)) } if *rid == id && *d == format!("handler-err:{p}")))).collect();
            let refusals = c.wire.iter().filter(|m| matches!(m, Msg::Resp { id: rid, body: Err((_, d)) } if *rid == id && !d.starts_with("handler-err:"))).count();
            (by_token, refusals)
        };
        let earlier: Vec<&(u64, u32, i64)> = all.iter().copied().filter(|r| !by_token.contains(&r.1)).collect();
        if earlier.len() <= refusals {
            return true;
        }
        let now = self.now_ms();
        let cancelled = st.cancels_sent.get(&id).copied().unwrap_or(0) > 0;
        // still in flight (a duplicate is ignored) ...
        let in_flight = !cancelled
            && earlier
                .iter()
                .all(|(_, p, d)| *d > now && !st.app_dropped.contains(p));
        // ... or ended without any response having been produced (handler never completed), so no
        // stale response can exist: reuse after cancellation / expiry / application drop is clean
        // A handler whose body has finished but whose `execute` future is still waiting for room in
        // the response buffer has not produced a response either, once the channel has read the
        // cancellation: the abort covers that wait, the future can only end as aborted.
        let cancel_consumed = cancelled
            && !self.core.borrow().inbox.iter().any(|it| matches!(it, InItem::Item(ClientMessage::Cancel { request_id, .. }) if *request_id == id));
        let parked_on_buffer = |p: &u32| cancel_consumed && st.handlers.iter().any(|h| h.p == Some(*p) && h.fut.is_some() && !h.ended);
        let ended_clean = earlier.iter().all(|(_, p, d)| {
            let _ = d;
            !st.finished.contains(p) || st.app_dropped.contains(p) || parked_on_buffer(p)
        }) && earlier
            .iter()
            .all(|(_, p, d)| cancelled || *d < now || st.app_dropped.contains(p));
        in_flight || (self.cfg.reuse_after_end && ended_clean)
    }

    /// Called when a request reusing `id` is actually sent: if the reuse is only legal because the
    /// earlier handlers never produced a response, they may not complete from now on.
    fn note_reuse(&self, st: &mut St, id: u64, new_payload: u32) {
        let now = self.now_ms();
        let cancelled = st.cancels_sent.get(&id).copied().unwrap_or(0) > 0;
        let truly_ignored = |p: &u32| st.ignored_dups.contains(p) && !st.started_payloads.contains(p);
        let all: Vec<(u64, u32, i64)> = st.sent_reqs.iter().filter(|r| r.0 == id && !truly_ignored(&r.1)).cloned().collect();
        let (by_token, refusals) = {
            let c = self.core.borrow();
            let by_token: Vec<u32> = all.iter().map(|r| r.1).filter(|p| c.wire.iter().any(|m| matches!(m, Msg::Resp { id: rid, body: Ok(t) } if *rid == id && *t == 5000 + *p) || matches!(m, Msg::Resp { id: rid, body: Err((_, d)) } if *rid == id && *d == format!("handler-err:{p}")))).collect();
            let refusals = c.wire.iter().filter(|m| matches!(m, Msg::Resp { id: rid, body: Err((_, d)) } if *rid == id && !d.starts_with("handler-err:"))).count();
            (by_token, refusals)
        };
        let earlier: Vec<(u64, u32, i64)> = all.iter().cloned().filter(|r| !by_token.contains(&r.1)).collect();
        let in_flight = !cancelled && earlier.iter().all(|(_, p, d)| *d > now && !st.app_dropped.contains(p));
        if earlier.len() > refusals && in_flight {
            st.ignored_dups.insert(new_payload);
        }
        if !in_flight {
            for (_, p, _) in earlier {
                if !st.finished.contains(&p) {
                    st.no_finish.insert(p);
                }
            }
        }
    }

    fn enabled(&self) -> (Vec<Ev>, usize) {
        let st = self.st.borrow();
        let mut m = Vec::new();
        if st.dead {
            return (m, 0);
        }
        for (j, h) in st.handlers.iter().enumerate() {
            if h.fut.is_none() || h.ended {
                continue;
            }
            if let Some(p) = h.p {
                if let HKind::DropAfter(k) = self.hkind(p) {
                    if h.polls >= k {
                        m.push(Ev::ScriptDropH(j));
                    }
                }
            }
        }
        if st.stream.is_some() && st.sflag.is_set() {
            m.push(Ev::PollStream);
        }
        for (j, h) in st.handlers.iter().enumerate() {
            if h.fut.is_some() && !h.ended && h.flag.is_set() && !m.contains(&Ev::ScriptDropH(j)) {
                m.push(Ev::PollHandler(j));
            }
        }
        let peer_can_talk = !st.eof_sent && !st.err_sent;
        if peer_can_talk
            && st.delivered < self.cfg.reqs.len()
            && (self.cfg.reqs[st.delivered].cancel || self.reuse_ok(&st, self.cfg.reqs[st.delivered].id))
        {
            match self.cfg.reqs[st.delivered].at_ms {
                Some(t) if t > self.now_ms() => m.push(Ev::Advance(t)),
                _ => m.push(Ev::Deliver(st.delivered)),
            }
        }
        let started: Vec<u32> = st.started_payloads.clone();
        let mut unfinished_opt = Vec::new();
        for p in &started {
            if st.finished.contains(p) || st.no_finish.contains(p) {
                continue;
            }
            if self.auto_finish(*p) {
                m.push(Ev::Finish(*p));
            } else {
                unfinished_opt.push(*p);
            }
        }
        if peer_can_talk && self.cfg.eof_at_end && st.delivered >= self.cfg.reqs.len() {
            m.push(Ev::DeliverEof);
        }
        let nm = m.len();
        if !self.free.get() {
            if self.has(S_FINISH) {
                for p in unfinished_opt {
                    m.push(Ev::Finish(p));
                }
            }
            if peer_can_talk {
                let ids: BTreeSet<u64> = self.cfg.reqs[..st.delivered].iter().filter(|r| !r.cancel).map(|r| r.id).collect();
                if self.has(S_CANCEL) {
                    for id in &ids {
                        if st.cancels_sent.get(id).copied().unwrap_or(0) < 1 {
                            m.push(Ev::Cancel(*id));
                        }
                    }
                }
                if self.has(S_CANCEL_UNKNOWN) && !st.cancel_unknown_sent {
                    m.push(Ev::CancelUnknown);
                }
                if self.has(S_DUP) {
                    for id in &ids {
                        if !st.dups_sent.contains(id) && self.reuse_ok(&st, *id) {
                            m.push(Ev::DupReq(*id));
                        }
                    }
                }
                if self.has(S_EOF) {
                    m.push(Ev::Eof);
                }
                if self.has(S_RERR) {
                    m.push(Ev::ReadErr);
                }
            }
            if self.has(S_DROPH) {
                for (j, h) in st.handlers.iter().enumerate() {
                    if h.fut.is_some() && !h.ended {
                        m.push(Ev::DropHandler(j));
                    }
                }
            }
            if self.has(S_DRAIN) && self.core.borrow().blocked() {
                m.push(Ev::Drain);
            }
            if self.has(S_ADVANCE) {
                // an unread request that duplicates an id still in flight must be read before
                // that id's deadline passes (otherwise it turns into id reuse after expiry,
                // which is outside the alphabet, see reuse_ok)
                let mut horizon = i64::MAX;
                for it in self.core.borrow().inbox.iter() {
                    if let InItem::Item(ClientMessage::Request(r)) = it {
                        for (id, p, d) in &st.sent_reqs {
                            if *id == r.id && *p != r.message && !st.ignored_dups.contains(p) {
                                horizon = horizon.min(*d);
                            }
                        }
                    }
                }
                for t in self.instants() {
                    if t < horizon {
                        m.push(Ev::Advance(t));
                    }
                }
            }
            if self.has(S_DROPCHAN) && st.stream.is_some() {
                m.push(Ev::DropChannel);
            }
        }
        (m, nm)
    }

    fn fingerprint(&self) {
        let st = self.st.borrow();
        let mut h = std::collections::hash_map::DefaultHasher::new();
        (st.stream.is_some(), st.sflag.is_set(), st.delivered, st.eof_sent, st.err_sent).hash(&mut h);
        if let Some(s) = &st.stream {
            s.counts().hash(&mut h);
        }
        for hd in &st.handlers {
            (hd.fut.is_some(), hd.flag.is_set(), hd.polls, hd.p, hd.ended).hash(&mut h);
        }
        st.finished.hash(&mut h);
        st.cancels_sent.hash(&mut h);
        st.dups_sent.hash(&mut h);
        let c = self.core.borrow();
        (c.buf.len(), c.inbox.len(), c.closed).hash(&mut h);
        c.wire.hash(&mut h);
        self.now_ms().hash(&mut h);
        self.state_hashes.borrow_mut().push(h.finish());
    }

    fn snap(&self, name: &'static str) {
        let st = self.st.borrow();
        if let Some(s) = &st.stream {
            if let Some((inf, tim)) = s.counts() {
                self.log.push(Rec::N(
                    name,
                    vec![inf as i128, tim as i128, self.log.now_ns(), st.sflag.is_set() as i128],
                ));
            }
        }
    }

    fn on_panic(&self, task: Task) {
        let msg = take_panic();
        self.log.push(Rec::S("panic", format!("{task:?}: {msg}")));
        self.st.borrow_mut().dead = true;
    }

    fn new_handler(&self, fut: HFut, p: Option<u32>) {
        let flag = Flag::new(true);
        let mut st = self.st.borrow_mut();
        st.handlers.push(HandlerSt {
            fut: Some(fut),
            waker: Waker::from(flag.clone()),
            flag,
            polls: 0,
            p,
            ended: false,
        });
    }

    fn drop_stream(&self, why: &str) {
        let s = self.st.borrow_mut().stream.take();
        self.log.push(Rec::S("stream_dropped", why.to_string()));
        if catch_unwind(AssertUnwindSafe(|| drop(s))).is_err() {
            self.on_panic(Task::Stream(0));
        }
    }

    fn send_cancel(&self, id: u64) {
        let n = {
            let mut st = self.st.borrow_mut();
            st.cancel_seq += 1;
            st.cancel_seq
        };
        let m = ClientMessage::Cancel {
            trace_context: Default::default(),
            request_id: id,
        };
        // surely without effect: an id never used, or an id used once whose response is already
        // on the wire (written responses untrack the request)
        let stray = {
            let st = self.st.borrow();
            let uses = st.sent_reqs.iter().filter(|r| r.0 == id).count();
            let answered = self
                .core
                .borrow()
                .wire
                .iter()
                .any(|m| matches!(m, Msg::Resp { id: rid, .. } if *rid == id));
            uses == 0 || (uses == 1 && answered)
        };
        if self.suppress_cancel == Some(n) {
            self.log.push(Rec::N("cancel_suppressed", vec![id as i128, n as i128]));
            self.core.borrow_mut().wake_reader();
        } else {
            self.log.push(Rec::N("cancel_sent", vec![id as i128, n as i128, stray as i128]));
            self.log.push(Rec::M("in", m.to_msg(self.log.t0)));
            self.core.borrow_mut().push_in(InItem::Item(m));
        }
    }

    fn apply(&self, ev: Ev) {
        self.log.steps.set(self.log.steps.get() + 1);
        if self.log.steps.get() > HORIZON {
            self.log.push(Rec::S("horizon", "step horizon exceeded".into()));
            self.st.borrow_mut().dead = true;
            return;
        }
        self.log.push(Rec::Ev(format!("{ev:?}")));
        match ev {
            Ev::Stop => {}
            Ev::PollStream => {
                let (mut s, waker) = {
                    let mut st = self.st.borrow_mut();
                    st.sflag.clear();
                    (st.stream.take().unwrap(), st.sflag.fresh_waker())
                };
                let prev = self.log.begin_poll(Task::Stream(0));
                let mut cx = Context::from_waker(&waker);
                let r = catch_unwind(AssertUnwindSafe(|| s.poll(&mut cx)));
                match r {
                    Err(p) => {
                        self.log.end_poll(Task::Stream(0), prev, false);
                        if p.downcast_ref::<SpinGuard>().is_some() {
                            let _ = take_panic();
                            self.log.push(Rec::S("spin", "Stream".into()));
                            self.st.borrow_mut().dead = true;
                        } else {
                            self.on_panic(Task::Stream(0));
                        }
                        std::mem::forget(s);
                    }
                    Ok(y) => {
                        let ready = !matches!(y, Yielded::Pending);
                        self.log.end_poll(Task::Stream(0), prev, ready);
                        self.st.borrow_mut().stream = Some(s);
                        if matches!(y, Yielded::Ifr(_) | Yielded::Fut(_)) {
                            // a stream that yielded an item must be polled again
                            self.st.borrow().sflag.set();
                        }
                        self.snap("snap");
                        match y {
                            Yielded::Pending => {}
                            Yielded::Ifr(ifr) => {
                                // a stream that yielded an item must be polled again
                                self.st.borrow().sflag.set();
                                let req = ifr.get();
                                let p = req.message;
                                self.log.push(Rec::N(
                                    "yield",
                                    vec![req.id as i128, p as i128],
                                ));
                                self.st.borrow_mut().started_payloads.push(p);
                                match self.hkind(p) {
                                    HKind::DropIfr => {
                                        self.log.push(Rec::N("ifr_dropped", vec![p as i128]));
                                        if catch_unwind(AssertUnwindSafe(|| drop(ifr))).is_err() {
                                            self.on_panic(Task::Stream(0));
                                        }
                                        let mut st = self.st.borrow_mut();
                                        st.finished.insert(p);
                                        st.app_dropped.insert(p);
                                    }
                                    _ => {
                                        let serve = mk_serve(self.gates.clone());
                                        let fut: HFut = Box::pin(ifr.execute(serve));
                                        self.new_handler(fut, Some(p));
                                    }
                                }
                            }
                            Yielded::Fut(f) => {
                                self.st.borrow().sflag.set();
                                self.log.push(Rec::N("yield_fut", vec![]));
                                // the future belongs to the request the transport handed over last
                                let p = self.log.recs.borrow().iter().rev().find_map(|r| match r {
                                    Rec::T { side: 1, op: Op::Next, res: Res::Item, msg: Some(Msg::Req { payload, .. }), .. } => Some(*payload),
                                    _ => None,
                                });
                                if let Some(p) = p {
                                    self.st.borrow_mut().started_payloads.push(p);
                                }
                                self.new_handler(f, p);
                            }
                            Yielded::Err(k) if self.cfg.serve_on_after_error && self.st.borrow().errors_seen < 3 => {
                                // the application logs the error and keeps serving (a write that failed
                                // once - one value that could not be encoded - does not end a connection)
                                self.log.push(Rec::S("stream_err_served_on", k));
                                self.st.borrow_mut().errors_seen += 1;
                                self.st.borrow().sflag.set();
                            }
                            Yielded::Err(k) => {
                                self.log.push(Rec::S("stream_err", k));
                                // the application stops serving the channel and drops it
                                self.drop_stream("after error");
                                self.st.borrow_mut().ended = true;
                            }
                            Yielded::End => {
                                self.log.push(Rec::S("stream_end", String::new()));
                                self.drop_stream("after end");
                                self.st.borrow_mut().ended = true;
                            }
                        }
                    }
                }
            }
            Ev::PollHandler(j) => {
                let (mut f, waker) = {
                    let mut st = self.st.borrow_mut();
                    let h = &mut st.handlers[j];
                    h.flag.clear();
                    (h.fut.take().unwrap(), h.flag.fresh_waker())
                };
                let prev = self.log.begin_poll(Task::Handler(j));
                let mut cx = Context::from_waker(&waker);
                // like tokio's task harness: if the poll panics, the task's future is dropped WHILE the
                // thread is unwinding (a guard inside the catch_unwind), not afterwards
                struct DropOnUnwind<'a>(&'a mut Option<HFut>);
                impl Drop for DropOnUnwind<'_> {
                    fn drop(&mut self) {
                        if std::thread::panicking() {
                            drop(self.0.take());
                        }
                    }
                }
                let mut slot: Option<HFut> = Some(f);
                let r = catch_unwind(AssertUnwindSafe(|| {
                    let g = DropOnUnwind(&mut slot);
                    let r = g.0.as_mut().unwrap().as_mut().poll(&mut cx);
                    std::mem::forget(g);
                    r
                }));
                let dropped_while_unwinding = slot.is_none();
                let f: HFut = slot.unwrap_or_else(|| Box::pin(async {}));
                let mut f = f;
                let _ = dropped_while_unwinding;
                match r {
                    Ok(Poll::Pending) => {
                        self.log.end_poll(Task::Handler(j), prev, false);
                        let mut st = self.st.borrow_mut();
                        st.handlers[j].polls += 1;
                        st.handlers[j].fut = Some(f);
                    }
                    Ok(Poll::Ready(())) => {
                        self.log.end_poll(Task::Handler(j), prev, true);
                        let p = {
                            let mut st = self.st.borrow_mut();
                            st.handlers[j].polls += 1;
                            st.handlers[j].ended = true;
                            st.handlers[j].p
                        };
                        self.log.push(Rec::N(
                            "exec_done",
                            vec![j as i128, p.map(|p| p as i128).unwrap_or(-1)],
                        ));
                        if catch_unwind(AssertUnwindSafe(|| drop(f))).is_err() {
                            self.on_panic(Task::Handler(j));
                        }
                    }
                    Err(pl) => {
                        self.log.end_poll(Task::Handler(j), prev, false);
                        if pl.downcast_ref::<HandlerPanic>().is_some() {
                            // the application's handler panicked: the executor drops the task
                            let _ = take_panic();
                            let p = {
                                let mut st = self.st.borrow_mut();
                                st.handlers[j].ended = true;
                                st.handlers[j].p
                            };
                            self.log.push(Rec::N(
                                "exec_dropped",
                                vec![j as i128, p.map(|p| p as i128).unwrap_or(-1)],
                            ));
                            if let Some(p) = p {
                                let mut st = self.st.borrow_mut();
                                st.finished.insert(p);
                                st.app_dropped.insert(p);
                            }
                            if catch_unwind(AssertUnwindSafe(|| drop(f))).is_err() {
                                self.on_panic(Task::Handler(j));
                            }
                        } else {
                            self.on_panic(Task::Handler(j));
                            std::mem::forget(f);
                        }
                    }
                }
            }
            Ev::ScriptDropH(j) | Ev::DropHandler(j) => {
                let (f, p) = {
                    let mut st = self.st.borrow_mut();
                    let h = &mut st.handlers[j];
                    h.ended = true;
                    (h.fut.take(), h.p)
                };
                self.log.push(Rec::N(
                    "exec_dropped",
                    vec![j as i128, p.map(|p| p as i128).unwrap_or(-1)],
                ));
                if let Some(p) = p {
                    let mut st = self.st.borrow_mut();
                    st.finished.insert(p);
                    st.app_dropped.insert(p);
                }
                if catch_unwind(AssertUnwindSafe(|| drop(f))).is_err() {
                    self.on_panic(Task::Handler(j));
                }
            }
            Ev::Deliver(k) if self.cfg.reqs[k].cancel => {
                let id = self.cfg.reqs[k].id;
                {
                    let mut st = self.st.borrow_mut();
                    st.delivered = k + 1;
                    *st.cancels_sent.entry(id).or_insert(0) += 1;
                }
                self.send_cancel(id);
            }
            Ev::Deliver(k) => {
                let r = &self.cfg.reqs[k];
                let mut m = mk_request(&self.log, r.id, k as u32, r.deadline_ms);
                if self.cfg.via_serde {
                    let bytes = bincode::serialize(&m).expect("encode");
                    m = bincode::deserialize(&bytes).expect("decode");
                    // what the peer meant: its deadline, or "now" when that had already passed
                    let meant = (r.deadline_ms as i128 * 1_000_000).max(self.log.now_ns());
                    self.log.push(Rec::N("sent_deadline", vec![k as i128, meant]));
                }
                {
                    let mut st = self.st.borrow_mut();
                    st.delivered = k + 1;
                    self.note_reuse(&mut st, r.id, k as u32);
                    st.sent_reqs.push((r.id, k as u32, r.deadline_ms));
                }
                self.log.push(Rec::M("in", m.to_msg(self.log.t0)));
                self.core.borrow_mut().push_in(InItem::Item(m));
            }
            Ev::DupReq(id) => {
                let p = {
                    let mut st = self.st.borrow_mut();
                    st.dups_sent.insert(id);
                    let p = st.next_dup_payload;
                    st.next_dup_payload += 1;
                    self.note_reuse(&mut st, id, p);
                    st.sent_reqs.push((id, p, self.cfg.dup_deadline_ms));
                    p
                };
                let m = mk_request(&self.log, id, p, self.cfg.dup_deadline_ms);
                self.log.push(Rec::M("in", m.to_msg(self.log.t0)));
                self.core.borrow_mut().push_in(InItem::Item(m));
            }
            Ev::Cancel(id) => {
                *self.st.borrow_mut().cancels_sent.entry(id).or_insert(0) += 1;
                self.send_cancel(id);
            }
            Ev::CancelUnknown => {
                self.st.borrow_mut().cancel_unknown_sent = true;
                self.send_cancel(77);
            }
            Ev::Finish(p) => {
                self.st.borrow_mut().finished.insert(p);
                let w = {
                    let mut g = self.gates.gates.borrow_mut();
                    let e = g.entry(p).or_insert((false, None));
                    e.0 = true;
                    e.1.take()
                };
                if let Some(w) = w {
                    w.wake();
                }
            }
            Ev::DeliverEof | Ev::Eof => {
                self.st.borrow_mut().eof_sent = true;
                self.log.push(Rec::S("in_eof", String::new()));
                self.core.borrow_mut().push_in(InItem::Eof);
            }
            Ev::ReadErr => {
                self.st.borrow_mut().err_sent = true;
                self.core.borrow_mut().push_in(InItem::Err);
            }
            Ev::Drain => {
                self.core.borrow_mut().drain();
            }
            Ev::Advance(t) => self.pending_advance.set(Some(t)),
            Ev::DropChannel => {
                self.drop_stream("by application");
            }
        }
        self.fingerprint();
    }

    fn step(&self) -> bool {
        let (opts, nm) = self.enabled();
        if self.free.get() {
            if nm == 0 {
                return false;
            }
            self.apply(opts[0].clone());
            return true;
        }
        let mut all = Vec::with_capacity(opts.len() + 1);
        if nm == 0 {
            all.push(Ev::Stop);
        }
        all.extend(opts);
        if crate::mock::show_options() {
            self.log.push(Rec::S("options", format!("{all:?}")));
        }
        let k = self.ch.borrow_mut().choose("step", all.len());
        self.log.choice_pos.set(self.ch.borrow().points.len() as u32);
        let ev = all[k].clone();
        if ev == Ev::Stop {
            return false;
        }
        self.apply(ev);
        !self.st.borrow().dead
    }

    fn settle(&self) {
        loop {
            while self.step() {}
            if self.st.borrow().dead {
                return;
            }
            if self.core.borrow().blocked() {
                // everything has settled while the peer is not reading its responses: a quiescent
                // point of its own (recorded once), before the peer starts reading again
                if !self.q0_done.get() {
                    self.q0_done.set(true);
                    self.q_record("Q0");
                }
                self.apply(Ev::Drain);
                continue;
            }
            break;
        }
    }

    fn q_record(&self, name: &'static str) {
        let st = self.st.borrow();
        let c = self.core.borrow();
        let (inf, tim) = st
            .stream
            .as_ref()
            .and_then(|s| s.counts())
            .map(|(a, b)| (a as i128, b as i128))
            .unwrap_or((-1, -1));
        let inbox_items = c.inbox.iter().filter(|i| !matches!(i, InItem::Eof)).count();
        self.log.push(Rec::N(
            name,
            vec![
                inbox_items as i128,
                st.stream.is_some() as i128,
                inf,
                tim,
                c.buf.len() as i128,
                self.log.now_ns(),
                st.ended as i128,
            ],
        ));
        for (j, h) in st.handlers.iter().enumerate() {
            self.log.push(Rec::N(
                match name {
                    "Q1" => "Q1h",
                    "Q2" => "Q2h",
                    _ => "QDh",
                },
                vec![
                    j as i128,
                    h.p.map(|p| p as i128).unwrap_or(-1),
                    h.ended as i128,
                    h.fut.is_some() as i128,
                ],
            ));
        }
    }
}

pub struct Exec {
    pub recs: Vec<Rec>,
    pub points: Vec<Point>,
    pub steps: u32,
    pub state_hashes: Vec<u64>,
    pub err: Option<String>,
    pub call_pos: Vec<(Op, u32)>,
}

pub fn execute(cfg: &SCfg, prefix: &[u16], suppress_cancel: Option<u32>) -> Exec {
    let rt = tokio::runtime::Builder::new_current_thread()
        .enable_time()
        .start_paused(true)
        .build()
        .unwrap();
    rt.block_on(tokio::task::unconstrained(async {
        let w = World::new(cfg, prefix, suppress_cancel);
        w.fingerprint();
        if cfg.start_age_ms > 0 {
            // the channel exists (and is polled once) before the idle period
            w.apply(Ev::PollStream);
            tokio::time::advance(Duration::from_millis(cfg.start_age_ms as u64)).await;
            w.log.push(Rec::N("time", vec![w.log.now_ns()]));
        }
        if cfg.start_age_ms < 0 {
            // the first request arrives on the new connection and is in flight (its handler
            // started) while the connection grows old: the timer queue is old AND holds a live timer
            w.apply(Ev::PollStream);
            w.apply(Ev::Deliver(0));
            w.apply(Ev::PollStream);
            w.apply(Ev::PollHandler(0));
            tokio::time::advance(Duration::from_millis((-cfg.start_age_ms) as u64)).await;
            w.log.push(Rec::N("time", vec![w.log.now_ns()]));
        }
        if cfg.burst {
            for k in 0..cfg.reqs.len() {
                if cfg.reqs[k].cancel || w.reuse_ok(&w.st.borrow(), cfg.reqs[k].id) {
                    w.apply(Ev::Deliver(k));
                } else {
                    break;
                }
            }
        }
        loop {
            let more = w.step();
            if let Some(t) = w.pending_advance.take() {
                let now = w.now_ms();
                if t > now {
                    tokio::time::advance(Duration::from_millis((t - now) as u64)).await;
                    w.log.push(Rec::N("time", vec![w.log.now_ns()]));
                }
                continue;
            }
            if !more {
                break;
            }
        }
        w.free.set(true);
        w.settle();
        w.q0_done.set(true);
        w.q_record("Q1");
        let mut ds: Vec<i64> = cfg.reqs.iter().map(|c| c.deadline_ms + 1).collect();
        ds.push(10_001);
        ds.sort();
        ds.dedup();
        for t in ds {
            if w.st.borrow().dead {
                break;
            }
            let now = w.now_ms();
            if t > now {
                w.log.push(Rec::Ev(format!("Advance({t})")));
                tokio::time::advance(Duration::from_millis((t - now) as u64)).await;
                w.log.push(Rec::N("time", vec![w.log.now_ns()]));
                w.settle();
                w.q_record("QD");
            }
        }
        w.q_record("Q2");
        let (handlers, s) = {
            let mut st = w.st.borrow_mut();
            (std::mem::take(&mut st.handlers), st.stream.take())
        };
        if w.st.borrow().dead {
            std::mem::forget(handlers);
            std::mem::forget(s);
        } else {
            w.log.push(Rec::S("teardown", String::new()));
            let _ = catch_unwind(AssertUnwindSafe(|| {
                drop(s);
                drop(handlers);
            }));
        }
        let ch = w.ch.borrow();
        let err = ch.err.clone().or_else(|| {
            if !ch.consumed_prefix() {
                Some("replay divergence: execution ended before the prefix was consumed".into())
            } else {
                None
            }
        });
        let ex = Exec {
            recs: w.log.recs.borrow().clone(),
            points: ch.points.clone(),
            steps: w.log.steps.get(),
            state_hashes: w.state_hashes.borrow().clone(),
            err,
            call_pos: w.core.borrow().call_pos.clone(),
        };
        drop(ch);
        ex
    }))
}
