//! C11, bursts: many calls / requests are abandoned between two polls of the task that has to
//! reclaim them (one task dropping a whole set of call futures or handlers in a row). The
//! schedule is fixed; what is enumerated is the size of the burst, across every power of two up
//! to 4096 and its neighbours. Afterwards nothing may be tracked, no timer may be armed, and the
//! connection must still work.

use crate::explore::{Harness, Point, RunOut, Violation};
use crate::mock::*;
use futures::{Future, Stream};
use serde_json::json;
use std::cell::RefCell;
use std::collections::HashSet;
use std::pin::Pin;
use std::rc::Rc;
use std::task::{Context, Poll, Waker};
use tarpc::server::{BaseChannel, Channel};
use tarpc::{client, context, ClientMessage, Request, Response};

#[derive(Clone, Copy, Debug, PartialEq, Eq, serde::Serialize, serde::Deserialize)]
pub enum Side {
    /// n calls on one client (in-flight limit 1, request buffer 1): the first is transmitted, the
    /// rest wait; all are dropped, transmitted one last
    ClientQueuedFirst,
    /// the same, the transmitted call dropped first
    ClientTransmittedFirst,
    /// n requests read by a server channel and handed to the application, which drops them all
    /// (half of them before their handler ever ran)
    Server,
    /// n calls made at once on a roomy client (limits above n) towards a silent peer, tasks
    /// polled only when woken: all n are transmitted, and all n fail at their deadline
    ClientManyCalls,
    /// n requests in flight on a server channel with the same deadline, handlers finish only
    /// after it has passed, a fresh request arrives: nothing is transmitted for the expired ones
    ServerManyExpire,
    /// the server run the way the examples run it: `spawn_incoming` over tarpc's own in-memory
    /// transport, every channel and every request a real tokio task (with tokio's cooperative
    /// budget); n requests whose handlers never finish share a deadline, the (virtual) clock passes
    /// it: every handler is dropped, and a fresh request on the same connection is answered
    SpawnedServerExpire,
    /// the client run the way the examples run it: the dispatch and every call a real tokio task
    /// (with tokio's cooperative budget: a task gets `Pending` from tokio's channels after 128
    /// operations in one poll); n calls are queued before the dispatch first runs, and the
    /// transport's first flush fails: nothing is written afterwards, every call fails, the dispatch
    /// ends with the error
    SpawnedClientFlushFault,
    /// the same, the first thing the transport yields being a read error (a frame that does not
    /// decode): nothing is written afterwards, every queued call fails, the dispatch ends with the error
    SpawnedClientReadFault,
    /// the client run the way the examples run it (dispatch a real tokio task, cooperative budget
    /// on, replies arriving over a tokio channel as over a tokio socket): n calls are in flight,
    /// r of them get a reply, m more calls are begun but not yet seen by the dispatch, then - before
    /// the dispatch runs again - every call is abandoned and the last handle is dropped. The
    /// dispatch transmits a cancellation for every unanswered call, then closes the write side
    /// once, writes nothing afterwards and completes with Ok (for every r in 0..=2, m in 0..=2)
    SpawnedClientShutdown,
    /// n calls are in flight (all transmitted); one of them is abandoned and one more call is
    /// begun before the dispatch runs again: the abandoned call's cancellation is written exactly
    /// once, nobody else is cancelled, the new request goes out (every n up to 130 and around the
    /// sizes at which a hash table of n entries is exactly full; victim first / last)
    ClientAbandonAmongMany,
    /// n calls are in flight (all transmitted); SEVERAL of them (the two oldest, the two newest,
    /// every other one, all of them) are abandoned between two polls of the dispatch - what an
    /// aborted handler does that awaited a `join` of nested calls - and one more call is begun:
    /// every abandoned call's cancellation is written exactly once, nobody else is cancelled
    ClientAbandonSeveralOfMany,
    /// a spawned server channel (every handler its own tokio task, cooperative budget on) whose
    /// peer takes no responses until t = 4 s: n requests with deadlines 10 ms apart from 1 s on, all
    /// parked except the one with the latest deadline, which answers at once (its response waits in
    /// the channel's queue), plus a request that is nowhere near its deadline; the clock steps to
    /// 5 s: every parked handler is dropped, nothing is written for a request after its deadline,
    /// the far request is answered
    SpawnedServerExpireQueued,
}

#[derive(Clone, Copy, Debug, serde::Serialize, serde::Deserialize)]
pub struct BurstCfg {
    pub side: Side,
    pub n: usize,
}

pub struct BurstHarness {
    pub prop: &'static str,
    pub cfgs: Vec<BurstCfg>,
}

/// the burst sizes for C02 (client, many calls) and C06/C08 (server, many expirations)
pub fn configs_many(side: Side, thorough: bool) -> Vec<BurstCfg> {
    let mut ns: Vec<usize> = vec![1, 2, 3, 4, 5, 7, 8, 9, 15, 16, 17, 18, 31, 32, 33, 34, 40, 63, 64, 65, 100, 127, 128, 129, 130, 255, 256, 257, 300];
    if thorough {
        ns.extend([511, 512, 513, 1000, 1023, 1024, 1025, 2048, 2049]);
    }
    if side == Side::ClientAbandonAmongMany {
        ns = (1..=130).collect();
        ns.extend([223, 224, 225, 447, 448, 449, 895, 896, 897]);
        if thorough {
            ns.extend(131..=460);
            ns.extend([1791, 1792, 1793, 3583, 3584, 3585]);
        }
        ns.sort();
        ns.dedup();
    }
    if side == Side::ClientAbandonSeveralOfMany {
        ns = (2..=40).collect();
        ns.extend([63, 64, 65, 100, 127, 128, 129, 130]);
        if thorough {
            ns.extend(41..=300);
            ns.extend([447, 448, 449, 895, 896, 897]);
        }
        ns.sort();
        ns.dedup();
    }
    if side == Side::SpawnedClientShutdown {
        // where the cooperative budget runs out depends on the exact count: every size up to a
        // little over one budget (128 operations = 64 drained cancellations), thorough: several
        ns = (1..=if thorough { 600 } else { 140 }).collect();
        ns.extend([255, 256, 257, 300, 1000]);
        ns.sort();
        ns.dedup();
    }
    ns.into_iter().map(|n| BurstCfg { side, n }).collect()
}

pub fn configs(thorough: bool) -> Vec<BurstCfg> {
    let mut ns: Vec<usize> = vec![1, 2, 3, 4, 5, 7, 8, 9, 15, 16, 17, 31, 32, 33, 63, 64, 65, 100, 127, 128, 129, 255, 256, 257, 511, 512, 513, 1000, 1023, 1024, 1025, 1026, 1100, 2047, 2048, 2049];
    if thorough {
        ns.extend([3000, 4095, 4096, 4097, 5000, 8191, 8192, 8193, 10_000]);
    }
    let mut out = vec![];
    for side in [Side::ClientQueuedFirst, Side::ClientTransmittedFirst, Side::Server] {
        for n in &ns {
            out.push(BurstCfg { side, n: *n });
        }
    }
    out
}

type MT = MockTransport<ClientMessage<u32>, Response<u32>>;
type ST = MockTransport<Response<u32>, ClientMessage<u32>>;

fn viol(sig: &str, msg: String) -> Violation {
    Violation { signature: sig.to_string(), message: msg }
}

/// polls the future until it is ready (true) or has gone to sleep without waking itself
fn drive<F: Future>(f: &mut Pin<Box<F>>, _cx: &mut Context<'_>, flag: &std::sync::Arc<Flag>, n: usize) -> bool {
    for _ in 0..(4 * n + 64) {
        flag.clear();
        // every poll gets a waker of its own; only the latest one counts
        let w = flag.fresh_waker();
        let mut cx = Context::from_waker(&w);
        if f.as_mut().poll(&mut cx).is_ready() {
            return true;
        }
        if !flag.is_set() {
            break;
        }
    }
    false
}

fn run_client(cfg: &BurstCfg, out: &mut RunOut, text: &mut String) {
    let log = Log::new();
    let core = Rc::new(RefCell::new(Core::new(0, Flavour::Always, 1, None, log.clone())));
    let mut ccfg = client::Config::default();
    ccfg.max_in_flight_requests = 1;
    ccfg.pending_request_buffer = 1;
    let nc = client::new::<u32, u32, MT>(ccfg, MockTransport::new(core.clone()));
    let ch = nc.client;
    let mut dispatch = Box::pin(nc.dispatch);
    let flag = Flag::new(true);
    let waker = Waker::from(flag.clone());
    let mut cx = Context::from_waker(&waker);
    type CallFut = Pin<Box<dyn Future<Output = Result<u32, client::RpcError>>>>;
    let mut calls: Vec<Option<CallFut>> = vec![];
    for i in 0..cfg.n {
        let c = ch.clone();
        let mut ctx = context::current();
        ctx.deadline = log.t0 + std::time::Duration::from_secs(60);
        calls.push(Some(Box::pin(async move { c.call(ctx, i as u32).await })));
    }
    // every caller runs once, the dispatch runs until it has nothing to do: call 0 is transmitted
    for c in calls.iter_mut() {
        let _ = c.as_mut().unwrap().as_mut().poll(&mut cx);
    }
    if drive(&mut dispatch, &mut cx, &flag, cfg.n) {
        out.violations.push(viol("C11-burst-dispatch-ended", "the dispatch ended with handles alive".into()));
        return;
    }
    let transmitted: Vec<u64> = core.borrow().wire.iter().filter_map(|m| if let Msg::Req { id, .. } = m { Some(*id) } else { None }).collect();
    text.push_str(&format!("transmitted before the burst: {transmitted:?}\n"));
    if transmitted.len() != 1 {
        out.machinery_error = Some(format!("burst harness: expected exactly one transmitted request, saw {transmitted:?}"));
        return;
    }
    let first = transmitted[0];
    // the burst: every call future is dropped before the dispatch runs again
    match cfg.side {
        Side::ClientQueuedFirst => {
            for c in calls.iter_mut().rev() {
                *c = None;
            }
        }
        _ => {
            for c in calls.iter_mut() {
                *c = None;
            }
        }
    }
    out.nontrivial = cfg.n > 1;
    drive(&mut dispatch, &mut cx, &flag, cfg.n);
    let cancels: Vec<u64> = core.borrow().wire.iter().filter_map(|m| if let Msg::Cancel { id, .. } = m { Some(*id) } else { None }).collect();
    text.push_str(&format!("cancels on the wire after the burst: {cancels:?}\n"));
    let (inf, tim) = (dispatch.verif_in_flight_len(), dispatch.verif_timers_len());
    text.push_str(&format!("tracked {inf}, timers {tim}\n"));
    if !cancels.contains(&first) {
        out.violations.push(viol(
            "C11-burst-not-reclaimed",
            format!("{} calls dropped between two dispatch polls (the transmitted one {}): no cancellation was sent for request {first}", cfg.n, if cfg.side == Side::ClientQueuedFirst { "last" } else { "first" }),
        ));
    }
    if inf != 0 || tim != 0 {
        out.violations.push(viol(
            "C11-burst-not-reclaimed",
            format!("{} calls dropped between two dispatch polls: the dispatch still tracks {inf} requests and {tim} timers with no call alive", cfg.n),
        ));
    }
    // the connection still works: a fresh call goes out
    let c = ch.clone();
    let mut probe: CallFut = Box::pin(async move { c.call(context::current(), 424_242).await });
    let _ = probe.as_mut().poll(&mut cx);
    drive(&mut dispatch, &mut cx, &flag, cfg.n);
    let sent = core.borrow().wire.iter().any(|m| matches!(m, Msg::Req { payload: 424_242, .. }));
    if !sent {
        out.violations.push(viol("C11-burst-slot-not-freed", format!("after {} abandoned calls a fresh call is not transmitted (in-flight limit 1)", cfg.n)));
    }
    drop(probe);
    drop(ch);
}

fn run_abandon_among_many(cfg: &BurstCfg, victim_last: bool, out: &mut RunOut, text: &mut String) {
    let v = if victim_last { cfg.n - 1 } else { 0 };
    run_abandon_set(cfg, &[v], out, text)
}

fn run_abandon_set(cfg: &BurstCfg, victims: &[usize], out: &mut RunOut, text: &mut String) {
    let n = cfg.n;
    let log = Log::new();
    let core = Rc::new(RefCell::new(Core::new(0, Flavour::Always, 1, None, log.clone())));
    let mut ccfg = client::Config::default();
    ccfg.max_in_flight_requests = n + 2;
    ccfg.pending_request_buffer = n + 2;
    let nc = client::new::<u32, u32, MT>(ccfg, MockTransport::new(core.clone()));
    let ch = nc.client;
    let mut dispatch = Box::pin(nc.dispatch);
    let flag = Flag::new(true);
    let waker = Waker::from(flag.clone());
    let mut cx = Context::from_waker(&waker);
    type CallFut = Pin<Box<dyn Future<Output = Result<u32, client::RpcError>>>>;
    let mk = |i: usize| -> CallFut {
        let c = ch.clone();
        let mut ctx = context::current();
        ctx.deadline = log.t0 + std::time::Duration::from_secs(60);
        Box::pin(async move { c.call(ctx, i as u32).await })
    };
    let mut calls: Vec<Option<CallFut>> = (0..n).map(|i| Some(mk(i))).collect();
    for c in calls.iter_mut() {
        let _ = c.as_mut().unwrap().as_mut().poll(&mut cx);
    }
    if drive(&mut dispatch, &mut cx, &flag, n) {
        out.violations.push(viol("C03-burst-dispatch-ended", "the dispatch ended with handles alive".into()));
        return;
    }
    let ids: Vec<(u64, u32)> = core.borrow().wire.iter().filter_map(|m| if let Msg::Req { id, payload, .. } = m { Some((*id, *payload)) } else { None }).collect();
    if ids.len() != n {
        out.violations.push(viol("burst-not-transmitted", format!("{n} calls begun over an always-writable transport with room for all: {} requests were written", ids.len())));
        return;
    }
    let mut vids: Vec<u64> = vec![];
    for victim in victims {
        let Some(vid) = ids.iter().find(|(_, p)| *p as usize == *victim).map(|(id, _)| *id) else {
            out.machinery_error = Some("abandon-among-many: a victim's request is not on the wire".into());
            return;
        };
        vids.push(vid);
    }
    // before the dispatch runs again: the victims are abandoned, one more call is begun
    for victim in victims {
        calls[*victim] = None;
    }
    let mut extra = mk(n);
    let _ = extra.as_mut().poll(&mut cx);
    out.nontrivial = true;
    drive(&mut dispatch, &mut cx, &flag, n);
    let wire = core.borrow().wire.clone();
    let cancels: Vec<u64> = wire.iter().filter_map(|m| if let Msg::Cancel { id, .. } = m { Some(*id) } else { None }).collect();
    let tag = if victims.len() == 1 {
        format!("{n} calls in flight, the {} one abandoned and one more call begun before the dispatch ran again", if victims[0] + 1 == n { "newest" } else { "oldest" })
    } else {
        format!("{n} calls in flight, calls {victims:?} abandoned together and one more call begun before the dispatch ran again")
    };
    text.push_str(&format!("{tag}: cancels {cancels:?}\n"));
    for vid in &vids {
        let mine = cancels.iter().filter(|c| *c == vid).count();
        if mine == 0 {
            out.violations.push(viol("C03-R4-cancel-not-delivered", format!("{tag}: no cancellation for request {vid} reached the wire")));
        }
        if mine > 1 {
            out.violations.push(viol("C03-R2-cancel-twice", format!("{tag}: {mine} cancellations for request {vid}")));
        }
    }
    if let Some(other) = cancels.iter().find(|c| !vids.contains(c)) {
        out.violations.push(viol("C03-R1-spurious-cancel", format!("{tag}: a cancellation for request {other}, whose call is alive")));
    }
    if !wire.iter().any(|m| matches!(m, Msg::Req { payload, .. } if *payload as usize == n)) {
        out.violations.push(viol("burst-not-transmitted", format!("{tag}: the new call's request was not written")));
    }
    drop(extra);
    drop(calls);
    drop(ch);
}

async fn run_many_calls(cfg: &BurstCfg, out: &mut RunOut, text: &mut String) {
    let log = Log::new();
    let core = Rc::new(RefCell::new(Core::new(0, Flavour::Always, 1, None, log.clone())));
    let mut ccfg = client::Config::default();
    ccfg.max_in_flight_requests = cfg.n + 1;
    ccfg.pending_request_buffer = cfg.n + 1;
    let nc = client::new::<u32, u32, MT>(ccfg, MockTransport::new(core.clone()));
    let ch = nc.client;
    let mut dispatch = Box::pin(nc.dispatch);
    let dflag = Flag::new(true);
    let dwaker = Waker::from(dflag.clone());
    type CallFut = Pin<Box<dyn Future<Output = Result<u32, client::RpcError>>>>;
    let mut calls: Vec<(CallFut, std::sync::Arc<Flag>, Option<String>)> = vec![];
    for i in 0..cfg.n {
        let c = ch.clone();
        let mut ctx = context::current();
        ctx.deadline = log.t0 + std::time::Duration::from_secs(10);
        calls.push((Box::pin(async move { c.call(ctx, i as u32).await }), Flag::new(true), None));
    }
    // every task runs when (and only when) it has been woken, until nothing is woken
    macro_rules! settle {
        () => {
            for _ in 0..(8 * cfg.n + 64) {
                let mut any = false;
                for (f, flag, outc) in calls.iter_mut() {
                    if outc.is_none() && flag.is_set() {
                        flag.clear();
                        any = true;
                        let w = flag.fresh_waker();
                        let mut cx = Context::from_waker(&w);
                        if let Poll::Ready(r) = f.as_mut().poll(&mut cx) {
                            *outc = Some(match r {
                                Ok(v) => format!("Ok({v})"),
                                Err(e) => format!("Err({e})"),
                            });
                        }
                    }
                }
                if dflag.is_set() {
                    dflag.clear();
                    any = true;
                    let dw = dflag.fresh_waker();
                    let mut cx = Context::from_waker(&dw);
                    if dispatch.as_mut().poll(&mut cx).is_ready() {
                        out.violations.push(viol("C02-burst-dispatch-ended", "the dispatch ended with handles alive".into()));
                        return;
                    }
                }
                if !any {
                    break;
                }
            }
        };
    }
    settle!();
    let sent = core.borrow().wire.iter().filter(|m| matches!(m, Msg::Req { .. })).count();
    text.push_str(&format!("requests on the wire once everything is quiet: {sent} of {}\n", cfg.n));
    out.nontrivial = cfg.n > 1;
    if sent != cfg.n {
        out.violations.push(viol(
            "C02-burst-queued-not-sent",
            format!("{} calls made at once: with every task idle and nothing woken only {sent} requests have been transmitted", cfg.n),
        ));
    }
    tokio::time::advance(std::time::Duration::from_millis(10_001)).await;
    settle!();
    let pending = calls.iter().filter(|c| c.2.is_none()).count();
    text.push_str(&format!("calls still pending 1 ms after the common deadline: {pending}\n"));
    if pending > 0 {
        out.violations.push(viol(
            "C02-burst-call-pending",
            format!("{} calls made at once to a silent peer: {pending} are still pending after their deadline with nothing left that could wake anybody", cfg.n),
        ));
    }
    let wrong = calls.iter().filter(|c| c.2.as_deref().map(|o| o != "Err(the request exceeded its deadline)").unwrap_or(false)).count();
    if wrong > 0 {
        out.violations.push(viol("C02-burst-outcome", format!("{wrong} of {} calls to a silent peer ended with something other than the deadline error", cfg.n)));
    }
    drop(calls);
    drop(ch);
}

async fn run_many_expire(cfg: &BurstCfg, out: &mut RunOut, text: &mut String) {
    let log = Log::new();
    let core: Rc<RefCell<Core<ClientMessage<u32>>>> = Rc::new(RefCell::new(Core::new(1, Flavour::Always, 1, None, log.clone())));
    let chan = BaseChannel::new(tarpc::server::Config { pending_response_buffer: cfg.n + 2 }, ST::new(core.clone()));
    let mut reqs = Box::pin(chan.requests());
    let flag = Flag::new(true);
    let waker = Waker::from(flag.clone());
    let mut cx = Context::from_waker(&waker);
    let mk = |id: u64, secs: u64| {
        let mut ctx = context::current();
        ctx.deadline = log.t0 + std::time::Duration::from_secs(secs);
        ClientMessage::Request(Request { context: ctx, id, message: id as u32 })
    };
    for i in 0..cfg.n {
        core.borrow_mut().push_in(InItem::Item(mk(i as u64, 10)));
    }
    let gate = Rc::new(std::cell::Cell::new(false));
    let mut futs: Vec<Option<Pin<Box<dyn Future<Output = ()>>>>> = vec![];
    macro_rules! accept {
        ($want:expr) => {{
            let mut res: Result<(), String> = Ok(());
            for _ in 0..(2 * $want + 8) {
                if futs.len() >= $want {
                    break;
                }
                match reqs.as_mut().poll_next(&mut cx) {
                    Poll::Ready(Some(Ok(r))) => {
                        let g = gate.clone();
                        futs.push(Some(Box::pin(r.execute(tarpc::server::serve(move |_, x: u32| {
                            let g = g.clone();
                            async move {
                                // finishes at the first poll after the gate has opened
                                futures::future::poll_fn(|_| if g.get() { Poll::Ready(()) } else { Poll::Pending }).await;
                                Ok(x + 5000)
                            }
                        })))));
                    }
                    Poll::Ready(Some(Err(e))) => {
                        res = Err(format!("server stream error {e}"));
                        break;
                    }
                    Poll::Ready(None) => break,
                    Poll::Pending => {}
                }
            }
            res
        }};
    }
    if let Err(e) = accept!(cfg.n) {
        out.machinery_error = Some(format!("burst harness: {e}"));
        return;
    }
    if futs.len() != cfg.n {
        out.machinery_error = Some(format!("burst harness: {} of {} requests handed over", futs.len(), cfg.n));
        return;
    }
    for f in futs.iter_mut() {
        let _ = f.as_mut().unwrap().as_mut().poll(&mut cx);
    }
    // the common deadline passes while nobody polls the channel; then every handler finishes
    // (its response goes into the channel's response buffer) and a fresh request arrives
    tokio::time::advance(std::time::Duration::from_millis(10_001)).await;
    gate.set(true);
    for f in futs.iter_mut() {
        if f.as_mut().unwrap().as_mut().poll(&mut cx).is_ready() {
            *f = None;
        }
    }
    core.borrow_mut().push_in(InItem::Item(mk(1_000_000, 3600)));
    let want = cfg.n + 1;
    let _ = accept!(want);
    for _ in 0..(2 * cfg.n + 16) {
        flag.clear();
        let _ = reqs.as_mut().poll_next(&mut cx);
        for f in futs.iter_mut() {
            if let Some(ff) = f.as_mut() {
                if ff.as_mut().poll(&mut cx).is_ready() {
                    *f = None;
                }
            }
        }
        if !flag.is_set() {
            break;
        }
    }
    out.nontrivial = cfg.n > 1;
    let late: Vec<u64> = core.borrow().wire.iter().filter_map(|m| if let Msg::Resp { id, .. } = m { if *id < 1_000_000 { Some(*id) } else { None } } else { None }).collect();
    text.push_str(&format!("responses transmitted for expired requests: {late:?}\n"));
    if !late.is_empty() {
        out.violations.push(viol(
            "burst-response-after-deadline",
            format!("{} requests expired together (handlers finished only afterwards) and a fresh request arrived: responses for {} of them were transmitted after their deadline (first id {})", cfg.n, late.len(), late[0]),
        ));
    }
    let inf = reqs.channel().in_flight_requests();
    if inf > 1 {
        out.violations.push(viol("burst-not-expired", format!("{} requests expired together: in_flight_requests() still reports {inf} after the channel went idle past the deadline (1 fresh request is in flight)", cfg.n)));
    }
}

/// A transport that can live in a spawned task: accepts everything, fails its first flush, never
/// yields a response (it keeps the reader's waker, as the contract asks).
#[derive(Default)]
struct SendMockInner {
    /// fail the first read (a frame that does not decode) instead of the first flush
    fail_read: bool,
    failed: bool,
    writes: usize,
    writes_after_failure: usize,
    flushes: usize,
    read_waker: Option<Waker>,
}
#[derive(Clone, Default)]
struct SendMock(std::sync::Arc<std::sync::Mutex<SendMockInner>>);
impl Stream for SendMock {
    type Item = Result<Response<u32>, std::io::Error>;
    fn poll_next(self: Pin<&mut Self>, cx: &mut Context<'_>) -> Poll<Option<Self::Item>> {
        let mut g = self.0.lock().unwrap();
        if g.fail_read && !g.failed {
            g.failed = true;
            return Poll::Ready(Some(Err(std::io::Error::new(std::io::ErrorKind::InvalidData, "frame does not decode"))));
        }
        g.read_waker = Some(cx.waker().clone());
        Poll::Pending
    }
}
impl futures::Sink<ClientMessage<u32>> for SendMock {
    type Error = std::io::Error;
    fn poll_ready(self: Pin<&mut Self>, _: &mut Context<'_>) -> Poll<Result<(), Self::Error>> {
        Poll::Ready(Ok(()))
    }
    fn start_send(self: Pin<&mut Self>, _: ClientMessage<u32>) -> Result<(), Self::Error> {
        let mut g = self.0.lock().unwrap();
        g.writes += 1;
        if g.failed {
            g.writes_after_failure += 1;
        }
        Ok(())
    }
    fn poll_flush(self: Pin<&mut Self>, _: &mut Context<'_>) -> Poll<Result<(), Self::Error>> {
        let mut g = self.0.lock().unwrap();
        g.flushes += 1;
        if g.fail_read {
            return Poll::Ready(Ok(()));
        }
        g.failed = true;
        Poll::Ready(Err(std::io::Error::new(std::io::ErrorKind::BrokenPipe, "flush failed")))
    }
    fn poll_close(self: Pin<&mut Self>, _: &mut Context<'_>) -> Poll<Result<(), Self::Error>> {
        Poll::Ready(Ok(()))
    }
}

async fn run_spawned_flush_fault(cfg: &BurstCfg, out: &mut RunOut, text: &mut String) {
    let t = SendMock::default();
    let read_fault = cfg.side == Side::SpawnedClientReadFault;
    t.0.lock().unwrap().fail_read = read_fault;
    let what = if read_fault { "the first read yielded a frame that does not decode" } else { "the transport's first flush failed" };
    let mut ccfg = client::Config::default();
    ccfg.pending_request_buffer = 4096;
    ccfg.max_in_flight_requests = 4096;
    let nc = client::new::<u32, u32, SendMock>(ccfg, t.clone());
    let ch = nc.client;
    let t0 = std::time::Instant::now();
    let mut calls = vec![];
    for i in 0..cfg.n {
        let c = ch.clone();
        calls.push(tokio::spawn(async move {
            let mut ctx = context::current();
            ctx.deadline = t0 + std::time::Duration::from_secs(3600);
            c.call(ctx, i as u32).await
        }));
    }
    let settle = || async {
        for _ in 0..(4 * cfg.n + 64) {
            tokio::task::yield_now().await;
        }
    };
    // every call has queued its request before the dispatch runs for the first time
    settle().await;
    let dispatch = tokio::spawn(nc.dispatch);
    settle().await;
    out.nontrivial = cfg.n > 1;
    let g = t.0.lock().unwrap();
    text.push_str(&format!("writes {} (after the failed flush: {}), flushes {}\n", g.writes, g.writes_after_failure, g.flushes));
    if g.writes_after_failure > 0 {
        out.violations.push(viol(
            "C14-ii-send-after-error",
            format!("{} calls queued before a spawned dispatch first ran, {what}: {} items were written to it afterwards", cfg.n, g.writes_after_failure),
        ));
    }
    drop(g);
    if !dispatch.is_finished() {
        out.violations.push(viol("burst-dispatch-not-ended", format!("{} calls, {what}: the spawned dispatch is still running", cfg.n)));
        dispatch.abort();
    } else if let Ok(Ok(())) = dispatch.await {
        out.violations.push(viol("burst-dispatch-ended-ok", format!("{} calls, {what}: the spawned dispatch ended with Ok", cfg.n)));
    }
    settle().await;
    let mut pending = 0;
    let mut succeeded = 0;
    for c in calls {
        if !c.is_finished() {
            pending += 1;
            c.abort();
        } else if let Ok(Ok(_)) = c.await {
            succeeded += 1;
        }
    }
    text.push_str(&format!("calls still pending {pending}, succeeded {succeeded}\n"));
    if pending > 0 {
        out.violations.push(viol("burst-call-hangs", format!("{} calls, {what}, dispatch gone: {pending} calls are still pending", cfg.n)));
    }
    if succeeded > 0 {
        out.violations.push(viol("burst-call-succeeded", format!("{succeeded} calls succeeded without a reply")));
    }
    drop(ch);
}

#[derive(Debug, Clone, PartialEq, Eq)]
enum WEv {
    Req(u64),
    Cancel(u64),
    Close,
}
/// A transport that can live in a spawned task: always writable, records what is written and
/// closed; the read side is a tokio channel (takes part in cooperative scheduling like a socket).
struct RecMock {
    incoming: tokio::sync::mpsc::UnboundedReceiver<Response<u32>>,
    log: std::sync::Arc<std::sync::Mutex<Vec<WEv>>>,
}
impl Stream for RecMock {
    type Item = Result<Response<u32>, std::io::Error>;
    fn poll_next(mut self: Pin<&mut Self>, cx: &mut Context<'_>) -> Poll<Option<Self::Item>> {
        match self.incoming.poll_recv(cx) {
            Poll::Ready(Some(r)) => Poll::Ready(Some(Ok(r))),
            // the peer never ends the stream in this scenario
            Poll::Ready(None) | Poll::Pending => Poll::Pending,
        }
    }
}
impl futures::Sink<ClientMessage<u32>> for RecMock {
    type Error = std::io::Error;
    fn poll_ready(self: Pin<&mut Self>, _: &mut Context<'_>) -> Poll<Result<(), Self::Error>> {
        Poll::Ready(Ok(()))
    }
    fn start_send(self: Pin<&mut Self>, m: ClientMessage<u32>) -> Result<(), Self::Error> {
        let ev = match m {
            ClientMessage::Request(r) => WEv::Req(r.id),
            ClientMessage::Cancel { request_id, .. } => WEv::Cancel(request_id),
            _ => return Ok(()),
        };
        self.log.lock().unwrap().push(ev);
        Ok(())
    }
    fn poll_flush(self: Pin<&mut Self>, _: &mut Context<'_>) -> Poll<Result<(), Self::Error>> {
        Poll::Ready(Ok(()))
    }
    fn poll_close(self: Pin<&mut Self>, _: &mut Context<'_>) -> Poll<Result<(), Self::Error>> {
        self.log.lock().unwrap().push(WEv::Close);
        Poll::Ready(Ok(()))
    }
}

async fn run_spawned_shutdown(cfg: &BurstCfg, r: usize, m: usize, out: &mut RunOut, text: &mut String) {
    let n = cfg.n;
    let log = std::sync::Arc::new(std::sync::Mutex::new(Vec::new()));
    let (replies, incoming) = tokio::sync::mpsc::unbounded_channel();
    // keeps the read side open for the whole scenario
    let _keep = replies.clone();
    let mut ccfg = client::Config::default();
    ccfg.pending_request_buffer = n + m + 1;
    ccfg.max_in_flight_requests = n + m + 1;
    let nc = client::new::<u32, u32, RecMock>(ccfg, RecMock { incoming, log: log.clone() });
    let ch = nc.client;
    let dispatch = tokio::spawn(nc.dispatch);
    let settle = || async {
        for _ in 0..(4 * n + 64) {
            tokio::task::yield_now().await;
        }
    };
    let t0 = std::time::Instant::now();
    let ctx = || {
        let mut ctx = context::current();
        ctx.deadline = t0 + std::time::Duration::from_secs(3600);
        ctx
    };
    let w = futures::task::noop_waker();
    let mut cx = Context::from_waker(&w);
    {
        let mut calls = vec![];
        for i in 0..n {
            let mut c = Box::pin(ch.call(ctx(), i as u32));
            if c.as_mut().poll(&mut cx).is_ready() {
                out.machinery_error = Some("spawned shutdown: a call completed without a reply".into());
                return;
            }
            calls.push(c);
        }
        settle().await;
        let sent = log.lock().unwrap().iter().filter(|e| matches!(e, WEv::Req(_))).count();
        if sent != n {
            out.violations.push(viol("burst-not-transmitted", format!("{n} calls begun over an always-writable transport, the spawned dispatch has settled: {sent} requests were written")));
            dispatch.abort();
            return;
        }
        // everything below happens before the dispatch task runs again
        for id in 0..r {
            let _ = replies.send(Response { request_id: id as u64, message: Ok(0) });
        }
        for j in 0..m {
            let mut c = Box::pin(ch.call(ctx(), (n + j) as u32));
            let _ = c.as_mut().poll(&mut cx);
            calls.push(c);
        }
        drop(calls);
    }
    drop(ch);
    settle().await;
    out.nontrivial = true;
    let tag = format!("{n} calls in flight, {r} answered, {m} begun but unsent, all abandoned and the last handle dropped in one go (spawned dispatch)");
    if !dispatch.is_finished() {
        out.violations.push(viol("C10-shutdown-waits", format!("{tag}: the dispatch has not completed")));
        dispatch.abort();
    } else {
        match dispatch.await {
            Ok(Ok(())) => {}
            Ok(Err(e)) => out.violations.push(viol("C10-drop-outcome", format!("{tag}: the dispatch ended with {e}"))),
            Err(_) => out.violations.push(viol("burst-panic", format!("{tag}: the dispatch task panicked or was cancelled"))),
        }
    }
    let log = log.lock().unwrap();
    let closes = log.iter().filter(|e| **e == WEv::Close).count();
    let first_close = log.iter().position(|e| *e == WEv::Close).unwrap_or(log.len());
    text.push_str(&format!("r={r} m={m}: {} writes, {closes} closes, first close at {first_close}\n", log.len() - closes));
    if closes != 1 {
        out.violations.push(viol("C10-no-close", format!("{tag}: the write side was closed {closes} times")));
    }
    if first_close + 1 < log.len() {
        out.violations.push(viol("C10-write-after-close", format!("{tag}: {} items written or closes made after the write side was closed (first: {:?})", log.len() - first_close - 1, log[first_close + 1])));
    }
    // every request that was written and not answered is cancelled before the close
    let before: HashSet<u64> = log[..first_close].iter().filter_map(|e| if let WEv::Cancel(id) = e { Some(*id) } else { None }).collect();
    let missing: Vec<u64> = log.iter().filter_map(|e| if let WEv::Req(id) = e { Some(*id) } else { None }).filter(|id| (*id as usize) >= r && !before.contains(id)).collect();
    if !missing.is_empty() {
        out.violations.push(viol("C10-close-before-cancel", format!("{tag}: the write side was closed before the cancellations owed for {} abandoned calls were transmitted (first: id {})", missing.len(), missing[0])));
    }
}

#[derive(Default)]
struct PeerIn {
    queue: std::collections::VecDeque<ClientMessage<u32>>,
    waker: Option<Waker>,
}
/// The server's end of a connection whose peer takes no responses before `ready_at` (tokio's
/// clock); a task told "not ready" is woken by the timer when that moment comes.
struct LatePeer {
    inbound: std::sync::Arc<std::sync::Mutex<PeerIn>>,
    written: std::sync::Arc<std::sync::Mutex<Vec<(u64, tokio::time::Instant)>>>,
    ready_at: tokio::time::Instant,
    until_ready: Pin<Box<tokio::time::Sleep>>,
    unready_sends: std::sync::Arc<std::sync::atomic::AtomicUsize>,
}
impl Stream for LatePeer {
    type Item = Result<ClientMessage<u32>, std::io::Error>;
    fn poll_next(self: Pin<&mut Self>, cx: &mut Context<'_>) -> Poll<Option<Self::Item>> {
        let mut g = self.inbound.lock().unwrap();
        match g.queue.pop_front() {
            Some(m) => Poll::Ready(Some(Ok(m))),
            None => {
                g.waker = Some(cx.waker().clone());
                Poll::Pending
            }
        }
    }
}
impl futures::Sink<Response<u32>> for LatePeer {
    type Error = std::io::Error;
    fn poll_ready(mut self: Pin<&mut Self>, cx: &mut Context<'_>) -> Poll<Result<(), Self::Error>> {
        if tokio::time::Instant::now() >= self.ready_at {
            return Poll::Ready(Ok(()));
        }
        let _ = self.until_ready.as_mut().poll(cx);
        Poll::Pending
    }
    fn start_send(self: Pin<&mut Self>, r: Response<u32>) -> Result<(), Self::Error> {
        if tokio::time::Instant::now() < self.ready_at {
            self.unready_sends.fetch_add(1, std::sync::atomic::Ordering::SeqCst);
        }
        self.written.lock().unwrap().push((r.request_id, tokio::time::Instant::now()));
        Ok(())
    }
    fn poll_flush(self: Pin<&mut Self>, _: &mut Context<'_>) -> Poll<Result<(), Self::Error>> {
        Poll::Ready(Ok(()))
    }
    fn poll_close(self: Pin<&mut Self>, _: &mut Context<'_>) -> Poll<Result<(), Self::Error>> {
        Poll::Ready(Ok(()))
    }
}

async fn run_spawned_expire_queued(cfg: &BurstCfg, out: &mut RunOut, text: &mut String) {
    use futures::StreamExt;
    use std::sync::atomic::{AtomicUsize, Ordering};
    use std::sync::{Arc, Mutex};
    use std::time::Duration;
    struct Guard(Arc<AtomicUsize>);
    impl Drop for Guard {
        fn drop(&mut self) {
            self.0.fetch_add(1, Ordering::SeqCst);
        }
    }
    let n = cfg.n;
    const CONTROL: u64 = 5_000_000;
    let inbound = Arc::new(Mutex::new(PeerIn::default()));
    let written = Arc::new(Mutex::new(Vec::new()));
    let unready = Arc::new(AtomicUsize::new(0));
    let started = Arc::new(AtomicUsize::new(0));
    let dropped = Arc::new(AtomicUsize::new(0));
    let t0 = tokio::time::Instant::now();
    let ready_at = t0 + Duration::from_secs(4);
    let transport = LatePeer { inbound: inbound.clone(), written: written.clone(), ready_at, until_ready: Box::pin(tokio::time::sleep_until(ready_at)), unready_sends: unready.clone() };
    let fast = (n - 1) as u32;
    let (st2, dr2) = (started.clone(), dropped.clone());
    let serve = tarpc::server::serve(move |_, x: u32| {
        let (st, dr) = (st2.clone(), dr2.clone());
        async move {
            st.fetch_add(1, Ordering::SeqCst);
            if x != fast && (x as u64) != CONTROL {
                let _g = Guard(dr);
                futures::future::pending::<()>().await;
            }
            Ok(x)
        }
    });
    let server = tokio::spawn(BaseChannel::with_defaults(transport).execute(serve).for_each(|h| async move {
        tokio::spawn(h);
    }));
    let base = t0.into_std();
    // (10 ms apart; 1 ms apart for the large sizes, so that every deadline lies before 4 s)
    let spacing = if n <= 290 { 10u64 } else { 1 };
    let deadline = |i: usize| base + Duration::from_secs(1) + Duration::from_millis(spacing * i as u64);
    {
        let mut g = inbound.lock().unwrap();
        for i in 0..n {
            let mut ctx = context::current();
            ctx.deadline = deadline(i);
            g.queue.push_back(ClientMessage::Request(Request { context: ctx, id: i as u64, message: i as u32 }));
        }
        let mut ctx = context::current();
        ctx.deadline = base + Duration::from_secs(3600);
        g.queue.push_back(ClientMessage::Request(Request { context: ctx, id: CONTROL, message: CONTROL as u32 }));
        if let Some(w) = g.waker.take() {
            w.wake();
        }
    }
    let settle = || async {
        for _ in 0..(4 * n + 64) {
            tokio::task::yield_now().await;
        }
    };
    settle().await;
    let st = started.load(Ordering::SeqCst);
    if st != n + 1 {
        out.violations.push(viol("burst-not-served", format!("{} requests sent to a spawned server, {st} handlers were started before any deadline", n + 1)));
        server.abort();
        return;
    }
    if dropped.load(Ordering::SeqCst) != 0 {
        out.violations.push(viol("burst-early-abort", format!("{} handlers were dropped before any deadline had passed", dropped.load(Ordering::SeqCst))));
    }
    tokio::time::advance(Duration::from_secs(5)).await;
    settle().await;
    tokio::time::advance(Duration::from_millis(10)).await;
    settle().await;
    out.nontrivial = n > 1;
    let dr = dropped.load(Ordering::SeqCst);
    let w = written.lock().unwrap().clone();
    text.push_str(&format!("parked handlers dropped: {dr} of {}; written: {} responses\n", n - 1, w.len()));
    if dr != n - 1 {
        out.violations.push(viol("burst-not-expired", format!("{} parked handlers of a spawned server were running when their deadlines passed; {} of them are still alive 2.4 s after the last deadline", n - 1, n - 1 - dr)));
    }
    if unready.load(Ordering::SeqCst) > 0 {
        out.violations.push(viol("C14-i-send-without-ready", format!("{} responses written while the transport was not ready", unready.load(Ordering::SeqCst))));
    }
    if !w.iter().any(|(id, _)| *id == CONTROL) {
        out.violations.push(viol("burst-connection-stalled", format!("{n} requests expired on a spawned server; the request that is nowhere near its deadline is not answered once the peer reads again")));
    }
    let late: Vec<u64> = w.iter().filter(|(id, t)| *id != CONTROL && t.into_std() > deadline(*id as usize)).map(|(id, _)| *id).collect();
    if !late.is_empty() {
        out.violations.push(viol("C06-response-after-deadline", format!("spawned server, {n} requests with deadlines 10 ms apart, the peer not reading until 4 s: responses for requests {:?} were transmitted after their deadlines", &late[..late.len().min(5)])));
    }
    server.abort();
}

async fn run_spawned_expire(cfg: &BurstCfg, out: &mut RunOut, text: &mut String) {
    use futures::{SinkExt, StreamExt};
    use std::sync::atomic::{AtomicUsize, Ordering};
    use std::sync::Arc;
    use tarpc::server::incoming::{spawn_incoming, Incoming};
    struct Guard(Arc<AtomicUsize>);
    impl Drop for Guard {
        fn drop(&mut self) {
            self.0.fetch_add(1, Ordering::SeqCst);
        }
    }
    let started = Arc::new(AtomicUsize::new(0));
    let dropped = Arc::new(AtomicUsize::new(0));
    let (mut peer, server_end) = tarpc::transport::channel::unbounded::<Response<u32>, ClientMessage<u32>>();
    let (st2, dr2) = (started.clone(), dropped.clone());
    let serve = tarpc::server::serve(move |_, x: u32| {
        let (st, dr) = (st2.clone(), dr2.clone());
        async move {
            if x >= 1_000_000 {
                return Ok(x);
            }
            st.fetch_add(1, Ordering::SeqCst);
            let _g = Guard(dr);
            futures::future::pending::<()>().await;
            Ok(0u32)
        }
    });
    let incoming = futures::stream::once(async move { BaseChannel::with_defaults(server_end) }).execute(serve);
    let server = tokio::spawn(spawn_incoming(incoming));
    let t0 = std::time::Instant::now();
    let mk = |id: u64, secs: u64| {
        let mut ctx = context::current();
        ctx.deadline = t0 + std::time::Duration::from_secs(secs);
        ClientMessage::Request(Request { context: ctx, id, message: id as u32 })
    };
    for i in 0..cfg.n {
        if peer.send(mk(i as u64, 1 + (i as u64 % 2))).await.is_err() {
            out.machinery_error = Some("spawned burst: the in-memory transport refused a request".into());
            return;
        }
    }
    // let every spawned task run until the runtime has nothing left to do at this instant
    let settle = || async {
        for _ in 0..(4 * cfg.n + 64) {
            tokio::task::yield_now().await;
        }
    };
    settle().await;
    let st = started.load(Ordering::SeqCst);
    text.push_str(&format!("handlers started before the deadline: {st} of {}\n", cfg.n));
    if dropped.load(Ordering::SeqCst) != 0 {
        out.violations.push(viol("burst-early-abort", format!("{} of {} handlers were dropped before any deadline had passed", dropped.load(Ordering::SeqCst), cfg.n)));
    }
    tokio::time::advance(std::time::Duration::from_millis(2500)).await;
    settle().await;
    tokio::time::advance(std::time::Duration::from_millis(10)).await;
    settle().await;
    let dr = dropped.load(Ordering::SeqCst);
    text.push_str(&format!("handlers dropped 1.5 s after the last deadline: {dr} of {st} started\n"));
    out.nontrivial = cfg.n > 1;
    if st != cfg.n {
        out.violations.push(viol("burst-not-served", format!("{} requests sent to a spawned server, only {st} handlers were started before their deadlines", cfg.n)));
    }
    if dr != st {
        out.violations.push(viol("burst-not-expired", format!("{st} handlers of a spawned server were running when their deadlines passed; {} of them are still alive 1.5 s later", st - dr)));
    }
    // the connection still serves
    if peer.send(mk(5_000_000, 3600)).await.is_ok() {
        settle().await;
        let mut answered = false;
        let mut extra = vec![];
        while let Some(Some(Ok(r))) = futures::FutureExt::now_or_never(peer.next()) {
            if r.request_id == 5_000_000 {
                answered = true;
            } else if r.message.is_ok() {
                extra.push(r.request_id);
            }
        }
        if !answered {
            out.violations.push(viol("burst-connection-stalled", format!("after {} requests expired on a spawned server a fresh request on the same connection is not answered", cfg.n)));
        }
        if !extra.is_empty() {
            out.violations.push(viol("burst-response-after-deadline", format!("responses for expired requests {:?} were transmitted", &extra[..extra.len().min(5)])));
        }
    }
    server.abort();
}

fn run_server(cfg: &BurstCfg, out: &mut RunOut, text: &mut String) {
    let log = Log::new();
    let core: Rc<RefCell<Core<ClientMessage<u32>>>> = Rc::new(RefCell::new(Core::new(1, Flavour::Always, 1, None, log.clone())));
    let chan = BaseChannel::with_defaults(ST::new(core.clone()));
    let mut reqs = Box::pin(chan.requests());
    let flag = Flag::new(true);
    let waker = Waker::from(flag.clone());
    let mut cx = Context::from_waker(&waker);
    for i in 0..cfg.n {
        let mut ctx = context::current();
        ctx.deadline = log.t0 + std::time::Duration::from_secs(60);
        core.borrow_mut().push_in(InItem::Item(ClientMessage::Request(Request { context: ctx, id: i as u64, message: i as u32 })));
    }
    let mut held = vec![];
    for _ in 0..(2 * cfg.n + 8) {
        match reqs.as_mut().poll_next(&mut cx) {
            Poll::Ready(Some(Ok(r))) => held.push(r),
            Poll::Ready(Some(Err(e))) => {
                out.machinery_error = Some(format!("burst harness: server stream error {e}"));
                return;
            }
            Poll::Ready(None) => break,
            Poll::Pending => {
                if held.len() == cfg.n {
                    break;
                }
            }
        }
    }
    text.push_str(&format!("requests handed over: {}\n", held.len()));
    if held.len() != cfg.n {
        out.machinery_error = Some(format!("burst harness: {} of {} requests were handed over", held.len(), cfg.n));
        return;
    }
    // the application gives all of them up in one go: odd ones before their handler ever ran,
    // even ones after their handler was polled once
    let mut futs: Vec<Pin<Box<dyn Future<Output = ()>>>> = vec![];
    for (k, r) in held.into_iter().enumerate() {
        if k % 2 == 0 {
            let mut f: Pin<Box<dyn Future<Output = ()>>> = Box::pin(r.execute(tarpc::server::serve(|_, _x: u32| async move {
                futures::future::pending::<()>().await;
                Ok(0u32)
            })));
            let _ = f.as_mut().poll(&mut cx);
            futs.push(f);
        } else {
            drop(r);
        }
    }
    drop(futs);
    out.nontrivial = cfg.n > 1;
    for _ in 0..(2 * cfg.n + 8) {
        flag.clear();
        let _ = reqs.as_mut().poll_next(&mut cx);
        if !flag.is_set() {
            break;
        }
    }
    let inf = reqs.channel().in_flight_requests();
    text.push_str(&format!("in_flight_requests() after the burst: {inf}\n"));
    if inf != 0 {
        out.violations.push(viol(
            "C11-burst-not-reclaimed",
            format!("{} requests handed over and all given up between two channel polls: in_flight_requests() still reports {inf}", cfg.n),
        ));
    }
}

impl Harness for BurstHarness {
    fn name(&self) -> String {
        format!("burst/{}", self.prop)
    }
    fn n_configs(&self) -> usize {
        self.cfgs.len()
    }
    fn config_json(&self, idx: usize) -> serde_json::Value {
        json!(self.cfgs[idx])
    }
    fn run(&self, idx: usize, _prefix: &[u16], render: bool) -> (RunOut, Vec<Point>) {
        (run_cfg(&self.cfgs[idx], render), vec![])
    }
}

pub fn run_cfg(cfg: &BurstCfg, render: bool) -> RunOut {
    let mut out = RunOut {
        violations: vec![],
        nontrivial: false,
        trace_hash: 0,
        outcome_hash: 0,
        steps: cfg.n as u32,
        state_hashes: vec![],
        render: None,
        machinery_error: None,
        extra_execs: 0,
    };
    let mut text = format!("burst {:?} n={}\n", cfg.side, cfg.n);
    let rt = tokio::runtime::Builder::new_current_thread().enable_time().start_paused(true).build().unwrap();
    let r = std::panic::catch_unwind(std::panic::AssertUnwindSafe(|| {
        rt.block_on(tokio::task::unconstrained(async {
            match cfg.side {
                Side::Server => run_server(cfg, &mut out, &mut text),
                Side::ClientManyCalls => run_many_calls(cfg, &mut out, &mut text).await,
                Side::ServerManyExpire => run_many_expire(cfg, &mut out, &mut text).await,
                Side::SpawnedServerExpire => run_spawned_expire(cfg, &mut out, &mut text).await,
                Side::SpawnedClientFlushFault | Side::SpawnedClientReadFault => run_spawned_flush_fault(cfg, &mut out, &mut text).await,
                Side::SpawnedServerExpireQueued => run_spawned_expire_queued(cfg, &mut out, &mut text).await,
                Side::ClientAbandonAmongMany => {
                    for victim_last in [false, true] {
                        run_abandon_among_many(cfg, victim_last, &mut out, &mut text);
                        out.extra_execs += 1;
                    }
                }
                Side::ClientAbandonSeveralOfMany => {
                    let n = cfg.n;
                    let mut sets: Vec<Vec<usize>> = vec![vec![0, 1], vec![n - 2, n - 1], vec![0, n - 1], (0..n).step_by(2).collect(), (0..n).collect(), (0..n).rev().collect()];
                    sets.retain(|s| s.len() >= 2);
                    sets.dedup();
                    for set in sets {
                        run_abandon_set(cfg, &set, &mut out, &mut text);
                        out.extra_execs += 1;
                    }
                }
                Side::SpawnedClientShutdown => {
                    for r in 0..=cfg.n.min(2) {
                        for m in 0..=2usize {
                            run_spawned_shutdown(cfg, r, m, &mut out, &mut text).await;
                            out.extra_execs += 1;
                        }
                    }
                }
                _ => run_client(cfg, &mut out, &mut text),
            }
        }))
    }));
    if r.is_err() {
        out.violations.push(viol("burst-panic", format!("{:?} n={}: {}", cfg.side, cfg.n, take_panic())));
    }
    use std::hash::{Hash, Hasher};
    let mut h = std::collections::hash_map::DefaultHasher::new();
    (format!("{:?}", cfg.side), cfg.n, out.violations.len()).hash(&mut h);
    out.trace_hash = h.finish();
    out.outcome_hash = out.trace_hash;
    out.state_hashes = vec![out.trace_hash];
    let _: HashSet<u8> = HashSet::new();
    if render {
        out.render = Some(text);
    }
    out
}
