//! C09: fault enumeration. Fault-free executions with <= Bb deviations are the *bases*; for each
//! base, each transport operation kind X and each k <= (number of X calls in the base) the same
//! prefix (cut where the k-th X call happens) is re-run with "fail the k-th X" (one-shot and
//! sticky; for reads also "end of stream at the k-th read"), then completed canonically.

use crate::client_core::{self as cc, CCfg, CallerCfg, Script};
use crate::client_props::{self as cp, CProp};
use crate::driver::*;
use crate::explore::{cost, nthreads, Violation};
use crate::mock::*;
use crate::server_core::{self as sc, HKind, ReqCfg, Route, SCfg};
use crate::server_props::{self as sp, SProp};
use serde_json::{json, Value};
use std::collections::HashSet;
use std::sync::atomic::{AtomicUsize, Ordering};
use std::sync::Mutex;
use std::time::Instant;

#[derive(Clone)]
pub enum AnyCfg {
    C(CCfg),
    S(SCfg),
}

impl AnyCfg {
    fn with_fault(&self, f: Option<Fault>) -> AnyCfg {
        match self {
            AnyCfg::C(c) => {
                let mut c = c.clone();
                c.fault = f;
                AnyCfg::C(c)
            }
            AnyCfg::S(c) => {
                let mut c = c.clone();
                c.fault = f;
                AnyCfg::S(c)
            }
        }
    }
    fn json(&self) -> Value {
        match self {
            AnyCfg::C(c) => serde_json::to_value(c).unwrap(),
            AnyCfg::S(c) => serde_json::to_value(c).unwrap(),
        }
    }
    fn harness(&self) -> &'static str {
        match self {
            AnyCfg::C(_) => "client_core/C09",
            AnyCfg::S(_) => "server_core/C09",
        }
    }
}

pub struct OneRun {
    pub violations: Vec<Violation>,
    pub trace_hash: u64,
    pub outcome_hash: u64,
    pub steps: u32,
    pub choices: Vec<u16>,
    pub arities: Vec<u16>,
    pub call_pos: Vec<(Op, u32)>,
    pub fault_fired: bool,
    pub render: Option<String>,
    pub err: Option<String>,
    pub states: Vec<u64>,
}

pub fn run_any(cfg: &AnyCfg, prefix: &[u16], render: bool) -> OneRun {
    match cfg {
        AnyCfg::C(c) => {
            let e = cc::execute(c, prefix, None);
            let (out, pts) = cp::run_cfg(CProp::C09, c, prefix, render);
            let fired = e
                .recs
                .iter()
                .any(|r| matches!(r, Rec::T { res: Res::Err, .. }))
                || (c.fault.map(|f| f.eof).unwrap_or(false)
                    && e.recs.iter().any(|r| matches!(r, Rec::T { res: Res::Eof, .. })));
            OneRun {
                violations: out.violations,
                trace_hash: out.trace_hash,
                outcome_hash: out.outcome_hash,
                steps: out.steps,
                choices: pts.iter().map(|p| p.chosen).collect(),
                arities: pts.iter().map(|p| p.arity).collect(),
                call_pos: e.call_pos,
                fault_fired: fired,
                render: out.render,
                err: out.machinery_error,
                states: out.state_hashes,
            }
        }
        AnyCfg::S(c) => {
            let e = sc::execute(c, prefix, None);
            let (out, pts) = sp::run_cfg(SProp::C09, c, prefix, render);
            let fired = e
                .recs
                .iter()
                .any(|r| matches!(r, Rec::T { res: Res::Err, .. }))
                || (c.fault.map(|f| f.eof).unwrap_or(false)
                    && e.recs.iter().any(|r| matches!(r, Rec::T { res: Res::Eof, .. })));
            OneRun {
                violations: out.violations,
                trace_hash: out.trace_hash,
                outcome_hash: out.outcome_hash,
                steps: out.steps,
                choices: pts.iter().map(|p| p.chosen).collect(),
                arities: pts.iter().map(|p| p.arity).collect(),
                call_pos: e.call_pos,
                fault_fired: fired,
                render: out.render,
                err: out.machinery_error,
                states: out.state_hashes,
            }
        }
    }
}

fn client_bases(tier: Tier) -> Vec<CCfg> {
    let mut out = vec![];
    let alpha = cc::A_REPLY_UNOWED | cc::A_ABANDON | cc::A_DRAIN;
    for n in 1..=3usize {
        for mif in 1..=2usize {
            // (Coupled, 2): a socket-like transport with room for two messages - the last
            // cancellation is still buffered when the dispatch starts closing, so the first
            // poll_close is Pending and the close completes (or fails: Close#2) in a later poll
            // (seeded change C09l treated a pending close as a completed one)
            for (fl, cap) in [(Flavour::Always, 1usize), (Flavour::Coupled, 1), (Flavour::Indep, 1), (Flavour::Coupled, 2)] {
                if cap == 2 && (n == 3 || mif == 1) {
                    continue;
                }
                for silent in 0..=1usize {
                    if silent == 1 && n == 1 {
                        continue;
                    }
                    let mut callers: Vec<CallerCfg> = (0..n).map(|_| CallerCfg::simple(true)).collect();
                    if silent == 1 {
                        callers[0].answered = false;
                        callers[0].deadline_ms = 50;
                    }
                    let mk = |cs: Vec<CallerCfg>| CCfg {
                        callers: cs,
                        max_in_flight: mif,
                        buffer: 1,
                        flavour: fl,
                        cap,
                        alphabet: alpha,
                        fault: None,
                        keep_root: false,
                        abandon_by_unwind: false,
                        start_age_ms: 0,
                    };
                    out.push(mk(callers.clone()));
                    // an abandoned call: produces a cancellation write
                    let mut cs = callers.clone();
                    cs[n - 1].script = Script::AbandonAfter(2);
                    cs[n - 1].answered = false;
                    out.push(mk(cs));
                    if tier == Tier::Thorough {
                        let mut cs = callers.clone();
                        cs[0].script = Script::AbandonAfter(1);
                        out.push(mk(cs));
                        let mut c = mk(callers.clone());
                        c.buffer = 2;
                        out.push(c);
                    }
                }
            }
        }
    }
    out
}

fn server_bases(tier: Tier) -> Vec<SCfg> {
    let mut out = vec![];
    let alpha = sc::S_CANCEL | sc::S_FINISH | sc::S_DRAIN;
    for n in 1..=3usize {
        for limit in [None, Some(1)] {
            for (fl, cap) in [(Flavour::Always, 1usize), (Flavour::Coupled, 1), (Flavour::Indep, 1)] {
                for route in [Route::Requests, Route::Execute] {
                    for pol in [vec![true; n], (0..n).map(|i| i % 2 == 1).collect::<Vec<_>>()] {
                        if tier == Tier::Quick && n == 3 && route == Route::Execute {
                            continue;
                        }
                        let reqs = pol
                            .iter()
                            .enumerate()
                            .map(|(i, f)| ReqCfg {
                                id: i as u64,
                                deadline_ms: 10_000,
                                finish: *f,
                                hk: HKind::Run,
                                cancel: false,
                                at_ms: None,
                                fails: false,
                            })
                            .collect();
                        out.push(SCfg {
                            reqs,
                            limit,
                            resp_buf: 1,
                            flavour: fl,
                            cap,
                            alphabet: alpha,
                            fault: None,
                            serve_on_after_error: false,
                            eof_at_end: true,
                            route,
                            burst: false,
                            reuse_after_end: false,
                            dup_deadline_ms: 10_000,
                            via_serde: false,
                            start_age_ms: 0,
                            limit_via_incoming: false,
        via_key_limit: false,
                        });
                    }
                }
            }
        }
    }
    out
}

#[derive(Default)]
struct FStats {
    bases: u64,
    fault_runs: u64,
    transitions: u64,
    states: HashSet<u64>,
    nontrivial: HashSet<u64>,
    outcomes: HashSet<u64>,
    per_op: [u64; 5],
    found: Vec<(AnyCfg, Vec<u16>, Violation)>,
    machinery: Vec<String>,
    sample: Option<(AnyCfg, Vec<u16>)>,
}

fn explore_cfg(cfg: &AnyCfg, base_bound: u32, st: &mut FStats) {
    // enumerate bases by DFS
    let mut stack: Vec<Vec<u16>> = vec![vec![]];
    let mut seen_fault_runs: HashSet<(Vec<u16>, Op, u32, bool, bool)> = HashSet::new();
    while let Some(prefix) = stack.pop() {
        let base = run_any(cfg, &prefix, false);
        st.bases += 1;
        st.transitions += base.steps as u64;
        st.states.extend(base.states.iter().copied());
        if let Some(e) = &base.err {
            st.machinery.push(e.clone());
            continue;
        }
        for v in &base.violations {
            st.found.push((cfg.clone(), base.choices.clone(), v.clone()));
        }
        if cost(&prefix) < base_bound {
            for i in prefix.len()..base.choices.len() {
                for alt in 1..base.arities[i] {
                    let mut c = base.choices[..i].to_vec();
                    c.push(alt);
                    stack.push(c);
                }
            }
        }
        // fault plans over this base
        let mut counts = [0u32; 5];
        for (op, pos) in &base.call_pos {
            let oi = OPS.iter().position(|o| o == op).unwrap();
            counts[oi] += 1;
            let k = counts[oi];
            let cut = (*pos as usize).min(base.choices.len());
            let pfx = base.choices[..cut].to_vec();
            let mut variants = vec![(false, false), (true, false)];
            if *op == Op::Next {
                variants.push((false, true));
            }
            for (sticky, eof) in variants {
                if !seen_fault_runs.insert((pfx.clone(), *op, k, sticky, eof)) {
                    continue;
                }
                let fc = cfg.with_fault(Some(Fault {
                    op: *op,
                    k,
                    sticky,
                    eof,
                }));
                let r = run_any(&fc, &pfx, false);
                st.fault_runs += 1;
                st.per_op[oi] += 1;
                st.transitions += r.steps as u64;
                st.states.extend(r.states.iter().copied());
                st.outcomes.insert(r.outcome_hash);
                if let Some(e) = &r.err {
                    st.machinery.push(format!("fault run: {e}"));
                    continue;
                }
                if r.fault_fired {
                    st.nontrivial.insert(r.trace_hash);
                    if st.sample.is_none() || (r.choices.len() > 6 && st.fault_runs % 97 == 0) {
                        st.sample = Some((fc.clone(), pfx.clone()));
                    }
                } else {
                    st.machinery.push(format!(
                        "planned fault {op:?}#{k} did not fire on prefix {pfx:?}"
                    ));
                }
                for v in r.violations {
                    st.found.push((fc.clone(), pfx.clone(), v));
                }
            }
        }
    }
}

pub fn run_c09(tier: Tier) -> i32 {
    let start = Instant::now();
    let base_bound = if tier == Tier::Quick { 1 } else { 2 };
    let mut cfgs: Vec<AnyCfg> = client_bases(tier).into_iter().map(AnyCfg::C).collect();
    cfgs.extend(server_bases(tier).into_iter().map(AnyCfg::S));
    let next = AtomicUsize::new(0);
    let total = Mutex::new(FStats::default());
    std::thread::scope(|s| {
        for _ in 0..nthreads() {
            s.spawn(|| {
                let mut st = FStats::default();
                loop {
                    let i = next.fetch_add(1, Ordering::SeqCst);
                    if i >= cfgs.len() {
                        break;
                    }
                    explore_cfg(&cfgs[i], base_bound, &mut st);
                }
                let mut t = total.lock().unwrap();
                t.bases += st.bases;
                t.fault_runs += st.fault_runs;
                t.transitions += st.transitions;
                t.states.extend(st.states);
                t.nontrivial.extend(st.nontrivial);
                t.outcomes.extend(st.outcomes);
                for k in 0..5 {
                    t.per_op[k] += st.per_op[k];
                }
                t.found.extend(st.found);
                t.machinery.extend(st.machinery);
                if t.sample.is_none() {
                    t.sample = st.sample;
                }
            });
        }
    });
    let t = total.into_inner().unwrap();
    let known = load_known("C09");
    let mut by_sig: std::collections::BTreeMap<String, (AnyCfg, Vec<u16>, Violation)> = Default::default();
    for (c, p, v) in &t.found {
        let e = by_sig.get(&v.signature);
        if e.map(|e| e.1.len() > p.len()).unwrap_or(true) {
            by_sig.insert(v.signature.clone(), (c.clone(), p.clone(), v.clone()));
        }
    }
    let mut nviol = 0;
    let mut known_seen = vec![];
    let mut machinery = t.machinery.clone();
    for (sig, (c, p, v)) in &by_sig {
        let a = run_any(c, p, true);
        let b = run_any(c, p, false);
        if a.trace_hash != b.trace_hash || !a.violations.iter().any(|x| &x.signature == sig) {
            machinery.push(format!("violation {sig} did not replay deterministically"));
            continue;
        }
        let dir = verif_dir().join("replays").join("C09");
        let _ = std::fs::create_dir_all(&dir);
        let mut h: u64 = 0xcbf29ce484222325;
        for b in sig.bytes() {
            h ^= b as u64;
            h = h.wrapping_mul(0x100000001b3);
        }
        let path = dir.join(format!("{h:016x}.json"));
        let doc = json!({
            "property": "C09", "harness": c.harness(), "signature": sig, "message": v.message,
            "config": c.json(), "choices": p,
            "trace": a.render.unwrap_or_default().lines().map(|l| l.to_string()).collect::<Vec<_>>(),
        });
        std::fs::write(&path, serde_json::to_string_pretty(&doc).unwrap()).unwrap();
        if let Some(k) = known.iter().find(|k| &k.signature == sig) {
            println!("KNOWN-FINDING: property=C09 {}", k.what);
            known_seen.push(sig.clone());
        } else {
            println!("VIOLATION property=C09 replay={}", path.display());
            eprintln!("  {sig}: {}", v.message);
            nviol += 1;
        }
    }
    // below the Sink/Stream seam: the shipped serde transport over a failing byte medium
    let io_cases = crate::codec::io_cases();
    let mut io_seen: std::collections::BTreeSet<String> = Default::default();
    let mut io_outcomes: std::collections::BTreeSet<String> = Default::default();
    for c in &io_cases {
        let r = std::panic::catch_unwind(std::panic::AssertUnwindSafe(|| crate::codec::run_io_case(c)));
        let (sig, msg) = match r {
            Ok(Ok(d)) => {
                io_outcomes.insert(d.split(": ").last().unwrap_or("").to_string());
                continue;
            }
            Ok(Err(e)) => e,
            Err(_) => ("C09-panic".to_string(), format!("{c:?}: {}", crate::mock::take_panic())),
        };
        if sig == "C09-machinery" {
            machinery.push(msg);
            continue;
        }
        if !io_seen.insert(sig.clone()) {
            continue;
        }
        let dir = verif_dir().join("replays").join("C09");
        let _ = std::fs::create_dir_all(&dir);
        let path = dir.join(format!("io-{}.json", sig));
        let doc = json!({"property": "C09", "harness": "io-grid", "signature": sig, "message": msg, "config": c, "choices": []});
        std::fs::write(&path, serde_json::to_string_pretty(&doc).unwrap()).unwrap();
        println!("VIOLATION property=C09 replay={}", path.display());
        eprintln!("  {sig}: {msg}");
        nviol += 1;
    }
    let mut samples = vec![];
    if let Some((c, p)) = &t.sample {
        let r = run_any(c, p, true);
        samples.push(json!({"harness": c.harness(), "config": c.json(), "prefix": p,
            "trace": r.render.unwrap_or_default().lines().take(140).collect::<Vec<_>>()}));
    }
    let ev = json!({
        "property_id": "C09", "tier": tier.name(), "seed": seed(), "level": "fault_enumeration",
        "coverage": {
            "evaluations": t.bases + t.fault_runs + io_cases.len() as u64,
            "byte_medium_fault_cases": io_cases.len(),
            "byte_medium_distinct_outcomes": io_outcomes.len(),
            "bases": t.bases,
            "fault_runs": t.fault_runs,
            "fault_runs_per_op": {"poll_ready": t.per_op[0], "start_send": t.per_op[1], "poll_flush": t.per_op[2], "poll_close": t.per_op[3], "poll_next": t.per_op[4]},
            "distinct_nontrivial": t.nontrivial.len(),
            "distinct_outcomes": t.outcomes.len(),
            "states": t.states.len(),
            "transitions": t.transitions,
            "traces_validated_against_impl": t.bases + t.fault_runs,
            "rule": format!("bases = every fault-free execution with <= {base_bound} deviations of every base configuration (client: 1-3 calls x in-flight limit x transport flavour x peer policy x abandonment; server: 1-3 requests x limit x sink flavour x route x handler policy); for every base, every operation kind and every k <= number of calls of that kind in the base: the base's prefix cut at the k-th call, re-run with that call failing (one-shot and sticky; reads also as end-of-stream), completed canonically; plus the shipped serde transport (Json, Bincode) over a byte medium that fails with each of 39 io::ErrorKinds at the first read / after one whole message / inside the second message / at every write / at every flush, observed at three levels: the transport's own stream, a real client dispatch with one call outstanding, a real server channel. Non-trivial = the planned fault actually fired; distinct = distinct trace hashes"),
            "samples": samples,
            "exhaustive": machinery.is_empty(),
            "base_deviation_bound": base_bound,
            "configs": cfgs.len(),
            "known_findings_seen": known_seen,
        },
        "assumptions": ["a transport that has reported an error may be polled again by tarpc only as the contract allows; the mock keeps answering", "tokio channel internals trusted"],
        "wall_s": start.elapsed().as_secs_f64(),
        "violations": nviol,
    });
    write_evidence("C09", &ev);
    eprintln!(
        "C09 {}: bases {} fault runs {} nontrivial {} outcomes {} wall {:.1}s violations {}",
        tier.name(), t.bases, t.fault_runs, t.nontrivial.len(), t.outcomes.len(), start.elapsed().as_secs_f64(), nviol
    );
    if !machinery.is_empty() {
        for m in machinery.iter().take(5) {
            eprintln!("machinery: {m}");
        }
        return 2;
    }
    if nviol > 0 {
        1
    } else {
        0
    }
}

pub fn replay_c09(doc: &Value, path: &str) -> i32 {
    if doc["harness"].as_str() == Some("io-grid") {
        let c: crate::codec::IoCase = serde_json::from_value(doc["config"].clone()).expect("config");
        return match crate::codec::run_io_case(&c) {
            Ok(d) => {
                println!("{d}");
                0
            }
            Err((sig, msg)) => {
                println!("violated: {sig} — {msg}");
                if doc["signature"].as_str() == Some(sig.as_str()) {
                    println!("VIOLATION property=C09 replay={path}");
                    1
                } else {
                    0
                }
            }
        };
    }
    let choices: Vec<u16> = doc["choices"].as_array().unwrap().iter().map(|c| c.as_u64().unwrap() as u16).collect();
    let cfg = if doc["harness"].as_str().unwrap_or("").starts_with("server") {
        AnyCfg::S(serde_json::from_value(doc["config"].clone()).expect("config"))
    } else {
        AnyCfg::C(serde_json::from_value(doc["config"].clone()).expect("config"))
    };
    let r = run_any(&cfg, &choices, true);
    if let Some(e) = r.err {
        eprintln!("machinery: {e}");
        return 2;
    }
    println!("{}", r.render.unwrap_or_default());
    let sig = doc["signature"].as_str().unwrap_or("");
    for v in &r.violations {
        println!("violated: {} — {}", v.signature, v.message);
    }
    if r.violations.iter().any(|v| v.signature == sig) {
        println!("VIOLATION property=C09 replay={path}");
        return 1;
    }
    0
}
