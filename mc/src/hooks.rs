//! C19: request hooks run in order and short-circuit. Every nesting of <= 3 wrappers from
//! {before, after, before_and_after, before().then(..)x k .serving()} around a recording handler,
//! every assignment of behaviours, compared with a small reference interpreter.

use crate::codec::{drive, finish_grid};
use crate::driver::*;
use crate::explore::nthreads;
use serde_json::json;
use std::cell::RefCell;
use std::collections::HashSet;
use std::rc::Rc;
use std::sync::atomic::{AtomicUsize, Ordering};
use std::sync::Mutex;
use std::time::{Duration, Instant};
use tarpc::server::request_hook::{before, AfterRequest, BeforeRequest, BeforeRequestList, RequestHook};
use tarpc::server::Serve;
use tarpc::{context, ServerError};

#[derive(Clone, Copy, Debug, PartialEq, Eq, Hash)]
pub enum BeforeB {
    Ok,
    Mutate,
    Fail,
}
#[derive(Clone, Copy, Debug, PartialEq, Eq, Hash)]
pub enum AfterB {
    Keep,
    OkToErr,
    ErrToOk,
}

#[derive(Clone, Debug, PartialEq, Eq)]
pub enum Entry {
    Before(usize, u64),
    After(usize, u64, Result<u32, String>),
    Handler(u64),
}

pub struct Env {
    base: Instant,
    before: Vec<BeforeB>,
    after: Vec<AfterB>,
    handler_ok: bool,
    log: RefCell<Vec<Entry>>,
}

impl Env {
    /// what a hook left in the context: written into the deadline AND into the trace context (a
    /// hook may change any field); a context in which the two disagree reads as 999_999
    fn marker(&self, ctx: &context::Context) -> u64 {
        let d = ctx.deadline.checked_duration_since(self.base).map(|d| d.as_secs()).unwrap_or(0);
        let t = u128::from(ctx.trace_context.trace_id) as u64;
        let sp = u64::from(ctx.trace_context.span_id);
        let sampled = ctx.trace_context.sampling_decision == tarpc::trace::SamplingDecision::Sampled;
        if d == t && d == sp && sampled == (d != 0) {
            d
        } else {
            999_999
        }
    }
    fn set_marker(&self, ctx: &mut context::Context, id: usize) {
        ctx.deadline = self.base + Duration::from_secs(1000 + id as u64);
        ctx.trace_context.trace_id = tarpc::trace::TraceId::from(1000 + id as u128);
        ctx.trace_context.span_id = tarpc::trace::SpanId::from(1000 + id as u64);
        ctx.trace_context.sampling_decision = tarpc::trace::SamplingDecision::Sampled;
    }
}

/// the kind of a hook's or handler's error is the application's business: each part has its own
/// (seeded change C19k re-ran a before-hook that failed with kind Interrupted)
fn err(tag: &str, id: usize) -> ServerError {
    use std::io::ErrorKind::*;
    let kinds = [Interrupted, Other, WouldBlock, TimedOut, PermissionDenied, UnexpectedEof, InvalidData];
    ServerError::new(kinds[id % kinds.len()], format!("{tag}{id}"))
}

#[derive(Clone)]
struct B(usize, Rc<Env>);
impl BeforeRequest<u32> for B {
    async fn before(&mut self, ctx: &mut context::Context, _req: &u32) -> Result<(), ServerError> {
        let env = &self.1;
        env.log.borrow_mut().push(Entry::Before(self.0, env.marker(ctx)));
        match env.before[self.0] {
            BeforeB::Ok => Ok(()),
            BeforeB::Mutate => {
                env.set_marker(ctx, self.0);
                Ok(())
            }
            BeforeB::Fail => Err(err("before", self.0)),
        }
    }
}

thread_local! {
    /// the environment of the run in progress, for hooks that carry no data themselves
    static ZENV: RefCell<Option<Rc<Env>>> = const { RefCell::new(None) };
}
/// A zero-sized before-hook (like a unit struct or a closure that captures nothing): before-part I.
#[derive(Clone, Copy)]
struct ZB<const I: usize>;
impl<const I: usize> BeforeRequest<u32> for ZB<I> {
    async fn before(&mut self, ctx: &mut context::Context, req: &u32) -> Result<(), ServerError> {
        let env = ZENV.with(|e| e.borrow().clone()).expect("environment set");
        B(I, env).before(ctx, req).await
    }
}

#[derive(Clone)]
struct A(usize, Rc<Env>);
fn do_after(id: usize, env: &Env, ctx: &mut context::Context, resp: &mut Result<u32, ServerError>) {
    env.log.borrow_mut().push(Entry::After(
        id,
        env.marker(ctx),
        resp.as_ref().map(|v| *v).map_err(|e| e.detail.clone()),
    ));
    match env.after[id] {
        AfterB::Keep => {}
        AfterB::OkToErr => {
            if resp.is_ok() {
                *resp = Err(err("after", id));
            }
        }
        AfterB::ErrToOk => {
            if resp.is_err() {
                *resp = Ok(9000 + id as u32);
            }
        }
    }
}
impl AfterRequest<u32> for A {
    async fn after(&mut self, ctx: &mut context::Context, resp: &mut Result<u32, ServerError>) {
        do_after(self.0, &self.1, ctx, resp)
    }
}

/// combined hook: before-part index .0, after-part index .1
#[derive(Clone)]
struct BA(usize, usize, Rc<Env>);
impl BeforeRequest<u32> for BA {
    async fn before(&mut self, ctx: &mut context::Context, req: &u32) -> Result<(), ServerError> {
        B(self.0, self.2.clone()).before(ctx, req).await
    }
}
impl AfterRequest<u32> for BA {
    async fn after(&mut self, ctx: &mut context::Context, resp: &mut Result<u32, ServerError>) {
        do_after(self.1, &self.2, ctx, resp)
    }
}

#[derive(Clone)]
struct Handler(Rc<Env>);
impl Serve for Handler {
    type Req = u32;
    type Resp = u32;
    async fn serve(self, ctx: context::Context, req: u32) -> Result<u32, ServerError> {
        self.0.log.borrow_mut().push(Entry::Handler(self.0.marker(&ctx)));
        if self.0.handler_ok {
            Ok(req + 1)
        } else {
            Err(err("handler", 0))
        }
    }
}

/// wrapper kinds: 0 before, 1 after, 2 before_and_after, 3/4/5 list of 1/2/3 before-hooks
pub const KINDS: usize = 6;

/// (number of before parts, number of after parts) a wrapper kind consumes
fn parts(kind: u8) -> (usize, usize) {
    match kind {
        0 => (1, 0),
        1 => (0, 1),
        2 => (1, 1),
        3 => (1, 0),
        4 => (2, 0),
        _ => (3, 0),
    }
}

type Out = Option<Result<u32, ServerError>>;

fn run0<S: Serve<Req = u32, Resp = u32>>(s: S, env: &Rc<Env>) -> Out {
    let mut ctx = context::current();
    ctx.deadline = env.base;
    ctx.trace_context.trace_id = tarpc::trace::TraceId::from(0u128);
    ctx.trace_context.span_id = tarpc::trace::SpanId::from(0u64);
    ctx.trace_context.sampling_decision = tarpc::trace::SamplingDecision::Unsampled;
    let f = s.serve(ctx, 7);
    futures::pin_mut!(f);
    drive(f, 1000)
}

macro_rules! wrap_level {
    ($name:ident, $next:ident) => {
        fn $name<S: Serve<Req = u32, Resp = u32>>(s: S, kinds: &[u8], nb: usize, na: usize, env: &Rc<Env>) -> Out {
            let Some(k) = kinds.first() else { return run0(s, env) };
            let rest = &kinds[1..];
            match k {
                0 => $next(s.before(B(nb, env.clone())), rest, nb + 1, na, env),
                1 => $next(s.after(A(na, env.clone())), rest, nb, na + 1, env),
                2 => $next(s.before_and_after(BA(nb, na, env.clone())), rest, nb + 1, na + 1, env),
                3 => $next(before().then(B(nb, env.clone())).serving(s), rest, nb + 1, na, env),
                4 => $next(
                    before().then(B(nb, env.clone())).then(B(nb + 1, env.clone())).serving(s),
                    rest,
                    nb + 2,
                    na,
                    env,
                ),
                _ => $next(
                    before()
                        .then(B(nb, env.clone()))
                        .then(B(nb + 1, env.clone()))
                        .then(B(nb + 2, env.clone()))
                        .serving(s),
                    rest,
                    nb + 3,
                    na,
                    env,
                ),
            }
        }
    };
}
fn wrap_end<S: Serve<Req = u32, Resp = u32>>(s: S, _kinds: &[u8], _nb: usize, _na: usize, env: &Rc<Env>) -> Out {
    run0(s, env)
}

/// before-part `i` as a closure (tarpc implements BeforeRequest for `FnMut(&mut Context, &Req) -> Fut`):
/// the same behaviour as `B(i, env)`
fn cl(i: usize, env: Rc<Env>) -> impl FnMut(&mut context::Context, &u32) -> std::future::Ready<Result<(), ServerError>> + Clone {
    move |ctx: &mut context::Context, _req: &u32| {
        env.log.borrow_mut().push(Entry::Before(i, env.marker(ctx)));
        std::future::ready(match env.before[i] {
            BeforeB::Ok => Ok(()),
            BeforeB::Mutate => {
                env.set_marker(ctx, i);
                Ok(())
            }
            BeforeB::Fail => Err(err("before", i)),
        })
    }
}
macro_rules! wrap_level_closures {
    ($name:ident, $next:ident) => {
        fn $name<S: Serve<Req = u32, Resp = u32>>(s: S, kinds: &[u8], nb: usize, na: usize, env: &Rc<Env>) -> Out {
            let Some(k) = kinds.first() else { return run0(s, env) };
            let rest = &kinds[1..];
            match k {
                0 => $next(s.before(cl(nb, env.clone())), rest, nb + 1, na, env),
                1 => $next(s.after(A(na, env.clone())), rest, nb, na + 1, env),
                2 => $next(s.before_and_after(BA(nb, na, env.clone())), rest, nb + 1, na + 1, env),
                3 => $next(before().then(cl(nb, env.clone())).serving(s), rest, nb + 1, na, env),
                4 => $next(before().then(cl(nb, env.clone())).then(cl(nb + 1, env.clone())).serving(s), rest, nb + 2, na, env),
                _ => $next(
                    before().then(cl(nb, env.clone())).then(B(nb + 1, env.clone())).then(cl(nb + 2, env.clone())).serving(s),
                    rest,
                    nb + 3,
                    na,
                    env,
                ),
            }
        }
    };
}
wrap_level_closures!(wrapc1, wrap_end);
wrap_level_closures!(wrapc2, wrapc1);
wrap_level_closures!(wrapc3, wrapc2);
wrap_level!(wrap1, wrap_end);
wrap_level!(wrap2, wrap1);
wrap_level!(wrap3, wrap2);

include!("hooks_concrete.rs");

/// Reference interpreter. Wrappers are listed innermost first; evaluation starts at the outermost.
fn reference(kinds: &[u8], env: &Env) -> (Result<u32, String>, Vec<Entry>) {
    // assign part indices the way the builder does (innermost first)
    let mut idx = vec![];
    let (mut nb, mut na) = (0, 0);
    for k in kinds {
        idx.push((nb, na));
        let (b, a) = parts(*k);
        nb += b;
        na += a;
    }
    let mut log = vec![];
    fn marker(m: u64) -> u64 {
        m
    }
    fn go(level: isize, ctx: u64, kinds: &[u8], idx: &[(usize, usize)], env: &Env, log: &mut Vec<Entry>) -> Result<u32, String> {
        if level < 0 {
            log.push(Entry::Handler(marker(ctx)));
            return if env.handler_ok { Ok(8) } else { Err("handler0".into()) };
        }
        let l = level as usize;
        let (b0, a0) = idx[l];
        let mut ctx = ctx;
        let mut do_before = |i: usize, ctx: &mut u64, log: &mut Vec<Entry>| -> Result<(), String> {
            log.push(Entry::Before(i, *ctx));
            match env.before[i] {
                BeforeB::Ok => Ok(()),
                BeforeB::Mutate => {
                    *ctx = 1000 + i as u64;
                    Ok(())
                }
                BeforeB::Fail => Err(format!("before{i}")),
            }
        };
        let do_after = |i: usize, ctx: u64, resp: &mut Result<u32, String>, log: &mut Vec<Entry>| {
            log.push(Entry::After(i, ctx, resp.clone()));
            match env.after[i] {
                AfterB::Keep => {}
                AfterB::OkToErr => {
                    if resp.is_ok() {
                        *resp = Err(format!("after{i}"));
                    }
                }
                AfterB::ErrToOk => {
                    if resp.is_err() {
                        *resp = Ok(9000 + i as u32);
                    }
                }
            }
        };
        match kinds[l] {
            0 => {
                do_before(b0, &mut ctx, log)?;
                go(level - 1, ctx, kinds, idx, env, log)
            }
            1 => {
                let mut r = go(level - 1, ctx, kinds, idx, env, log);
                do_after(a0, ctx, &mut r, log);
                r
            }
            2 => {
                do_before(b0, &mut ctx, log)?;
                let mut r = go(level - 1, ctx, kinds, idx, env, log);
                do_after(a0, ctx, &mut r, log);
                r
            }
            k => {
                for i in 0..(k as usize - 2) {
                    do_before(b0 + i, &mut ctx, log)?;
                }
                go(level - 1, ctx, kinds, idx, env, log)
            }
        }
    }
    let r = go(kinds.len() as isize - 1, 0, kinds, &idx, env, &mut log);
    (r, log)
}

pub fn run_c19(tier: Tier) -> i32 {
    let start = Instant::now();
    let max_depth = 3;
    // all nestings
    let mut nestings: Vec<Vec<u8>> = vec![vec![]];
    let mut frontier: Vec<Vec<u8>> = vec![vec![]];
    for _ in 0..max_depth {
        let mut next = vec![];
        for n in &frontier {
            for k in 0..KINDS as u8 {
                let mut c = n.clone();
                c.push(k);
                next.push(c);
            }
        }
        nestings.extend(next.iter().cloned());
        frontier = next;
    }
    let next_job = AtomicUsize::new(0);
    let total: Mutex<(u64, HashSet<u64>, Vec<(String, String)>, u64)> = Mutex::new((0, HashSet::new(), vec![], 0));
    let samples: Mutex<Vec<String>> = Mutex::new(vec![]);
    let cap_parts = if tier == Tier::Quick { 9 } else { 9 };
    std::thread::scope(|s| {
        for _ in 0..nthreads() {
            s.spawn(|| {
                let base = Instant::now();
                let (mut evals, mut failures, mut skipped) = (0u64, vec![], 0u64);
                let mut distinct = HashSet::new();
                loop {
                    let j = next_job.fetch_add(1, Ordering::SeqCst);
                    if j >= nestings.len() {
                        break;
                    }
                    let kinds = &nestings[j];
                    let (nb, na) = kinds.iter().fold((0, 0), |(b, a), k| {
                        let (pb, pa) = parts(*k);
                        (b + pb, a + pa)
                    });
                    if nb + na > cap_parts {
                        skipped += 1;
                        continue;
                    }
                    let nbc = 3usize.pow(nb as u32);
                    let nac = 3usize.pow(na as u32);
                    for bi in 0..nbc {
                        let bs: Vec<BeforeB> = (0..nb)
                            .map(|i| [BeforeB::Ok, BeforeB::Mutate, BeforeB::Fail][(bi / 3usize.pow(i as u32)) % 3])
                            .collect();
                        for ai in 0..nac {
                            let as_: Vec<AfterB> = (0..na)
                                .map(|i| [AfterB::Keep, AfterB::OkToErr, AfterB::ErrToOk][(ai / 3usize.pow(i as u32)) % 3])
                                .collect();
                            for handler_ok in [true, false] {
                                let env = Rc::new(Env {
                                    base,
                                    before: bs.clone(),
                                    after: as_.clone(),
                                    handler_ok,
                                    log: RefCell::new(vec![]),
                                });
                              // twice: built by generic code (receiver type `S: Serve`), and - for
                              // the nestings written out in hooks_concrete.rs - chained directly on
                              // the concrete types
                              for variant in 0u8..5 {
                                let concrete_types = variant > 0 && variant < 4;
                                env.log.borrow_mut().clear();
                                ZENV.with(|e| *e.borrow_mut() = Some(env.clone()));
                                let out = std::panic::catch_unwind(std::panic::AssertUnwindSafe(|| {
                                    if concrete_types {
                                        concrete(kinds, &env, variant - 1)
                                    } else if variant == 4 {
                                        // (depth 3 only over the kinds that take a before-hook: the type
                                        // instantiations are what costs compile time)
                                        if kinds.len() == 3 && kinds.iter().any(|k| *k == 1) {
                                            None
                                        } else {
                                            Some(wrapc3(Handler(env.clone()), kinds, 0, 0, &env))
                                        }
                                    } else {
                                        Some(wrap3(Handler(env.clone()), kinds, 0, 0, &env))
                                    }
                                }));
                                let out = match out {
                                    Ok(None) => continue,
                                    Ok(Some(o)) => Ok(o),
                                    Err(e) => Err(e),
                                };
                                evals += 1;
                                {
                                    use std::hash::{Hash, Hasher};
                                    let mut h = std::collections::hash_map::DefaultHasher::new();
                                    (kinds, &bs, &as_, handler_ok, variant).hash(&mut h);
                                    distinct.insert(h.finish());
                                }
                                let label = format!("nesting (innermost first) {kinds:?}{} before-parts {bs:?} after-parts {as_:?} handler_ok={handler_ok}", match variant { 0 => "", 1 => " chained on the concrete types", 2 => " chained on the concrete types, list hooks after the first zero-sized", 3 => " chained on the concrete types, before-hooks zero-sized", _ => " with closures as before-hooks" });
                                let got = match out {
                                    Err(_) => {
                                        failures.push(("C19-panic".to_string(), format!("{label}: {}", crate::mock::take_panic())));
                                        continue;
                                    }
                                    Ok(None) => {
                                        failures.push(("C19-stuck".to_string(), label));
                                        continue;
                                    }
                                    Ok(Some(r)) => r.map_err(|e| e.detail),
                                };
                                let (want, want_log) = reference(kinds, &env);
                                let got_log = env.log.borrow().clone();
                                if evals % 40_009 == 1 {
                                    let mut sm = samples.lock().unwrap();
                                    if sm.len() < 6 {
                                        sm.push(format!("{label}: invoked {got_log:?} -> {got:?}"));
                                    }
                                }
                                if got_log != want_log {
                                    let sig = if got_log.iter().filter(|e| matches!(e, Entry::Handler(_))).count()
                                        != want_log.iter().filter(|e| matches!(e, Entry::Handler(_))).count()
                                    {
                                        "C19-handler-invocation"
                                    } else {
                                        "C19-hook-order"
                                    };
                                    if failures.len() < 100 {
                                        failures.push((sig.to_string(), format!("{label}:\n  invoked  {got_log:?}\n  expected {want_log:?}")));
                                    }
                                } else if got != want && failures.len() < 100 {
                                    failures.push(("C19-result".to_string(), format!("{label}: result {got:?}, expected {want:?}")));
                                }
                              }
                            }
                        }
                    }
                }
                let mut t = total.lock().unwrap();
                t.0 += evals;
                t.1.extend(distinct);
                t.2.extend(failures);
                t.3 += skipped;
            });
        }
    });
    let (mut evals, mut distinct, mut failures, skipped) = total.into_inner().unwrap();
    // Once more, serially, under an OpenTelemetry layer and inside a span (the way `execute` runs a
    // service): nestings of depth <= 2, every assignment of the before-parts. The hooks own the
    // context; whatever tracing is installed does not rewrite what they left in it (seeded change
    // C19l re-read the trace context from the span after a hook had changed it).
    crate::c16::with_regime(crate::c16::Regime::Otel, || {
        tracing::callsite::rebuild_interest_cache();
        let base = Instant::now();
        let span = tracing::info_span!("RPC");
        for kinds in nestings.iter().filter(|k| k.len() <= 2) {
            let (nb, na) = kinds.iter().fold((0, 0), |(b, a), k| {
                let (pb, pa) = parts(*k);
                (b + pb, a + pa)
            });
            for bi in 0..3usize.pow(nb as u32) {
                let bs: Vec<BeforeB> = (0..nb).map(|i| [BeforeB::Ok, BeforeB::Mutate, BeforeB::Fail][(bi / 3usize.pow(i as u32)) % 3]).collect();
                let env = Rc::new(Env { base, before: bs.clone(), after: vec![AfterB::Keep; na], handler_ok: true, log: RefCell::new(vec![]) });
                ZENV.with(|e| *e.borrow_mut() = Some(env.clone()));
                let out = std::panic::catch_unwind(std::panic::AssertUnwindSafe(|| span.in_scope(|| wrap3(Handler(env.clone()), kinds, 0, 0, &env))));
                evals += 1;
                {
                    use std::hash::{Hash, Hasher};
                    let mut h = std::collections::hash_map::DefaultHasher::new();
                    (kinds, &bs, "otel").hash(&mut h);
                    distinct.insert(h.finish());
                }
                let label = format!("nesting (innermost first) {kinds:?} under an OpenTelemetry layer inside a span, before-parts {bs:?}");
                let (want, want_log) = reference(kinds, &env);
                match out {
                    Err(_) => failures.push(("C19-panic".to_string(), format!("{label}: {}", crate::mock::take_panic()))),
                    Ok(None) => failures.push(("C19-stuck".to_string(), label)),
                    Ok(Some(r)) => {
                        let got = r.map_err(|e| e.detail);
                        let got_log = env.log.borrow().clone();
                        if got_log != want_log && failures.len() < 100 {
                            failures.push(("C19-hook-order".to_string(), format!("{label}:\n  invoked  {got_log:?}\n  expected {want_log:?}")));
                        } else if got != want && failures.len() < 100 {
                            failures.push(("C19-result".to_string(), format!("{label}: result {got:?}, expected {want:?}")));
                        }
                    }
                }
            }
        }
    });
    // End to end: the hooked service run by a real server channel (`execute`) and called by a real
    // client over the in-memory transport - what the caller receives IS the error the failing
    // before-hook produced / the result the after-hook left, whatever its kind and however long its
    // detail (seeded change C19n shortened details over 1024 bytes on the way out of `execute`).
    {
        use futures::StreamExt;
        use tarpc::server::{BaseChannel, Channel};
        let rt = tokio::runtime::Builder::new_current_thread().enable_time().build().unwrap();
        for len in [0usize, 1, 1023, 1024, 1025, 4096, 70_000] {
            for stage in 0..3u8 {
                evals += 1;
                {
                    use std::hash::{Hash, Hasher};
                    let mut h = std::collections::hash_map::DefaultHasher::new();
                    ("e2e", len, stage).hash(&mut h);
                    distinct.insert(h.finish());
                }
                let detail: String = "x".repeat(len);
                let kind = [std::io::ErrorKind::PermissionDenied, std::io::ErrorKind::InvalidData, std::io::ErrorKind::Other][stage as usize];
                let d2 = detail.clone();
                let got = std::panic::catch_unwind(std::panic::AssertUnwindSafe(|| {
                    rt.block_on(async {
                        let (ct, st) = tarpc::transport::channel::unbounded();
                        let d_before = d2.clone();
                        let d_after = d2.clone();
                        let d_handler = d2.clone();
                        let serve = tarpc::server::serve(move |_, x: u32| {
                            let d = d_handler.clone();
                            async move {
                                if stage == 2 {
                                    Err(ServerError::new(kind, d))
                                } else {
                                    Ok(x)
                                }
                            }
                        })
                        .before(move |_: &mut context::Context, _: &u32| {
                            let d = d_before.clone();
                            async move {
                                if stage == 0 {
                                    Err(ServerError::new(kind, d))
                                } else {
                                    Ok(())
                                }
                            }
                        })
                        .after(move |_: &mut context::Context, r: &mut Result<u32, ServerError>| {
                            if stage == 1 {
                                *r = Err(ServerError::new(kind, d_after.clone()));
                            }
                            std::future::ready(())
                        });
                        let server = tokio::spawn(BaseChannel::with_defaults(st).execute(serve).for_each(|h| async move {
                            tokio::spawn(h);
                        }));
                        let client = tarpc::client::new::<u32, u32, _>(tarpc::client::Config::default(), ct).spawn();
                        let r = client.call(context::current(), 7).await;
                        server.abort();
                        r
                    })
                }));
                let who = ["a before-hook refuses", "an after-hook rewrites the result to an error", "the handler fails"][stage as usize];
                match got {
                    Err(_) => failures.push(("C19-panic".to_string(), format!("end to end, {who} with a detail of {len} bytes: {}", crate::mock::take_panic()))),
                    Ok(Err(tarpc::client::RpcError::Server(e))) if e.kind == kind && e.detail == detail => {}
                    Ok(other) => {
                        let shown = match &other {
                            Err(tarpc::client::RpcError::Server(e)) => format!("ServerError {{ kind: {:?}, detail: {} bytes }}", e.kind, e.detail.len()),
                            o => format!("{:?}", o.as_ref().map_err(|e| e.to_string())),
                        };
                        failures.push(("C19-response-differs".to_string(), format!("end to end through execute + a real client, {who} with kind {kind:?} and a detail of {len} bytes: the caller received {shown}")));
                    }
                }
            }
        }
    }
    finish_grid(
        "C19",
        tier,
        start,
        evals,
        distinct.len() as u64,
        &failures,
        json!({"nestings": nestings.len(), "nestings_skipped_over_part_cap": skipped, "part_cap": cap_parts}),
        "every nesting of <=3 wrappers from {before(h), after(h), before_and_after(h), before().then(h1)[.then(h2)[.then(h3)]].serving(s)} around a recording handler (259 type instantiations built by generic code, and 106 of them - all nestings of depth <= 2, depth 3 over four wrapper kinds - also chained directly on the concrete types, so that method resolution is the one application code gets, plus variants of those in which the before-hooks (all of them, or all but the first of a list) are zero-sized values, plus every nesting once more with closures as before-hooks; what a hook leaves in the context is written into the deadline, the trace id, the span id and the sampling decision together; nestings of depth <= 2 once more under an OpenTelemetry layer inside a span; end to end (execute on a real channel + a real client over the in-memory transport) a refusing before-hook / a rewriting after-hook / a failing handler with error details of 0..70 000 bytes; no dynamic dispatch over tarpc types); for each nesting every assignment of behaviours: each before-part in {ok, ok+mutate ctx, fail}, each after-part in {keep, Ok->Err, Err->Ok}, handler in {Ok, Err}; nestings whose parts exceed the cap are listed as skipped; exact equality of the invocation log (who ran, order, context marker seen, result seen) and of the final Result with a reference interpreter",
        samples.into_inner().unwrap().into_iter().map(|c| json!({"case": c})).collect(),
    )
}
