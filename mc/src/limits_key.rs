//! C13: breadth-first search over event histories of the real `MaxChannelsPerKey`
//! (`Incoming::max_channels_per_key`) over a scripted listener. A state is the history reaching
//! it, rebuilt by replay on fresh objects; no state merging. Oracle: a per-key counter.

use crate::driver::*;
use crate::explore::nthreads;
use futures::{Sink, Stream};
use serde_json::json;
use std::cell::RefCell;
use std::collections::{HashSet, VecDeque};
use std::hash::{Hash, Hasher};
use std::pin::Pin;
use std::rc::Rc;
use std::sync::atomic::{AtomicUsize, Ordering};
use std::sync::Mutex;
use std::task::{Context, Poll};
use std::time::Instant;
use tarpc::server::incoming::Incoming;
use tarpc::server::BaseChannel;
use tarpc::{ClientMessage, Response};

#[derive(Clone, Copy, Debug, PartialEq, Eq, Hash, serde::Serialize, serde::Deserialize)]
pub enum Ev {
    Arrive(u8),
    Poll,
    Close(u8),
    /// close channel i; when its tracker's count hits zero, run one listener poll at the yield
    /// point inside the tracker's drop (count already zero, key not yet sent)
    CloseNested(u8),
    /// the peer of held channel i hangs up: the application polls the channel once and sees its
    /// request stream end, but keeps the channel (it still counts until it is dropped)
    HangUp(u8),
    /// close channel i, whose transport takes a moment to destroy: one listener poll runs inside
    /// the transport's destructor. Until that destructor has returned the connection exists (the
    /// socket is open, the buffers are allocated): it is alive, and holds its slot.
    CloseSlow(u8),
    /// one poll of the limited stream during which another thread closes held channel i right
    /// before the listener hands over its second arrival of that poll
    PollClosing(u8),
}

thread_local! {
    /// (seq, hook): run once inside the destructor of transport `seq`, before it counts as gone
    static DROP_HOOK: RefCell<Option<(u32, Rc<dyn Fn()>)>> = const { RefCell::new(None) };
}

#[derive(Default)]
struct Obs {
    /// log of observable events
    log: Vec<String>,
    dequeued: Vec<u32>,
    dropped: Vec<u32>,
    /// (seq, channels with that key alive at the moment it was taken from the listener)
    deq_alive: Vec<(u32, u32)>,
}

/// The key type the limiter sees: equality distinguishes the keys, the hash does not (every
/// key hashes alike). A map keyed by such keys is still a correct map; a limiter that
/// identifies keys by their hash is not (seeded change C13d).
#[derive(Clone, Copy, Debug, PartialEq, Eq)]
pub struct CKey(pub u8);
impl Hash for CKey {
    fn hash<H: Hasher>(&self, state: &mut H) {
        0u8.hash(state);
    }
}
impl std::fmt::Display for CKey {
    fn fmt(&self, f: &mut std::fmt::Formatter<'_>) -> std::fmt::Result {
        write!(f, "{}", self.0)
    }
}

struct KeyedTransport {
    key: u8,
    seq: u32,
    obs: Rc<RefCell<Obs>>,
    hung: Rc<std::cell::Cell<bool>>,
}
impl Drop for KeyedTransport {
    fn drop(&mut self) {
        let hook = DROP_HOOK.with(|h| {
            let mut h = h.borrow_mut();
            if matches!(&*h, Some((s, _)) if *s == self.seq) {
                h.take().map(|x| x.1)
            } else {
                None
            }
        });
        if let Some(f) = hook {
            f();
        }
        self.obs.borrow_mut().dropped.push(self.seq);
    }
}
impl Stream for KeyedTransport {
    type Item = Result<ClientMessage<u32>, std::io::Error>;
    fn poll_next(self: Pin<&mut Self>, _: &mut Context<'_>) -> Poll<Option<Self::Item>> {
        if self.hung.get() {
            Poll::Ready(None)
        } else {
            Poll::Pending
        }
    }
}
impl Sink<Response<u32>> for KeyedTransport {
    type Error = std::io::Error;
    fn poll_ready(self: Pin<&mut Self>, _: &mut Context<'_>) -> Poll<Result<(), Self::Error>> {
        Poll::Ready(Ok(()))
    }
    fn start_send(self: Pin<&mut Self>, _: Response<u32>) -> Result<(), Self::Error> {
        Ok(())
    }
    fn poll_flush(self: Pin<&mut Self>, _: &mut Context<'_>) -> Poll<Result<(), Self::Error>> {
        Poll::Ready(Ok(()))
    }
    fn poll_close(self: Pin<&mut Self>, _: &mut Context<'_>) -> Poll<Result<(), Self::Error>> {
        Poll::Ready(Ok(()))
    }
}

type Chan = BaseChannel<u32, u32, KeyedTransport>;

struct Listener {
    q: Rc<RefCell<VecDeque<Chan>>>,
    obs: Rc<RefCell<Obs>>,
    /// the model's alive set (seq, key), read at the moment an arrival is handed over
    alive: Rc<RefCell<Vec<(u32, u8)>>>,
    /// how often the listener has been asked within the current poll of the limited stream
    asked: Rc<std::cell::Cell<u32>>,
    /// runs once, right before the listener answers the second time within one poll (another
    /// thread closing a channel while the limiter is draining the listener)
    between: Rc<RefCell<Option<Rc<dyn Fn()>>>>,
}
impl Stream for Listener {
    type Item = Chan;
    fn poll_next(self: Pin<&mut Self>, _: &mut Context<'_>) -> Poll<Option<Chan>> {
        self.asked.set(self.asked.get() + 1);
        if self.asked.get() == 2 {
            let f = self.between.borrow_mut().take();
            if let Some(f) = f {
                f();
            }
        }
        let popped = self.q.borrow_mut().pop_front();
        match popped {
            Some(c) => {
                let (seq, key) = (c.get_ref().seq, c.get_ref().key);
                let cnt = self.alive.borrow().iter().filter(|(_, k)| *k == key).count() as u32;
                let mut o = self.obs.borrow_mut();
                o.dequeued.push(seq);
                o.deq_alive.push((seq, cnt));
                Poll::Ready(Some(c))
            }
            None => Poll::Pending,
        }
    }
}

pub struct Outcome {
    pub violation: Option<String>,
    /// the last event was a CloseNested whose hook did not fire (equivalent to Close): prune
    pub redundant: bool,
    pub enabled: Vec<Ev>,
    pub fingerprint: u64,
    pub log: Vec<String>,
    pub nontrivial: bool,
}

/// Replays a history; a panic of the subject is a verdict about that history, not a crash of the
/// checker.
pub fn replay(n: u32, hist: &[Ev]) -> Outcome {
    match std::panic::catch_unwind(|| replay_inner(n, hist)) {
        Ok(o) => o,
        Err(_) => {
            tarpc::verif::set_yield_hook(None);
            let p = crate::mock::take_panic();
            Outcome {
                violation: Some(format!("C13-panic|the limiter panicked: {p}")),
                redundant: false,
                enabled: vec![],
                fingerprint: 0,
                log: vec![format!("PANIC {p}")],
                nontrivial: false,
            }
        }
    }
}

fn replay_inner(n: u32, hist: &[Ev]) -> Outcome {
    use tarpc::server::Channel;
    let obs = Rc::new(RefCell::new(Obs::default()));
    let q: Rc<RefCell<VecDeque<Chan>>> = Rc::new(RefCell::new(VecDeque::new()));
    // the model: keys of alive yielded channels
    let alive: Rc<RefCell<Vec<(u32, u8)>>> = Rc::new(RefCell::new(Vec::new()));
    let asked = Rc::new(std::cell::Cell::new(0u32));
    let between: Rc<RefCell<Option<Rc<dyn Fn()>>>> = Rc::new(RefCell::new(None));
    let listener = Listener {
        q: q.clone(),
        obs: obs.clone(),
        alive: alive.clone(),
        asked: asked.clone(),
        between: between.clone(),
    };
    let filter = listener.max_channels_per_key(n, |c: &Chan| CKey(c.transport().key));
    let filter = Rc::new(RefCell::new(Box::pin(filter)));
    // yielded channels held by the application: (seq, key, channel)
    type HeldChan = (Pin<Box<dyn Stream<Item = ()>>>, Rc<std::cell::Cell<bool>>, bool);
    type Held = Vec<Option<(u32, u8, HeldChan)>>;
    let held: Rc<RefCell<Held>> = Rc::new(RefCell::new(Vec::new()));
    let mut next_seq = 0u32;
    let mut violation: Option<String> = None;
    let mut redundant = false;
    let mut nontrivial = false;
    // keys of queued arrivals by seq
    let keys: Rc<RefCell<Vec<u8>>> = Rc::new(RefCell::new(Vec::new()));

    // one poll of the limited stream + oracle
    let do_poll = {
        let asked = asked.clone();
        let obs = obs.clone();
        let filter = filter.clone();
        let held = held.clone();
        let alive = alive.clone();
        let keys = keys.clone();
        move |n: u32| -> Option<String> {
            let waker = futures::task::noop_waker();
            let mut cx = Context::from_waker(&waker);
            let d0 = obs.borrow().dequeued.len();
            asked.set(0);
            let r = filter.borrow_mut().as_mut().poll_next(&mut cx);
            let deq: Vec<u32> = obs.borrow().dequeued[d0..].to_vec();
            let yielded_seq = match &r {
                Poll::Ready(Some(tc)) => Some(tc.get_ref().get_ref().seq),
                _ => None,
            };
            let mut verdict = None;
            for s in &deq {
                let k = keys.borrow()[*s as usize];
                // (counted when the listener handed it over: a channel may be closed by another
                // thread while the limiter is still draining the listener in the same poll)
                let cnt = obs.borrow().deq_alive.iter().rev().find(|(q, _)| q == s).map(|x| x.1).unwrap_or_else(|| alive.borrow().iter().filter(|(_, ak)| *ak == k).count() as u32);
                let should_admit = cnt < n;
                let admitted = yielded_seq == Some(*s);
                let shed = obs.borrow().dropped.contains(s);
                obs.borrow_mut().log.push(format!(
                    "  dequeued #{s} key {k}: alive({k})={cnt} n={n} -> {}",
                    if admitted { "admitted" } else if shed { "shed" } else { "?" }
                ));
                if should_admit && !admitted {
                    verdict = Some(format!("C13-shed-below-limit|channel #{s} with key {k} was shed although only {cnt} channels with that key were alive (n={n})"));
                }
                if !should_admit && admitted {
                    verdict = Some(format!("C13-over-limit|channel #{s} with key {k} was admitted although {cnt} channels with that key were alive (n={n})"));
                }
                if admitted {
                    alive.borrow_mut().push((*s, k));
                }
            }
            match r {
                Poll::Ready(Some(tc)) => {
                    let seq = tc.get_ref().get_ref().seq;
                    let k = tc.get_ref().get_ref().key;
                    let hung = tc.get_ref().get_ref().hung.clone();
                    use futures::StreamExt;
                    let boxed: Pin<Box<dyn Stream<Item = ()>>> = Box::pin(tc.map(|_| ()));
                    held.borrow_mut().push(Some((seq, k, (boxed, hung, false))));
                }
                Poll::Ready(None) => {
                    verdict = Some("C13-ended|the limited stream ended although the listener did not".into());
                }
                Poll::Pending => {}
            }
            verdict
        }
    };

    for (step, ev) in hist.iter().enumerate() {
        let last = step + 1 == hist.len();
        obs.borrow_mut().log.push(format!("{ev:?}"));
        match *ev {
            Ev::Arrive(k) => {
                let t = KeyedTransport {
                    key: k,
                    seq: next_seq,
                    obs: obs.clone(),
                    hung: Rc::new(std::cell::Cell::new(false)),
                };
                keys.borrow_mut().push(k);
                next_seq += 1;
                q.borrow_mut().push_back(BaseChannel::with_defaults(t));
            }
            Ev::Poll => {
                if let Some(v) = do_poll(n) {
                    violation.get_or_insert(v);
                }
            }
            Ev::HangUp(i) => {
                let mut h = held.borrow_mut();
                let Some(Some((_, _, (stream, hung, done)))) = h.get_mut(i as usize) else {
                    violation.get_or_insert("machinery|hang-up of a channel that is not held".into());
                    break;
                };
                hung.set(true);
                *done = true;
                let waker = futures::task::noop_waker();
                let mut cx = Context::from_waker(&waker);
                let r = stream.as_mut().poll_next(&mut cx);
                obs.borrow_mut().log.push(format!("  held channel polled after its peer hung up -> {}", match r { Poll::Ready(None) => "ended", Poll::Ready(Some(())) => "item", Poll::Pending => "pending" }));
            }
            Ev::PollClosing(i) => {
                let fired = Rc::new(std::cell::Cell::new(false));
                {
                    let (held2, alive2, fired2, obs2) = (held.clone(), alive.clone(), fired.clone(), obs.clone());
                    *between.borrow_mut() = Some(Rc::new(move || {
                        let item = held2.borrow_mut().get_mut(i as usize).and_then(|x| x.take());
                        if let Some((seq, _k, ch)) = item {
                            fired2.set(true);
                            obs2.borrow_mut().log.push(format!("  [another thread closes #{seq} while the limiter drains the listener]"));
                            alive2.borrow_mut().retain(|(s, _)| *s != seq);
                            drop(ch);
                        }
                    }));
                }
                let v = do_poll(n);
                *between.borrow_mut() = None;
                if let Some(v) = v {
                    violation.get_or_insert(v);
                }
                if !fired.get() {
                    // the listener was asked only once: the same as a plain Poll
                    if last {
                        redundant = true;
                    }
                } else {
                    nontrivial = true;
                }
            }
            Ev::CloseSlow(i) => {
                let item = held.borrow_mut()[i as usize].take();
                let Some((seq, _k, ch)) = item else {
                    violation.get_or_insert("machinery|close of a channel that is not held".into());
                    break;
                };
                let fired = Rc::new(RefCell::new(false));
                let nv: Rc<RefCell<Option<String>>> = Rc::new(RefCell::new(None));
                {
                    let (fired, nv, dp, obs2) = (fired.clone(), nv.clone(), do_poll.clone(), obs.clone());
                    DROP_HOOK.with(|h| {
                        *h.borrow_mut() = Some((
                            seq,
                            Rc::new(move || {
                                *fired.borrow_mut() = true;
                                obs2.borrow_mut().log.push("  [inside the transport's destructor: the connection still exists] nested Poll".into());
                                if let Some(v) = dp(n) {
                                    nv.borrow_mut().get_or_insert(v);
                                }
                            }),
                        ))
                    });
                }
                drop(ch);
                DROP_HOOK.with(|h| *h.borrow_mut() = None);
                // only now has the channel gone
                alive.borrow_mut().retain(|(s, _)| *s != seq);
                if !*fired.borrow() {
                    violation.get_or_insert("machinery|the transport's destructor did not run when the channel was dropped".into());
                } else {
                    nontrivial = true;
                }
                let v = nv.borrow_mut().take();
                if let Some(v) = v {
                    violation.get_or_insert(v);
                }
            }
            Ev::Close(i) | Ev::CloseNested(i) => {
                let nested = matches!(ev, Ev::CloseNested(_));
                let item = held.borrow_mut()[i as usize].take();
                let Some((seq, _k, ch)) = item else {
                    violation.get_or_insert("machinery|close of a channel that is not held".into());
                    break;
                };
                // the channel stops being alive when the application lets go of it
                alive.borrow_mut().retain(|(s, _)| *s != seq);
                let fired = Rc::new(RefCell::new(false));
                let nested_verdict: Rc<RefCell<Option<String>>> = Rc::new(RefCell::new(None));
                if nested {
                    let fired2 = fired.clone();
                    let nv = nested_verdict.clone();
                    let dp = do_poll.clone();
                    let obs2 = obs.clone();
                    tarpc::verif::set_yield_hook(Some(Rc::new(move |label: &'static str| {
                        if label == "tracker_drop:before_send" && !*fired2.borrow() {
                            *fired2.borrow_mut() = true;
                            obs2.borrow_mut().log.push("  [tracker count is 0, key not yet sent] nested Poll".into());
                            if let Some(v) = dp(n) {
                                nv.borrow_mut().get_or_insert(v);
                            }
                        }
                    })));
                }
                drop(ch);
                if nested {
                    tarpc::verif::set_yield_hook(None);
                    if !*fired.borrow() {
                        if last {
                            redundant = true;
                        }
                    } else {
                        nontrivial = true;
                    }
                    if let Some(v) = nested_verdict.borrow_mut().take() {
                        violation.get_or_insert(v);
                    }
                }
            }
        }
        if violation.is_some() {
            break;
        }
    }
    // enabled events afterwards
    let mut enabled = vec![Ev::Arrive(0), Ev::Arrive(1), Ev::Poll];
    for (i, h) in held.borrow().iter().enumerate() {
        if let Some((_, _, (_, _, done))) = h {
            enabled.push(Ev::Close(i as u8));
            enabled.push(Ev::CloseNested(i as u8));
            enabled.push(Ev::CloseSlow(i as u8));
            enabled.push(Ev::PollClosing(i as u8));
            if !*done {
                enabled.push(Ev::HangUp(i as u8));
            }
        }
    }
    let mut hsh = std::collections::hash_map::DefaultHasher::new();
    {
        let a = alive.borrow();
        let mut ks: Vec<u8> = a.iter().map(|x| x.1).collect();
        ks.sort();
        ks.hash(&mut hsh);
        let pend: Vec<u8> = q.borrow().iter().map(|c| c.get_ref().key).collect();
        pend.hash(&mut hsh);
        obs.borrow().dropped.len().hash(&mut hsh);
    }
    // a close and a same-key arrival pending at one poll
    if hist.windows(2).any(|w| matches!((w[0], w[1]), (Ev::Close(_), Ev::Poll) | (Ev::Arrive(_), Ev::Close(_)))) {
        nontrivial = true;
    }
    // teardown: drop held channels, then the filter (trackers may send into a dropped receiver)
    held.borrow_mut().clear();
    let log = obs.borrow().log.clone();
    Outcome {
        violation,
        redundant,
        enabled,
        fingerprint: hsh.finish(),
        log,
        nontrivial,
    }
}

pub fn run_c13(tier: Tier) -> i32 {
    let start = Instant::now();
    let depth = if tier == Tier::Quick { 8 } else { 10 };
    let cap = std::time::Duration::from_secs(if tier == Tier::Quick { 50 } else { 1500 });
    let known = load_known("C13");
    let mut total_hist = 0u64;
    let mut total_steps = 0u64;
    let mut states: HashSet<u64> = HashSet::new();
    let mut nontrivial = 0u64;
    let mut found: std::collections::BTreeMap<String, (u32, Vec<Ev>, String)> = Default::default();
    let mut levels_doc = vec![];
    let mut completed_depth = [0usize; 3];
    let mut samples = vec![];
    let mut cut = false;
    // n = 1, 2 to the full depth; the largest limit ("no limit" in practice) to depth - 3
    for (ni, n) in [1u32, 2, u32::MAX].iter().enumerate() {
        let depth = if *n == u32::MAX { depth - 3 } else { depth };
        let mut frontier: Vec<Vec<Ev>> = vec![vec![]];
        for d in 0..=depth {
            if start.elapsed() > cap {
                cut = true;
                break;
            }
            // expand frontier in parallel
            let next_idx = AtomicUsize::new(0);
            let results: Mutex<(Vec<Vec<Ev>>, u64, u64, HashSet<u64>, u64, Vec<(Vec<Ev>, String)>)> =
                Mutex::new((vec![], 0, 0, HashSet::new(), 0, vec![]));
            let fr = &frontier;
            std::thread::scope(|s| {
                for _ in 0..nthreads() {
                    s.spawn(|| {
                        let mut children = vec![];
                        let (mut nh, mut ns, mut nn) = (0u64, 0u64, 0u64);
                        let mut st = HashSet::new();
                        let mut viol = vec![];
                        loop {
                            let i = next_idx.fetch_add(64, Ordering::SeqCst);
                            if i >= fr.len() {
                                break;
                            }
                            for h in &fr[i..(i + 64).min(fr.len())] {
                                let o = replay(*n, h);
                                if o.redundant {
                                    continue;
                                }
                                nh += 1;
                                ns += h.len() as u64;
                                st.insert(o.fingerprint);
                                if o.nontrivial {
                                    nn += 1;
                                }
                                if let Some(v) = o.violation {
                                    viol.push((h.clone(), v));
                                    continue; // do not extend violating histories
                                }
                                if h.len() < depth {
                                    for e in o.enabled {
                                        let mut c = h.clone();
                                        c.push(e);
                                        children.push(c);
                                    }
                                }
                            }
                        }
                        let mut r = results.lock().unwrap();
                        r.0.extend(children);
                        r.1 += nh;
                        r.2 += ns;
                        r.3.extend(st);
                        r.4 += nn;
                        r.5.extend(viol);
                    });
                }
            });
            let (children, nh, ns, st, nn, viol) = results.into_inner().unwrap();
            total_hist += nh;
            total_steps += ns;
            states.extend(st);
            nontrivial += nn;
            levels_doc.push(json!({"n": n, "depth": d, "histories": nh, "violating": viol.len()}));
            for (h, v) in viol {
                let (sig, msg) = v.split_once('|').unwrap();
                let e = found.get(sig);
                if e.map(|e| e.1.len() > h.len()).unwrap_or(true) {
                    found.insert(sig.to_string(), (*n, h, msg.to_string()));
                }
            }
            completed_depth[ni] = d;
            frontier = children;
            frontier.sort_by(|a, b| format!("{a:?}").cmp(&format!("{b:?}")));
            if frontier.is_empty() {
                break;
            }
        }
        // a sample: the deepest history of the last level explored
        let sample_hist = vec![Ev::Arrive(0), Ev::Arrive(0), Ev::Poll, Ev::Poll, Ev::Arrive(0), Ev::CloseNested(0), Ev::Poll];
        let o = replay(*n, &sample_hist);
        samples.push(json!({"n": n, "history": sample_hist, "log": o.log}));
    }
    let mut nviol = 0;
    let mut known_seen = vec![];
    let mut machinery = vec![];
    for (sig, (n, h, msg)) in &found {
        if sig == "machinery" {
            machinery.push(msg.clone());
            continue;
        }
        // replay twice
        let a = replay(*n, h);
        let b = replay(*n, h);
        if a.log != b.log || a.violation.is_none() {
            machinery.push(format!("violation {sig} did not replay"));
            continue;
        }
        let dir = verif_dir().join("replays").join("C13");
        let _ = std::fs::create_dir_all(&dir);
        let path = dir.join(format!("{}-n{n}.json", sig));
        let doc = json!({"property": "C13", "harness": "limits_key", "signature": sig, "message": msg, "n": n, "history": h, "log": a.log});
        std::fs::write(&path, serde_json::to_string_pretty(&doc).unwrap()).unwrap();
        if let Some(k) = known.iter().find(|k| &k.signature == sig) {
            println!("KNOWN-FINDING: property=C13 {}", k.what);
            known_seen.push(sig.clone());
        } else {
            println!("VIOLATION property=C13 replay={}", path.display());
            eprintln!("  {sig}: n={n} {h:?}: {msg}");
            nviol += 1;
        }
    }
    // end to end through spawn_incoming (real tokio tasks)
    let mut spawned_cases = 0u32;
    for n in [1u32, 2, 3] {
        spawned_cases += 1;
        let r = std::panic::catch_unwind(|| spawned_reset_case(n));
        let msg = match r {
            Ok(None) => continue,
            Ok(Some(m)) => m,
            Err(_) => format!("n={n}: panic: {}", crate::mock::take_panic()),
        };
        let dir = verif_dir().join("replays").join("C13");
        let _ = std::fs::create_dir_all(&dir);
        let path = dir.join(format!("C13-shed-below-limit-spawned-n{n}.json"));
        let doc = json!({"property": "C13", "harness": "limits_key/spawned", "signature": "C13-shed-below-limit", "message": msg, "n": n, "history": []});
        std::fs::write(&path, serde_json::to_string_pretty(&doc).unwrap()).unwrap();
        println!("VIOLATION property=C13 replay={}", path.display());
        eprintln!("  C13-shed-below-limit: {msg}");
        nviol += 1;
        break;
    }
    // a key table that grows large and shrinks (sizes around the capacities at which the table is
    // compacted), few survivors
    let mut many_cases = 0u32;
    'many: for keys in [10u32, 100, 895, 1000, 1793, 2000, 4000] {
        for survivors in [1u32, 10] {
            many_cases += 1;
            let r = std::panic::catch_unwind(|| many_keys_case(keys, survivors));
            let msg = match r {
                Ok(None) => continue,
                Ok(Some(m)) => m,
                Err(_) => format!("C13-panic|{keys} keys, {survivors} survivors: panic: {}", crate::mock::take_panic()),
            };
            let (sig, text) = msg.split_once('|').map(|(a, b)| (a.to_string(), b.to_string())).unwrap_or(("C13-many-keys".into(), msg.clone()));
            let dir = verif_dir().join("replays").join("C13");
            let _ = std::fs::create_dir_all(&dir);
            let path = dir.join(format!("{sig}-many-keys-{keys}-{survivors}.json"));
            let doc = json!({"property": "C13", "harness": "limits_key/many-keys", "signature": sig, "message": text, "n": 1, "keys": keys, "survivors": survivors, "history": []});
            std::fs::write(&path, serde_json::to_string_pretty(&doc).unwrap()).unwrap();
            println!("VIOLATION property=C13 replay={}", path.display());
            eprintln!("  {sig}: {text}");
            nviol += 1;
            break 'many;
        }
    }
    // revivals of one key under a backlog of other keys' close notices
    let mut revival_cases = 0u32;
    'rev: for backlog in 0..=4u32 {
        for revivals in 1..=4u32 {
            for idle in [0u32, 1, 2, 8] {
                revival_cases += 1;
                let r = std::panic::catch_unwind(|| revival_backlog_case(backlog, revivals, idle));
                let msg = match r {
                    Ok(None) => continue,
                    Ok(Some(m)) => m,
                    Err(_) => format!("C13-panic|backlog {backlog}, {revivals} revivals, {idle} idle polls: panic: {}", crate::mock::take_panic()),
                };
                let (sig, text) = msg.split_once('|').map(|(a, b)| (a.to_string(), b.to_string())).unwrap_or(("C13-revival".into(), msg.clone()));
                let dir = verif_dir().join("replays").join("C13");
                let _ = std::fs::create_dir_all(&dir);
                let path = dir.join(format!("{sig}-revival-{backlog}-{revivals}-{idle}.json"));
                let doc = json!({"property": "C13", "harness": "limits_key/revival-backlog", "signature": sig, "message": text, "n": 1, "backlog": backlog, "revivals": revivals, "idle": idle, "history": []});
                std::fs::write(&path, serde_json::to_string_pretty(&doc).unwrap()).unwrap();
                println!("VIOLATION property=C13 replay={}", path.display());
                eprintln!("  {sig}: {text}");
                nviol += 1;
                break 'rev;
            }
        }
    }
    let ev = json!({
        "property_id": "C13", "tier": tier.name(), "seed": seed(), "level": "model_checking",
        "coverage": {
            "states": states.len(),
            "histories": total_hist,
            "transitions": total_steps,
            "traces_validated_against_impl": total_hist,
            "evaluations": total_hist,
            "distinct_nontrivial": nontrivial,
            "rule": "breadth-first over ALL event histories up to the depth (alphabet: Arrive(key a), Arrive(key b) - two keys that are unequal but hash alike -, Poll of the limited stream, Close(i) of a held channel, CloseSlow(i) = close of a channel whose transport runs one listener poll inside its destructor (until the destructor returns the channel is alive), PollClosing(i) = a poll during which another thread closes held channel i right before the listener hands over its second arrival, CloseNested(i) = close with one listener poll at the yield point inside the tracker's drop, HangUp(i) = the peer of held channel i ends its stream and the application polls the channel once without dropping it); every history is replayed from scratch on a fresh real MaxChannelsPerKey and compared with a per-key counter at every dequeue; `states` counts distinct (alive multiset, pending arrivals, shed count) fingerprints, no merging is used to prune; non-trivial = a close adjacent to a poll/arrival or a nested poll that fired",
            "samples": samples,
            "exhaustive": !cut && machinery.is_empty(),
            "depth_completed": {"n1": completed_depth[0], "n2": completed_depth[1], "n_u32_max": completed_depth[2]},
            "depth_target": depth,
            "levels": levels_doc,
            "known_findings_seen": known_seen,
            "spawned_end_to_end_cases": spawned_cases,
        },
        "assumptions": ["tokio unbounded mpsc and Arc/Weak are trusted; thread-level interleavings of Tracker::drop are covered by the yield point between 'count reaches zero' and 'key sent' (the only two steps of that drop)"],
        "wall_s": start.elapsed().as_secs_f64(),
        "violations": nviol,
    });
    write_evidence("C13", &ev);
    eprintln!(
        "C13 {}: histories {} states {} depth n1={} n2={} wall {:.1}s violations {}",
        tier.name(), total_hist, states.len(), completed_depth[0], completed_depth[1], start.elapsed().as_secs_f64(), nviol
    );
    if !machinery.is_empty() {
        for m in machinery.iter().take(5) {
            eprintln!("machinery: {m}");
        }
        return 2;
    }
    if nviol > 0 {
        1
    } else {
        0
    }
}


// ---------------------------------------------------------------------------------------------
// The limiter as the examples run it: `listener.max_channels_per_key(n, key).execute(serve)` under
// `spawn_incoming`, every channel and request a real tokio task. A connection is reset (its read side
// reports an error) while one of its handlers is still running; then a connection with the same key
// arrives. The first channel is over - whoever holds its slot longer sheds a connection although no
// channel with its key is alive.

struct ResettableEnd {
    key: u8,
    inner: tarpc::transport::channel::UnboundedChannel<ClientMessage<u32>, Response<u32>>,
    reset: std::sync::Arc<std::sync::atomic::AtomicBool>,
    waker: std::sync::Arc<std::sync::Mutex<Option<std::task::Waker>>>,
    failed: bool,
}
impl Stream for ResettableEnd {
    type Item = Result<ClientMessage<u32>, std::io::Error>;
    fn poll_next(mut self: Pin<&mut Self>, cx: &mut Context<'_>) -> Poll<Option<Self::Item>> {
        *self.waker.lock().unwrap() = Some(cx.waker().clone());
        if self.reset.load(Ordering::SeqCst) {
            if self.failed {
                return Poll::Ready(None);
            }
            self.failed = true;
            return Poll::Ready(Some(Err(std::io::Error::new(std::io::ErrorKind::ConnectionReset, "reset"))));
        }
        Pin::new(&mut self.inner).poll_next(cx).map(|o| o.map(|r| r.map_err(|e| std::io::Error::new(std::io::ErrorKind::Other, e.to_string()))))
    }
}
impl Sink<Response<u32>> for ResettableEnd {
    type Error = std::io::Error;
    fn poll_ready(mut self: Pin<&mut Self>, cx: &mut Context<'_>) -> Poll<Result<(), Self::Error>> {
        Pin::new(&mut self.inner).poll_ready(cx).map_err(|e| std::io::Error::new(std::io::ErrorKind::Other, e.to_string()))
    }
    fn start_send(mut self: Pin<&mut Self>, item: Response<u32>) -> Result<(), Self::Error> {
        Pin::new(&mut self.inner).start_send(item).map_err(|e| std::io::Error::new(std::io::ErrorKind::Other, e.to_string()))
    }
    fn poll_flush(mut self: Pin<&mut Self>, cx: &mut Context<'_>) -> Poll<Result<(), Self::Error>> {
        Pin::new(&mut self.inner).poll_flush(cx).map_err(|e| std::io::Error::new(std::io::ErrorKind::Other, e.to_string()))
    }
    fn poll_close(mut self: Pin<&mut Self>, cx: &mut Context<'_>) -> Poll<Result<(), Self::Error>> {
        Pin::new(&mut self.inner).poll_close(cx).map_err(|e| std::io::Error::new(std::io::ErrorKind::Other, e.to_string()))
    }
}

/// None = held; Some(message) = violated. `n` connections with one key are opened and served, each
/// with a handler that never finishes; all are reset; then one more with the same key arrives.
pub fn spawned_reset_case(n: u32) -> Option<String> {
    use futures::{SinkExt, StreamExt};
    use tarpc::server::Channel;
    use tarpc::server::incoming::{spawn_incoming, Incoming};
    let rt = tokio::runtime::Builder::new_current_thread().enable_time().start_paused(true).build().unwrap();
    rt.block_on(async move {
        let (ltx, lrx) = futures::channel::mpsc::unbounded::<BaseChannel<u32, u32, ResettableEnd>>();
        let serve = tarpc::server::serve(|_, x: u32| async move {
            if x < 1000 {
                futures::future::pending::<()>().await;
            }
            Ok(x)
        });
        let incoming = lrx.max_channels_per_key(n, |c: &BaseChannel<u32, u32, ResettableEnd>| c.transport().key).execute(serve);
        let server = tokio::spawn(spawn_incoming(incoming));
        let settle = || async {
            for _ in 0..64 {
                tokio::task::yield_now().await;
            }
        };
        let t0 = std::time::Instant::now();
        let mk = |id: u64, x: u32| {
            let mut ctx = tarpc::context::current();
            ctx.deadline = t0 + std::time::Duration::from_secs(3600);
            ClientMessage::Request(tarpc::Request { context: ctx, id, message: x })
        };
        let mut peers = vec![];
        let mut resets = vec![];
        for _ in 0..n {
            let (peer, server_end) = tarpc::transport::channel::unbounded::<Response<u32>, ClientMessage<u32>>();
            let reset = std::sync::Arc::new(std::sync::atomic::AtomicBool::new(false));
            let waker = std::sync::Arc::new(std::sync::Mutex::new(None));
            let end = ResettableEnd { key: 7, inner: server_end, reset: reset.clone(), waker: waker.clone(), failed: false };
            ltx.unbounded_send(BaseChannel::with_defaults(end)).ok()?;
            let mut peer = peer;
            peer.send(mk(1, 1)).await.ok()?;
            peers.push(peer);
            resets.push((reset, waker));
        }
        settle().await;
        // every connection of the key is reset while its handler is still running
        for (reset, waker) in &resets {
            reset.store(true, Ordering::SeqCst);
            if let Some(w) = waker.lock().unwrap().take() {
                w.wake();
            }
        }
        settle().await;
        // a new connection with the same key: no channel with that key is alive any more
        let (mut peer, server_end) = tarpc::transport::channel::unbounded::<Response<u32>, ClientMessage<u32>>();
        let end = ResettableEnd { key: 7, inner: server_end, reset: Default::default(), waker: Default::default(), failed: false };
        ltx.unbounded_send(BaseChannel::with_defaults(end)).ok()?;
        let _ = peer.send(mk(2, 2000)).await;
        settle().await;
        let verdict = match futures::FutureExt::now_or_never(peer.next()) {
            Some(Some(Ok(r))) if r.message == Ok(2000) => None,
            Some(None) | Some(Some(Err(_))) => Some(format!("n={n}: {n} connections of one key were reset (read error) while a handler of each was still running; a new connection with that key was shed although no channel with its key was alive (served through spawn_incoming)")),
            other => Some(format!("n={n}: after {n} connections of one key were reset, a new connection with that key is not served: {:?}", other.map(|o| o.map(|r| r.map(|x| x.request_id).map_err(|e| e.to_string())))))
        };
        server.abort();
        drop(peers);
        verdict
    })
}

/// A transport that does nothing, with a key.
struct IdleEnd {
    key: u32,
}
impl Stream for IdleEnd {
    type Item = Result<ClientMessage<u32>, std::io::Error>;
    fn poll_next(self: Pin<&mut Self>, _: &mut Context<'_>) -> Poll<Option<Self::Item>> {
        Poll::Pending
    }
}
impl Sink<Response<u32>> for IdleEnd {
    type Error = std::io::Error;
    fn poll_ready(self: Pin<&mut Self>, _: &mut Context<'_>) -> Poll<Result<(), Self::Error>> {
        Poll::Ready(Ok(()))
    }
    fn start_send(self: Pin<&mut Self>, _: Response<u32>) -> Result<(), Self::Error> {
        Ok(())
    }
    fn poll_flush(self: Pin<&mut Self>, _: &mut Context<'_>) -> Poll<Result<(), Self::Error>> {
        Poll::Ready(Ok(()))
    }
    fn poll_close(self: Pin<&mut Self>, _: &mut Context<'_>) -> Poll<Result<(), Self::Error>> {
        Poll::Ready(Ok(()))
    }
}

/// A large key table that shrinks: `keys` distinct keys are admitted (limit n = 1) and held, all
/// but `survivors` (spread evenly) are closed in one go, the listener is polled; then a second
/// connection arrives for every surviving key (must be shed: its first channel is alive) and for
/// a sample of closed keys (must be admitted). None = held; Some(message) = violated.
pub fn many_keys_case(keys: u32, survivors: u32) -> Option<String> {
    use tarpc::server::incoming::Incoming;
    use tarpc::server::Channel;
    type BC = BaseChannel<u32, u32, IdleEnd>;
    let q: Rc<RefCell<VecDeque<BC>>> = Rc::new(RefCell::new(VecDeque::new()));
    let q2 = q.clone();
    let listener = futures::stream::poll_fn(move |_| match q2.borrow_mut().pop_front() {
        Some(c) => Poll::Ready(Some(c)),
        None => Poll::Pending,
    });
    let mut filter = Box::pin(listener.max_channels_per_key(1, |c: &BC| c.transport().key));
    let waker = futures::task::noop_waker();
    let mut cx = Context::from_waker(&waker);
    let mut held: std::collections::BTreeMap<u32, _> = Default::default();
    for k in 0..keys {
        q.borrow_mut().push_back(BaseChannel::with_defaults(IdleEnd { key: k }));
    }
    for _ in 0..keys {
        match filter.as_mut().poll_next(&mut cx) {
            Poll::Ready(Some(c)) => {
                let k = c.get_ref().transport().key;
                held.insert(k, c);
            }
            _ => return Some(format!("{keys} connections with distinct keys, limit 1: only {} were admitted", held.len())),
        }
    }
    let step = (keys / survivors.max(1)).max(1);
    let keep: Vec<u32> = (0..survivors).map(|i| (i * step + step / 2).min(keys - 1)).collect();
    held.retain(|k, _| keep.contains(k));
    // the listener is polled: it processes the queued close notifications (nothing is waiting)
    if let Poll::Ready(_) = filter.as_mut().poll_next(&mut cx) {
        return Some("the limited stream yielded a channel although none was waiting".into());
    }
    // second connections
    let closed_sample: Vec<u32> = (0..keys).filter(|k| !keep.contains(k)).step_by((keys as usize / 16).max(1)).collect();
    let mut expect_admit = std::collections::BTreeSet::new();
    for k in keep.iter().chain(closed_sample.iter()) {
        q.borrow_mut().push_back(BaseChannel::with_defaults(IdleEnd { key: *k }));
        if !keep.contains(k) {
            expect_admit.insert(*k);
        }
    }
    let mut admitted = std::collections::BTreeSet::new();
    let mut second = vec![];
    for _ in 0..(keep.len() + closed_sample.len() + 2) {
        match filter.as_mut().poll_next(&mut cx) {
            Poll::Ready(Some(c)) => {
                admitted.insert(c.get_ref().transport().key);
                second.push(c);
            }
            _ => break,
        }
    }
    let over: Vec<u32> = admitted.iter().filter(|k| keep.contains(k)).copied().collect();
    if !over.is_empty() {
        return Some(format!("C13-over-limit|{keys} keys admitted (limit 1), all but {survivors} closed, the listener polled: a second connection was admitted for keys {:?} while their first channel is alive", &over[..over.len().min(6)]));
    }
    let shed: Vec<u32> = expect_admit.difference(&admitted).copied().collect();
    if !shed.is_empty() {
        return Some(format!("C13-shed-below-limit|{keys} keys admitted (limit 1), all but {survivors} closed, the listener polled: a new connection was shed for keys {:?} although no channel with those keys is alive", &shed[..shed.len().min(6)]));
    }
    None
}

/// A key that empties and is revived several times while close notices of other keys are queued
/// ahead of its own (limit 1): `backlog` other keys are admitted and all closed without a poll;
/// then, `revivals` times, the key's channel is closed and a new connection of the key arrives
/// and is polled in (it must be admitted: no channel of the key is alive); then `idle` polls with
/// nothing waiting; then one more connection of the key arrives - it must be shed, the last one
/// being alive; finally that one is closed and the next is admitted. None = held.
pub fn revival_backlog_case(backlog: u32, revivals: u32, idle: u32) -> Option<String> {
    use tarpc::server::incoming::Incoming;
    use tarpc::server::Channel;
    type BC = BaseChannel<u32, u32, IdleEnd>;
    let q: Rc<RefCell<VecDeque<BC>>> = Rc::new(RefCell::new(VecDeque::new()));
    let q2 = q.clone();
    let listener = futures::stream::poll_fn(move |_| match q2.borrow_mut().pop_front() {
        Some(c) => Poll::Ready(Some(c)),
        None => Poll::Pending,
    });
    let mut filter = Box::pin(listener.max_channels_per_key(1, |c: &BC| c.transport().key));
    let waker = futures::task::noop_waker();
    let mut cx = Context::from_waker(&waker);
    let tag = format!("limit 1; {backlog} other keys admitted and closed without a poll; then key 0 closed and re-admitted {revivals} times; {idle} idle polls");
    let mut arrive = |k: u32| q.borrow_mut().push_back(BaseChannel::with_defaults(IdleEnd { key: k }));
    arrive(0);
    for k in 1..=backlog {
        arrive(k);
    }
    let mut fillers = vec![];
    let mut current = None;
    for _ in 0..=backlog {
        match filter.as_mut().poll_next(&mut cx) {
            Poll::Ready(Some(c)) => {
                if c.get_ref().transport().key == 0 {
                    current = Some(c);
                } else {
                    fillers.push(c);
                }
            }
            _ => return Some(format!("C13-shed-below-limit|{tag}: one of the first connections (distinct keys) was not admitted")),
        }
    }
    drop(fillers);
    for r in 0..revivals {
        drop(current.take());
        arrive(0);
        match filter.as_mut().poll_next(&mut cx) {
            Poll::Ready(Some(c)) if c.get_ref().transport().key == 0 => current = Some(c),
            _ => return Some(format!("C13-shed-below-limit|{tag}: revival {} of key 0 was shed although no channel of key 0 was alive", r + 1)),
        }
    }
    for _ in 0..idle {
        if let Poll::Ready(_) = filter.as_mut().poll_next(&mut cx) {
            return Some(format!("C13-ended|{tag}: the limited stream yielded or ended with nothing waiting"));
        }
    }
    arrive(0);
    if let Poll::Ready(Some(_second)) = filter.as_mut().poll_next(&mut cx) {
        return Some(format!("C13-over-limit|{tag}: one more connection of key 0 was admitted while the last one is alive"));
    }
    drop(current.take());
    arrive(0);
    match filter.as_mut().poll_next(&mut cx) {
        Poll::Ready(Some(_)) => None,
        _ => Some(format!("C13-shed-below-limit|{tag}: after the last channel of key 0 was closed a new connection of key 0 was shed")),
    }
}

pub fn replay_c13(doc: &serde_json::Value, path: &str) -> i32 {
    if doc["harness"].as_str() == Some("limits_key/revival-backlog") {
        let g = |k: &str| doc[k].as_u64().unwrap() as u32;
        return match revival_backlog_case(g("backlog"), g("revivals"), g("idle")) {
            None => 0,
            Some(m) => {
                println!("violated: {m}");
                println!("VIOLATION property=C13 replay={path}");
                1
            }
        };
    }
    let n = doc["n"].as_u64().unwrap() as u32;
    if doc["harness"].as_str() == Some("limits_key/many-keys") {
        return match many_keys_case(doc["keys"].as_u64().unwrap() as u32, doc["survivors"].as_u64().unwrap() as u32) {
            None => 0,
            Some(m) => {
                println!("violated: {m}");
                println!("VIOLATION property=C13 replay={path}");
                1
            }
        };
    }
    if doc["harness"].as_str() == Some("limits_key/spawned") {
        return match spawned_reset_case(n) {
            None => 0,
            Some(m) => {
                println!("violated: C13-shed-below-limit|{m}");
                println!("VIOLATION property=C13 replay={path}");
                1
            }
        };
    }
    let h: Vec<Ev> = serde_json::from_value(doc["history"].clone()).expect("history");
    let o = replay(n, &h);
    for l in &o.log {
        println!("{l}");
    }
    if let Some(v) = o.violation {
        println!("violated: {v}");
        println!("VIOLATION property=C13 replay={path}");
        return 1;
    }
    0
}
