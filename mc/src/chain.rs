//! `chain`: 1-3 real client->server hops. Each hop is a real `client::new` dispatch talking to a
//! real `BaseChannel.execute(..)` over either the shipped in-memory transport or the real
//! `serde_transport` (Json / Bincode) on a harness-owned byte pipe whose delivery (and therefore
//! transit time) the harness controls. Handlers issue the nested call with their own context.
//! Used by C07 (deadline propagation grid), C04 (cancellation cascade) and C18 (trace context).

use crate::explore::{Chooser, Point};
use crate::mock::*;
use futures::{Future, Sink, Stream, StreamExt};
use serde::{Deserialize, Serialize};
use std::cell::{Cell, RefCell};
use std::collections::VecDeque;
use std::hash::{Hash, Hasher};
use std::io;
use std::panic::{catch_unwind, AssertUnwindSafe};
use std::pin::Pin;
use std::rc::Rc;
use std::sync::Arc;
use std::task::{Context, Poll, Waker};
use std::time::Duration;
use tarpc::server::{BaseChannel, Channel};
use tarpc::{client, context, ClientMessage, Response, ServerError};
use tokio::io::{AsyncRead, AsyncWrite, ReadBuf};
use tokio_serde::formats::{Bincode, Json};
use tokio_util::codec::{Framed, LengthDelimitedCodec};

#[derive(Clone, Copy, Debug, PartialEq, Eq, Hash, Serialize, Deserialize)]
pub enum HopKind {
    Mem,
    Json,
    Bincode,
    /// in-memory channel whose client-side sink can be made not-ready by the harness
    /// (readiness independent of flushing)
    Gated,
}

#[derive(Clone, Copy, Debug, PartialEq, Eq, Hash, Serialize, Deserialize)]
pub enum Regime {
    NoSubscriber,
    Otel,
}

pub const H_ABANDON: u32 = 1 << 0;
pub const H_FINISH: u32 = 1 << 1;
pub const H_REORDER: u32 = 1 << 2;
pub const H_GATE: u32 = 1 << 3;

#[derive(Clone, Debug, PartialEq, Eq, Hash, Serialize, Deserialize)]
pub struct ChainCfg {
    pub hops: Vec<HopKind>,
    /// remaining duration of the head call's deadline at call time, ns (0 = already passed)
    pub r_ns: u64,
    /// transit delay per hop (applied to every delivery on a byte pipe), ms
    pub tau_ms: Vec<u64>,
    pub regime: Regime,
    /// the last handler completes unprompted
    pub last_finishes: bool,
    /// the head caller abandons after k polls (None: awaits)
    pub abandon_after: Option<u32>,
    pub alphabet: u32,
    /// every client handle is owned by the future that uses it (the head caller; each hop's
    /// handler for its nested call) and nothing else keeps it alive: abandoning a call then
    /// also drops the last handle of that client, so its dispatch must transmit the
    /// cancellation while it shuts down
    #[serde(default)]
    pub own_clients: bool,
    /// max_in_flight_requests of every hop's client (0 = the default configuration): with 1, the
    /// call that is abandoned is also the one that fills the client to its limit
    #[serde(default)]
    pub client_mif: usize,
    /// the head caller supplies the all-zero trace id (an untraced process) instead of 0xABCD
    #[serde(default)]
    pub zero_trace_id: bool,
    /// under the OpenTelemetry regime the head caller and its dispatch (another process) have no
    /// subscriber: only the servers, and the nested calls their handlers make, are traced
    #[serde(default)]
    pub head_untraced: bool,
    /// the head caller's context says Unsampled (default: Sampled)
    #[serde(default)]
    pub head_unsampled: bool,
}
impl ChainCfg {
    pub fn head_tid(&self) -> u128 {
        if self.zero_trace_id {
            0
        } else {
            0xABCD
        }
    }
}

// ---------------------------------------------------------------------------------------------
// byte pipe with harness-controlled delivery

#[derive(Default)]
pub struct PipeBuf {
    staged: Vec<u8>,
    visible: VecDeque<u8>,
    waker: Option<Waker>,
    closed: bool,
}

pub struct PipeEnd {
    rx: Rc<RefCell<PipeBuf>>,
    tx: Rc<RefCell<PipeBuf>>,
}

impl AsyncRead for PipeEnd {
    fn poll_read(self: Pin<&mut Self>, cx: &mut Context<'_>, buf: &mut ReadBuf<'_>) -> Poll<io::Result<()>> {
        let mut b = self.rx.borrow_mut();
        if b.visible.is_empty() {
            if b.closed {
                return Poll::Ready(Ok(()));
            }
            b.waker = Some(cx.waker().clone());
            return Poll::Pending;
        }
        while buf.remaining() > 0 {
            match b.visible.pop_front() {
                Some(x) => buf.put_slice(&[x]),
                None => break,
            }
        }
        Poll::Ready(Ok(()))
    }
}
impl AsyncWrite for PipeEnd {
    fn poll_write(self: Pin<&mut Self>, _: &mut Context<'_>, buf: &[u8]) -> Poll<io::Result<usize>> {
        self.tx.borrow_mut().staged.extend_from_slice(buf);
        Poll::Ready(Ok(buf.len()))
    }
    fn poll_flush(self: Pin<&mut Self>, _: &mut Context<'_>) -> Poll<io::Result<()>> {
        Poll::Ready(Ok(()))
    }
    fn poll_shutdown(self: Pin<&mut Self>, _: &mut Context<'_>) -> Poll<io::Result<()>> {
        let mut t = self.tx.borrow_mut();
        t.closed = true;
        Poll::Ready(Ok(()))
    }
}
impl Drop for PipeEnd {
    fn drop(&mut self) {
        let mut t = self.tx.borrow_mut();
        t.closed = true;
        if let Some(w) = t.waker.take() {
            w.wake();
        }
    }
}

// ---------------------------------------------------------------------------------------------
// type-erased logging transport

trait DynT<I, S> {
    fn next(self: Pin<&mut Self>, cx: &mut Context<'_>) -> Poll<Option<io::Result<I>>>;
    fn ready(self: Pin<&mut Self>, cx: &mut Context<'_>) -> Poll<io::Result<()>>;
    fn send(self: Pin<&mut Self>, item: S) -> io::Result<()>;
    fn flush(self: Pin<&mut Self>, cx: &mut Context<'_>) -> Poll<io::Result<()>>;
    fn close(self: Pin<&mut Self>, cx: &mut Context<'_>) -> Poll<io::Result<()>>;
}
fn ioe<E: std::fmt::Display>(e: E) -> io::Error {
    io::Error::new(io::ErrorKind::Other, e.to_string())
}
impl<T, I, S, E> DynT<I, S> for T
where
    T: Stream<Item = Result<I, E>> + Sink<S, Error = E>,
    E: std::fmt::Display,
{
    fn next(self: Pin<&mut Self>, cx: &mut Context<'_>) -> Poll<Option<io::Result<I>>> {
        Stream::poll_next(self, cx).map(|o| o.map(|r| r.map_err(ioe)))
    }
    fn ready(self: Pin<&mut Self>, cx: &mut Context<'_>) -> Poll<io::Result<()>> {
        Sink::poll_ready(self, cx).map_err(ioe)
    }
    fn send(self: Pin<&mut Self>, item: S) -> io::Result<()> {
        Sink::start_send(self, item).map_err(ioe)
    }
    fn flush(self: Pin<&mut Self>, cx: &mut Context<'_>) -> Poll<io::Result<()>> {
        Sink::poll_flush(self, cx).map_err(ioe)
    }
    fn close(self: Pin<&mut Self>, cx: &mut Context<'_>) -> Poll<io::Result<()>> {
        Sink::poll_close(self, cx).map_err(ioe)
    }
}

#[derive(Default)]
pub struct GateSt {
    pub closed: Cell<bool>,
    pub waker: RefCell<Option<Waker>>,
}

pub struct LogT<I, S> {
    inner: Pin<Box<dyn DynT<I, S>>>,
    log: Rc<Log>,
    side: u8,
    gate: Option<Rc<GateSt>>,
}

impl<I: ToMsg, S> Stream for LogT<I, S> {
    type Item = io::Result<I>;
    fn poll_next(mut self: Pin<&mut Self>, cx: &mut Context<'_>) -> Poll<Option<Self::Item>> {
        let r = self.inner.as_mut().next(cx);
        if let Poll::Ready(Some(Ok(i))) = &r {
            let m = i.to_msg(self.log.t0);
            self.log.push(Rec::T {
                side: self.side,
                op: Op::Next,
                res: Res::Item,
                msg: Some(m),
                task: self.log.cur_task.get(),
                poll: self.log.poll_seq.get(),
            });
            self.log.push(Rec::N("recv_at", vec![self.side as i128, self.log.now_ns()]));
        }
        if let Poll::Ready(Some(Err(e))) = &r {
            self.log.push(Rec::S("transport_err", format!("side {} read: {e}", self.side)));
        }
        r
    }
}
impl<I, S: ToMsg> Sink<S> for LogT<I, S> {
    type Error = io::Error;
    fn poll_ready(mut self: Pin<&mut Self>, cx: &mut Context<'_>) -> Poll<io::Result<()>> {
        if let Some(g) = &self.gate {
            if g.closed.get() {
                *g.waker.borrow_mut() = Some(cx.waker().clone());
                return Poll::Pending;
            }
        }
        self.inner.as_mut().ready(cx)
    }
    fn start_send(mut self: Pin<&mut Self>, item: S) -> io::Result<()> {
        let m = item.to_msg(self.log.t0);
        self.log.push(Rec::T {
            side: self.side,
            op: Op::Send,
            res: Res::Ok,
            msg: Some(m),
            task: self.log.cur_task.get(),
            poll: self.log.poll_seq.get(),
        });
        self.log.push(Rec::N("sent_at", vec![self.side as i128, self.log.now_ns()]));
        self.inner.as_mut().send(item)
    }
    fn poll_flush(mut self: Pin<&mut Self>, cx: &mut Context<'_>) -> Poll<io::Result<()>> {
        self.inner.as_mut().flush(cx)
    }
    fn poll_close(mut self: Pin<&mut Self>, cx: &mut Context<'_>) -> Poll<io::Result<()>> {
        self.inner.as_mut().close(cx)
    }
}

type CT = LogT<Response<u32>, ClientMessage<u32>>;
type ST = LogT<ClientMessage<u32>, Response<u32>>;

fn mk_hop(kind: HopKind, hop: usize, log: &Rc<Log>, pipes: &mut Vec<Rc<RefCell<PipeBuf>>>, gates: &mut Vec<(usize, Rc<GateSt>)>) -> (CT, ST) {
    let (cs, ss) = ((hop * 2) as u8, (hop * 2 + 1) as u8);
    match kind {
        HopKind::Gated => {
            let (c, s) = tarpc::transport::channel::unbounded();
            let g = Rc::new(GateSt::default());
            gates.push((hop, g.clone()));
            (
                LogT { inner: Box::pin(c), log: log.clone(), side: cs, gate: Some(g) },
                LogT { inner: Box::pin(s), log: log.clone(), side: ss, gate: None },
            )
        }
        HopKind::Mem => {
            let (c, s) = tarpc::transport::channel::unbounded();
            (
                LogT { inner: Box::pin(c), log: log.clone(), side: cs, gate: None },
                LogT { inner: Box::pin(s), log: log.clone(), side: ss, gate: None },
            )
        }
        HopKind::Json | HopKind::Bincode => {
            let a = Rc::new(RefCell::new(PipeBuf::default())); // client -> server
            let b = Rc::new(RefCell::new(PipeBuf::default())); // server -> client
            pipes.push(a.clone());
            pipes.push(b.clone());
            let ce = PipeEnd { rx: b.clone(), tx: a.clone() };
            let se = PipeEnd { rx: a, tx: b };
            let cf = Framed::new(ce, LengthDelimitedCodec::new());
            let sf = Framed::new(se, LengthDelimitedCodec::new());
            if kind == HopKind::Json {
                let c = tarpc::serde_transport::new(cf, Json::<Response<u32>, ClientMessage<u32>>::default());
                let s = tarpc::serde_transport::new(sf, Json::<ClientMessage<u32>, Response<u32>>::default());
                (
                    LogT { inner: Box::pin(c), log: log.clone(), side: cs, gate: None },
                    LogT { inner: Box::pin(s), log: log.clone(), side: ss, gate: None },
                )
            } else {
                let c = tarpc::serde_transport::new(cf, Bincode::<Response<u32>, ClientMessage<u32>>::default());
                let s = tarpc::serde_transport::new(sf, Bincode::<ClientMessage<u32>, Response<u32>>::default());
                (
                    LogT { inner: Box::pin(c), log: log.clone(), side: cs, gate: None },
                    LogT { inner: Box::pin(s), log: log.clone(), side: ss, gate: None },
                )
            }
        }
    }
}

// ---------------------------------------------------------------------------------------------

type BoxFut = Pin<Box<dyn Future<Output = ()>>>;
type BoxStream = Pin<Box<dyn Stream<Item = BoxFut>>>;

struct TaskSt {
    name: Task,
    fut: Option<BoxFut>,
    stream: Option<BoxStream>,
    flag: Arc<Flag>,
    waker: Waker,
    polls: u32,
    done: bool,
}

struct Shared {
    log: Rc<Log>,
    gate_open: Cell<bool>,
    gate_waker: RefCell<Option<Waker>>,
    regime: Regime,
}

struct LastGate(Rc<Shared>);
impl Future for LastGate {
    type Output = ();
    fn poll(self: Pin<&mut Self>, cx: &mut Context<'_>) -> Poll<()> {
        if self.0.gate_open.get() {
            Poll::Ready(())
        } else {
            *self.0.gate_waker.borrow_mut() = Some(cx.waker().clone());
            Poll::Pending
        }
    }
}

struct DropLog {
    hop: usize,
    sh: Rc<Shared>,
    done: bool,
}
impl Drop for DropLog {
    fn drop(&mut self) {
        if !self.done {
            self.sh.log.push(Rec::N("hdrop", vec![self.hop as i128, self.sh.log.now_ns()]));
        }
    }
}

fn log_ctx(sh: &Shared, name: &'static str, hop: usize, ctx: &context::Context) {
    sh.log.push(Rec::N(
        name,
        vec![
            hop as i128,
            rel_ns(sh.log.t0, ctx.deadline),
            (ctx.trace_context.sampling_decision == tarpc::trace::SamplingDecision::Sampled) as i128,
            sh.log.now_ns(),
        ],
    ));
    // ids may be random (span ids always, trace ids under an OpenTelemetry tracer): kept out of
    // trace hashes
    sh.log.push(Rec::N(
        "hsid",
        vec![
            hop as i128,
            u64::from(ctx.trace_context.span_id) as i128,
            u128::from(ctx.trace_context.trace_id) as i128,
        ],
    ));
}

#[derive(Clone, Debug, PartialEq)]
enum Ev {
    Poll(usize),
    Abandon,
    ScriptAbandon,
    Finish,
    Deliver(usize),
    CloseGate(usize),
    OpenGate(usize),
    Stop,
}

struct St {
    tasks: Vec<TaskSt>,
    head_done: bool,
    head_abandoned: bool,
    dead: bool,
}

pub struct World {
    /// client handles outlive the calls (as an application's would) until after checkpoint Q1
    keepalive: RefCell<Vec<client::Channel<u32, u32>>>,
    cfg: ChainCfg,
    log: Rc<Log>,
    sh: Rc<Shared>,
    st: RefCell<St>,
    ch: RefCell<Chooser>,
    pipes: Vec<Rc<RefCell<PipeBuf>>>,
    gates: Vec<(usize, Rc<GateSt>)>,
    free: Cell<bool>,
    pending_delay: Cell<Option<(usize, u64)>>,
    state_hashes: RefCell<Vec<u64>>,
}

impl World {
    fn new(cfg: &ChainCfg, prefix: &[u16], observe: Regime) -> Rc<World> {
        let log = Log::new();
        let sh = Rc::new(Shared {
            log: log.clone(),
            gate_open: Cell::new(false),
            gate_waker: RefCell::new(None),
            regime: observe,
        });
        let mut pipes = vec![];
        let mut gates: Vec<(usize, Rc<GateSt>)> = vec![];
        let mut tasks: Vec<TaskSt> = vec![];
        let d = cfg.hops.len();
        let mut clients: Vec<client::Channel<u32, u32>> = vec![];
        let mut servers: Vec<ST> = vec![];
        let mut dispatches = vec![];
        for (i, k) in cfg.hops.iter().enumerate() {
            let (ct, st) = mk_hop(*k, i, &log, &mut pipes, &mut gates);
            let mut ccfg = client::Config::default();
            if cfg.client_mif > 0 {
                ccfg.max_in_flight_requests = cfg.client_mif;
            }
            let nc = client::new::<u32, u32, CT>(ccfg, ct);
            clients.push(nc.client);
            dispatches.push(nc.dispatch);
            servers.push(st);
        }
        let mk_task = |name: Task, fut: Option<BoxFut>, stream: Option<BoxStream>| {
            let flag = Flag::new(true);
            TaskSt {
                name,
                waker: Waker::from(flag.clone()),
                flag,
                fut,
                stream,
                polls: 0,
                done: false,
            }
        };
        // head caller
        let mut ctx = context::current();
        ctx.deadline = log.t0 + Duration::from_nanos(cfg.r_ns);
        ctx.trace_context.trace_id = tarpc::trace::TraceId::from(cfg.head_tid());
        ctx.trace_context.span_id = tarpc::trace::SpanId::from(0x1111u64);
        ctx.trace_context.sampling_decision = if cfg.head_unsampled { tarpc::trace::SamplingDecision::Unsampled } else { tarpc::trace::SamplingDecision::Sampled };
        let head = clients[0].clone();
        let l2 = log.clone();
        let caller: BoxFut = Box::pin(async move {
            let r = head.call(ctx, 7).await;
            l2.push(Rec::S(
                "head_done",
                match r {
                    Ok(v) => format!("Ok({v})"),
                    Err(e) => format!("Err({e})"),
                },
            ));
        });
        tasks.push(mk_task(Task::Caller(0), Some(caller), None));
        for (i, dsp) in dispatches.into_iter().enumerate() {
            let l2 = log.clone();
            let f: BoxFut = Box::pin(async move {
                let r = dsp.await;
                l2.push(Rec::S("dispatch_done", format!("{i} {}", if r.is_ok() { "Ok" } else { "Err" })));
            });
            tasks.push(mk_task(Task::Dispatch(i), Some(f), None));
        }
        for (i, st) in servers.into_iter().enumerate() {
            let next: Option<client::Channel<u32, u32>> = clients.get(i + 1).cloned();
            // own_clients: the first handler invocation takes the only handle
            let next_once: Rc<RefCell<Option<client::Channel<u32, u32>>>> = Rc::new(RefCell::new(if cfg.own_clients { next.clone() } else { None }));
            let next = if cfg.own_clients { None } else { next };
            let has_next = i + 1 < d;
            let sh2 = sh.clone();
            let last = i + 1 == d;
            let auto = cfg.last_finishes;
            let serve = tarpc::server::serve(move |ctx: context::Context, req: u32| {
                let sh3 = sh2.clone();
                let next = match next.clone() {
                    Some(c) => Some(c),
                    None if has_next => next_once.borrow_mut().take(),
                    None => None,
                };
                async move {
                    let mut guard = DropLog { hop: i, sh: sh3.clone(), done: false };
                    log_ctx(&sh3, "hstart", i, &ctx);
                    if sh3.regime == Regime::Otel {
                        let cur = context::current();
                        log_ctx(&sh3, "hcurrent", i, &cur);
                        // the documented idiom for nested calls, used from inside a span of the
                        // application's own (an instrumented helper): same request, same deadline
                        let inner = tracing::info_span!("lookup").in_scope(context::current);
                        log_ctx(&sh3, "hcurrent", i, &inner);
                        // a handler that reads a frame itself (a callback connection, a relayed
                        // message): a JSON request without a deadline gets the documented default,
                        // 10 s from now - not this request's deadline
                        let js = r#"{"Request":{"context":{"trace_context":{"trace_id":[1,0,0,0,0,0,0,0,0,0,0,0,0,0,0,0],"span_id":2,"sampling_decision":"Sampled"}},"id":9,"message":3}}"#;
                        if let Ok(tarpc::ClientMessage::Request(r)) = serde_json::from_str::<tarpc::ClientMessage<u32>>(js) {
                            sh3.log.push(Rec::N("hdefault", vec![i as i128, rel_ns(sh3.log.t0, r.context.deadline), sh3.log.now_ns()]));
                        } else {
                            sh3.log.push(Rec::N("hdefault", vec![i as i128, -1, sh3.log.now_ns()]));
                        }
                    }
                    let out = match next {
                        Some(c) => c.call(ctx, req + 1).await.map_err(|e| ServerError::new(io::ErrorKind::Other, e.to_string())),
                        None => {
                            if !(last && auto) {
                                LastGate(sh3.clone()).await;
                            }
                            Ok(req + 100)
                        }
                    };
                    guard.done = true;
                    sh3.log.push(Rec::N("hfinish", vec![i as i128]));
                    out
                }
            });
            let stream: BoxStream = Box::pin(BaseChannel::with_defaults(st).execute(serve).map(|f| Box::pin(f) as BoxFut));
            tasks.push(mk_task(Task::Stream(i), None, Some(stream)));
        }
        Rc::new(World {
            keepalive: RefCell::new(if cfg.own_clients { Vec::new() } else { clients }),
            cfg: cfg.clone(),
            log,
            sh,
            st: RefCell::new(St { tasks, head_done: false, head_abandoned: false, dead: false }),
            ch: RefCell::new(Chooser::new(prefix)),
            pipes,
            gates,
            free: Cell::new(false),
            pending_delay: Cell::new(None),
            state_hashes: RefCell::new(vec![]),
        })
    }

    fn has(&self, a: u32) -> bool {
        self.cfg.alphabet & a != 0
    }

    fn enabled(&self) -> (Vec<Ev>, usize) {
        let st = self.st.borrow();
        let mut m = vec![];
        if st.dead {
            return (m, 0);
        }
        if let Some(k) = self.cfg.abandon_after {
            let t = &st.tasks[0];
            if t.fut.is_some() && !t.done && t.polls >= k {
                m.push(Ev::ScriptAbandon);
            }
        }
        // handlers (spawned later, higher indices) first, so that a handler observes its context
        // before the channel processes an already-expired deadline
        let mut idx: Vec<usize> = (0..st.tasks.len()).collect();
        idx.sort_by_key(|i| match st.tasks[*i].name {
            Task::Handler(_) => 0,
            Task::Caller(_) => 1,
            Task::Dispatch(_) => 2,
            _ => 3,
        });
        for i in idx {
            let t = &st.tasks[i];
            if (t.fut.is_some() || t.stream.is_some()) && !t.done && t.flag.is_set() {
                if i == 0 && m.contains(&Ev::ScriptAbandon) {
                    continue;
                }
                m.push(Ev::Poll(i));
            }
        }
        if self.cfg.last_finishes && !self.sh.gate_open.get() {
            // (only relevant when the last handler waits on the gate: never with last_finishes)
        }
        let nm_polls = m.len();
        // deliveries on byte pipes are fair events once nothing is runnable
        let mut deliveries = vec![];
        for (p, b) in self.pipes.iter().enumerate() {
            if !b.borrow().staged.is_empty() {
                deliveries.push(Ev::Deliver(p));
            }
        }
        if nm_polls == 0 {
            m.extend(deliveries.clone());
            // a closed gate reopens once nothing else can run (back-pressure is temporary)
            for (k, (_, g)) in self.gates.iter().enumerate() {
                if g.closed.get() {
                    m.push(Ev::OpenGate(k));
                }
            }
        }
        let nm = m.len();
        if !self.free.get() {
            if nm_polls > 0 && self.has(H_REORDER) {
                m.extend(deliveries);
            }
            if self.has(H_GATE) {
                for (k, (_, g)) in self.gates.iter().enumerate() {
                    if !g.closed.get() {
                        m.push(Ev::CloseGate(k));
                    } else if nm_polls > 0 {
                        m.push(Ev::OpenGate(k));
                    }
                }
            }
            if self.has(H_ABANDON) {
                let t = &st.tasks[0];
                if t.fut.is_some() && !t.done && !m.contains(&Ev::ScriptAbandon) {
                    m.push(Ev::Abandon);
                }
            }
            if self.has(H_FINISH) && !self.sh.gate_open.get() && !self.cfg.last_finishes {
                m.push(Ev::Finish);
            }
        }
        (m, nm)
    }

    fn fingerprint(&self) {
        let st = self.st.borrow();
        let mut h = std::collections::hash_map::DefaultHasher::new();
        for t in &st.tasks {
            (t.name, t.fut.is_some() || t.stream.is_some(), t.flag.is_set(), t.polls, t.done).hash(&mut h);
        }
        (st.head_done, st.head_abandoned, self.sh.gate_open.get()).hash(&mut h);
        for (_, g) in &self.gates {
            g.closed.get().hash(&mut h);
        }
        for p in &self.pipes {
            let b = p.borrow();
            // lengths depend on random span ids (decimal / varint widths): hash emptiness only
            (b.staged.is_empty(), b.visible.is_empty(), b.closed).hash(&mut h);
        }
        self.log.now_ns().hash(&mut h);
        self.state_hashes.borrow_mut().push(h.finish());
    }

    fn apply(&self, ev: Ev) {
        self.log.steps.set(self.log.steps.get() + 1);
        if self.log.steps.get() > 3000 {
            self.log.push(Rec::S("horizon", String::new()));
            self.st.borrow_mut().dead = true;
            return;
        }
        self.log.push(Rec::Ev(format!("{ev:?}")));
        match ev {
            Ev::Stop => {}
            Ev::Poll(i) => {
                let (fut, stream, waker, name) = {
                    let mut st = self.st.borrow_mut();
                    let t = &mut st.tasks[i];
                    t.flag.clear();
                    (t.fut.take(), t.stream.take(), t.flag.fresh_waker(), t.name)
                };
                let prev = self.log.begin_poll(name);
                let mut cx = Context::from_waker(&waker);
                if let Some(mut f) = fut {
                    let untraced = self.cfg.head_untraced && matches!(name, Task::Caller(0) | Task::Dispatch(0));
                    let r = catch_unwind(AssertUnwindSafe(|| {
                        if untraced {
                            tracing::subscriber::with_default(tracing::subscriber::NoSubscriber::default(), || f.as_mut().poll(&mut cx))
                        } else {
                            f.as_mut().poll(&mut cx)
                        }
                    }));
                    match r {
                        Ok(Poll::Pending) => {
                            self.log.end_poll(name, prev, false);
                            let mut st = self.st.borrow_mut();
                            st.tasks[i].polls += 1;
                            st.tasks[i].fut = Some(f);
                        }
                        Ok(Poll::Ready(())) => {
                            self.log.end_poll(name, prev, true);
                            {
                                let mut st = self.st.borrow_mut();
                                st.tasks[i].polls += 1;
                                st.tasks[i].done = true;
                                if i == 0 {
                                    st.head_done = true;
                                }
                            }
                            let _ = catch_unwind(AssertUnwindSafe(|| drop(f)));
                        }
                        Err(_) => {
                            self.log.end_poll(name, prev, false);
                            self.log.push(Rec::S("panic", format!("{name:?}: {}", take_panic())));
                            self.st.borrow_mut().dead = true;
                            std::mem::forget(f);
                        }
                    }
                } else if let Some(mut s) = stream {
                    let r = catch_unwind(AssertUnwindSafe(|| s.as_mut().poll_next(&mut cx)));
                    match r {
                        Ok(Poll::Pending) => {
                            self.log.end_poll(name, prev, false);
                            let mut st = self.st.borrow_mut();
                            st.tasks[i].polls += 1;
                            st.tasks[i].stream = Some(s);
                        }
                        Ok(Poll::Ready(Some(h))) => {
                            self.log.end_poll(name, prev, true);
                            let hop = match name {
                                Task::Stream(h) => h,
                                _ => 0,
                            };
                            let flag = Flag::new(true);
                            let mut st = self.st.borrow_mut();
                            st.tasks[i].polls += 1;
                            st.tasks[i].stream = Some(s);
                            st.tasks[i].flag.set();
                            let n = st.tasks.len();
                            st.tasks.push(TaskSt {
                                name: Task::Handler(hop * 100 + n),
                                waker: Waker::from(flag.clone()),
                                flag,
                                fut: Some(h),
                                stream: None,
                                polls: 0,
                                done: false,
                            });
                        }
                        Ok(Poll::Ready(None)) => {
                            self.log.end_poll(name, prev, true);
                            self.log.push(Rec::S("stream_end", format!("{name:?}")));
                            self.st.borrow_mut().tasks[i].done = true;
                            let _ = catch_unwind(AssertUnwindSafe(|| drop(s)));
                        }
                        Err(_) => {
                            self.log.end_poll(name, prev, false);
                            self.log.push(Rec::S("panic", format!("{name:?}: {}", take_panic())));
                            self.st.borrow_mut().dead = true;
                            std::mem::forget(s);
                        }
                    }
                }
            }
            Ev::Abandon | Ev::ScriptAbandon => {
                let f = {
                    let mut st = self.st.borrow_mut();
                    st.head_abandoned = true;
                    st.tasks[0].done = true;
                    st.tasks[0].fut.take()
                };
                self.log.push(Rec::N("abandon", vec![self.log.now_ns()]));
                if catch_unwind(AssertUnwindSafe(|| drop(f))).is_err() {
                    self.log.push(Rec::S("panic", format!("abandon: {}", take_panic())));
                    self.st.borrow_mut().dead = true;
                }
            }
            Ev::Finish => {
                self.sh.gate_open.set(true);
                if let Some(w) = self.sh.gate_waker.borrow_mut().take() {
                    w.wake();
                }
            }
            Ev::CloseGate(k) => self.gates[k].1.closed.set(true),
            Ev::OpenGate(k) => {
                let g = &self.gates[k].1;
                g.closed.set(false);
                if let Some(w) = g.waker.borrow_mut().take() {
                    w.wake();
                }
            }
            Ev::Deliver(p) => {
                let hop = p / 2;
                let tau = self.cfg.tau_ms.get(hop).copied().unwrap_or(0);
                self.pending_delay.set(Some((p, tau)));
            }
        }
        self.fingerprint();
    }

    fn deliver_now(&self, p: usize) {
        let mut b = self.pipes[p].borrow_mut();
        let bytes: Vec<u8> = std::mem::take(&mut b.staged);
        b.visible.extend(bytes);
        if let Some(w) = b.waker.take() {
            w.wake();
        }
    }

    fn step(&self) -> bool {
        let (opts, nm) = self.enabled();
        if self.free.get() {
            if nm == 0 {
                return false;
            }
            self.apply(opts[0].clone());
            return true;
        }
        let mut all = Vec::with_capacity(opts.len() + 1);
        if nm == 0 {
            all.push(Ev::Stop);
        }
        all.extend(opts);
        if crate::mock::show_options() {
            self.log.push(Rec::S("options", format!("{all:?}")));
        }
        let k = self.ch.borrow_mut().choose("step", all.len());
        let ev = all[k].clone();
        if ev == Ev::Stop {
            return false;
        }
        self.apply(ev);
        !self.st.borrow().dead
    }

    fn q_record(&self, name: &'static str) {
        let st = self.st.borrow();
        let alive_handlers = st
            .tasks
            .iter()
            .filter(|t| matches!(t.name, Task::Handler(_)) && !t.done)
            .count();
        self.log.push(Rec::N(
            name,
            vec![alive_handlers as i128, st.head_done as i128, st.head_abandoned as i128, self.log.now_ns()],
        ));
    }
}

pub struct Exec {
    pub recs: Vec<Rec>,
    pub points: Vec<Point>,
    pub steps: u32,
    pub state_hashes: Vec<u64>,
    pub err: Option<String>,
}

/// Runs under whatever tracing subscriber the calling thread already has.
pub fn execute_in_place(cfg: &ChainCfg, prefix: &[u16]) -> Exec {
    let mut c = cfg.clone();
    let want = c.regime;
    c.regime = Regime::NoSubscriber; // do not install another subscriber...
    execute_inner(&c, prefix, want)
}

pub fn execute(cfg: &ChainCfg, prefix: &[u16]) -> Exec {
    execute_inner(cfg, prefix, cfg.regime)
}

fn execute_inner(cfg: &ChainCfg, prefix: &[u16], observe: Regime) -> Exec {
    let run = || {
        let rt = tokio::runtime::Builder::new_current_thread()
            .enable_time()
            .start_paused(true)
            .build()
            .unwrap();
        rt.block_on(tokio::task::unconstrained(async {
            let w = World::new(cfg, prefix, observe);
            w.fingerprint();
            let drive = |w: Rc<World>| async move {
                loop {
                    let more = w.step();
                    if let Some((p, tau)) = w.pending_delay.take() {
                        if tau > 0 {
                            tokio::time::advance(Duration::from_millis(tau)).await;
                            w.log.push(Rec::N("time", vec![w.log.now_ns()]));
                        }
                        w.deliver_now(p);
                        continue;
                    }
                    if !more {
                        break;
                    }
                }
            };
            drive(w.clone()).await;
            w.free.set(true);
            drive(w.clone()).await;
            w.q_record("Q1");
            w.keepalive.borrow_mut().clear();
            drive(w.clone()).await;
            // let every deadline pass
            let horizon_ms = (cfg.r_ns / 1_000_000) + cfg.tau_ms.iter().sum::<u64>() * 4 + 10_001;
            let now_ms = (w.log.now_ns() / 1_000_000) as u64;
            if horizon_ms > now_ms {
                tokio::time::advance(Duration::from_millis(horizon_ms - now_ms)).await;
                w.log.push(Rec::N("time", vec![w.log.now_ns()]));
            }
            drive(w.clone()).await;
            w.q_record("Q2");
            let tasks = std::mem::take(&mut w.st.borrow_mut().tasks);
            if w.st.borrow().dead {
                std::mem::forget(tasks);
            } else {
                let _ = catch_unwind(AssertUnwindSafe(|| drop(tasks)));
            }
            let ch = w.ch.borrow();
            let err = ch.err.clone().or_else(|| {
                if !ch.consumed_prefix() {
                    Some("replay divergence: execution ended before the prefix was consumed".into())
                } else {
                    None
                }
            });
            let ex = Exec {
                recs: w.log.recs.borrow().clone(),
                points: ch.points.clone(),
                steps: w.log.steps.get(),
                state_hashes: w.state_hashes.borrow().clone(),
                err,
            };
            drop(ch);
            ex
        }))
    };
    match cfg.regime {
        Regime::NoSubscriber => run(),
        Regime::Otel => {
            use opentelemetry::trace::TracerProvider as _;
            use tracing_subscriber::layer::SubscriberExt;
            let provider = opentelemetry_sdk::trace::TracerProvider::builder().build();
            let tracer = provider.tracer("mc");
            let sub = tracing_subscriber::registry().with(tracing_opentelemetry::layer().with_tracer(tracer));
            tracing::subscriber::with_default(sub, run)
        }
    }
}
