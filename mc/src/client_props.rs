//! Client-side properties: configurations, alphabets and monitors over `client_core` logs.

use crate::client_core::*;
use crate::driver::Tier;
use crate::explore::{Harness, Point, RunOut, Violation};
use crate::mock::*;
use serde_json::Value;
use std::collections::{BTreeMap, BTreeSet};
use std::hash::{Hash, Hasher};

#[derive(Clone, Copy, Debug, PartialEq, Eq)]
pub enum CProp {
    C01,
    C02,
    C03,
    C05,
    C09,
    C10,
    C11,
    C14,
    C18,
}

pub struct ClientHarness {
    pub prop: CProp,
    pub cfgs: Vec<CCfg>,
}

impl Harness for ClientHarness {
    fn name(&self) -> String {
        format!("client_core/{:?}", self.prop)
    }
    fn n_configs(&self) -> usize {
        self.cfgs.len()
    }
    fn config_json(&self, idx: usize) -> Value {
        serde_json::to_value(&self.cfgs[idx]).unwrap()
    }
    fn run(&self, idx: usize, prefix: &[u16], render: bool) -> (RunOut, Vec<Point>) {
        run_cfg(self.prop, &self.cfgs[idx], prefix, render)
    }
}

pub fn run_cfg(prop: CProp, cfg: &CCfg, prefix: &[u16], render: bool) -> (RunOut, Vec<Point>) {
    let e = execute(cfg, prefix, None);
    let mut out = to_runout(&e, render);
    if out.machinery_error.is_some() {
        return (out, e.points);
    }
    let f = facts(&e.recs);
    let mut vs = Vec::new();
    let mut nt = false;
    match prop {
        CProp::C01 => {
            c01(cfg, &e, &f, prefix, &mut vs, &mut nt, &mut out.extra_execs);
        }
        CProp::C02 => c02(cfg, &e, &f, &mut vs, &mut nt),
        CProp::C03 => c03(cfg, &e, &f, &mut vs, &mut nt),
        CProp::C05 => c05(cfg, &e, &f, &mut vs, &mut nt),
        CProp::C09 => c09(cfg, &e, &f, &mut vs, &mut nt),
        CProp::C10 => c10(cfg, &e, &f, &mut vs, &mut nt),
        CProp::C11 => c11(cfg, &e, &f, &mut vs, &mut nt),
        CProp::C14 => c14(0, Task::Dispatch(0), cfg.flavour, &e.recs, &mut vs, &mut nt),
        CProp::C18 => c18(cfg, &e, &f, &mut vs, &mut nt),
    }
    // outcome vector: caller outcomes + dispatch outcome + wire
    let mut h = std::collections::hash_map::DefaultHasher::new();
    for (i, (_, o, _)) in &f.caller_out {
        (i, o).hash(&mut h);
    }
    f.abandoned.keys().collect::<Vec<_>>().hash(&mut h);
    f.dispatch_done.as_ref().map(|d| &d.1).hash(&mut h);
    for (_, m) in &f.wire {
        m.hash(&mut h);
    }
    out.outcome_hash = h.finish();
    out.nontrivial = nt;
    out.violations = vs;
    (out, e.points)
}

fn class(cfg: &CCfg) -> String {
    format!(
        "n{}/mif{}/buf{}/{:?}{}",
        cfg.callers.len(),
        cfg.max_in_flight,
        cfg.buffer,
        cfg.flavour,
        cfg.cap
    )
}

fn v(vs: &mut Vec<Violation>, rule: &str, cfg: &CCfg, msg: String) {
    let _ = cfg;
    vs.push(Violation {
        signature: rule.to_string(),
        message: format!("[{}] {}", class(cfg), msg),
    });
}

fn panics(f: &Facts, cfg: &CCfg, rule: &str, vs: &mut Vec<Violation>) {
    for p in &f.panics {
        v(vs, rule, cfg, format!("panic: {p}"));
    }
}

// ---------------------------------------------------------------------------------------------
// C01

/// What a stray reply must not change: every call's outcome, the requests transmitted, how the
/// dispatch ended. Cancellations are deliberately not compared: an extra read shifts the phase of
/// the dispatch's read/write loop, and whether a cancellation for an *abandoned* call is still
/// written when its reply is already in the transport legitimately depends on that phase.
fn observable(f: &Facts) -> (Vec<(usize, String)>, Vec<Msg>, Option<String>, usize) {
    (
        f.caller_out
            .iter()
            .map(|(i, (_, o, _))| (*i, o.clone()))
            .collect(),
        f.wire
            .iter()
            .filter(|(_, m)| matches!(m, Msg::Req { .. }))
            .map(|(_, m)| m.clone())
            .collect(),
        f.dispatch_done.as_ref().map(|d| d.1.clone()),
        f.panics.len(),
    )
}

fn c01(
    cfg: &CCfg,
    e: &Exec,
    f: &Facts,
    prefix: &[u16],
    vs: &mut Vec<Violation>,
    nt: &mut bool,
    extra: &mut u32,
) {
    panics(f, cfg, "C01-e-panic", vs);
    // (c) ids unique on the wire
    let mut ids = BTreeSet::new();
    for (_, m) in f.wire.iter().chain(f.failed_sends.iter()) {
        if let Msg::Req { id, .. } = m {
            if !ids.insert(*id) {
                v(vs, "C01-c-id-reused", cfg, format!("request id {id} used twice"));
            }
        }
    }
    // (a) (b)
    let mut seen_tok: BTreeMap<u32, usize> = BTreeMap::new();
    for (i, (idx, o, _)) in &f.caller_out {
        let (tok, is_err) = if let Some(s) = o.strip_prefix("Ok(") {
            (s.trim_end_matches(')').parse::<u32>().ok(), false)
        } else if let Some(s) = o.strip_prefix("Server(\"") {
            (s.trim_end_matches("\")").parse::<u32>().ok(), true)
        } else {
            continue;
        };
        let Some(tok) = tok else {
            v(vs, "C01-a-unknown-body", cfg, format!("caller {i} got {o}"));
            continue;
        };
        if let Some(j) = seen_tok.insert(tok, *i) {
            v(
                vs,
                "C01-b-delivered-twice",
                cfg,
                format!("token {tok} delivered to callers {j} and {i}"),
            );
        }
        match f.replies.iter().find(|r| r.2 == tok) {
            None => v(
                vs,
                "C01-a-never-sent",
                cfg,
                format!("caller {i} completed with {o}, which the peer never sent"),
            ),
            Some((ridx, rid, _, rerr, _)) => {
                let my_id = f.id_of.get(&(*i as u32));
                if my_id != Some(rid) {
                    v(
                        vs,
                        "C01-a-wrong-call",
                        cfg,
                        format!(
                            "caller {i} (request id {my_id:?}) completed with the reply sent for id {rid}"
                        ),
                    );
                }
                if ridx > idx {
                    v(vs, "C01-a-before-sent", cfg, format!("caller {i} got {o} before it was sent"));
                }
                if *rerr != is_err {
                    v(vs, "C01-a-kind", cfg, format!("caller {i}: ok/err flipped for token {tok}"));
                }
            }
        }
    }
    // (a') a frame that was there for a whole poll of the dispatch in which no call had its id is
    // unsolicited and gone; a call that is given that id afterwards must not be completed by it.
    // (A frame read in the very poll that transmits the request is matched by id like any other:
    // tarpc cannot tell, and the property does not ask it to.)
    for (ridx, rid, tok) in &f.future {
        for (i, (_, o, _)) in &f.caller_out {
            if o != &format!("Ok({tok})") {
                continue;
            }
            let Some(widx) = f.wire.iter().chain(f.failed_sends.iter()).find(|(_, m)| matches!(m, Msg::Req { payload, .. } if *payload as usize == *i)).map(|x| x.0) else { continue };
            // a dispatch poll that began after the frame arrived and ended (Pending) before the request was written
            let mut started: Option<usize> = None;
            let mut whole_poll = false;
            for (k, r) in e.recs.iter().enumerate() {
                match r {
                    Rec::PollStart(Task::Dispatch(0)) if k > *ridx => started = Some(k),
                    Rec::PollEnd(Task::Dispatch(0), false) if started.is_some() && k < widx => whole_poll = true,
                    _ => {}
                }
            }
            if whole_poll {
                v(vs, "C01-a-stale-frame", cfg, format!("caller {i} (request id {rid}) was completed by an unsolicited frame that had arrived before its request existed and had been there for a whole poll of the idle dispatch"));
            }
        }
    }
    // (d) stray replies change nothing: differential rerun with the stray replaced by a
    // spurious wake
    // Not applied once the clock has been moved in the main phase: at t >= D a reply and the
    // deadline race legitimately, and an extra read can flip which one the dispatch sees first.
    let clock_moved = {
        let q1 = f.q1.as_ref().map(|q| q.0).unwrap_or(usize::MAX);
        e.recs[..q1.min(e.recs.len())].iter().any(|r| matches!(r, Rec::N("time", _)))
    };
    if f.strays > 0 && f.panics.is_empty() && !clock_moved {
        let base = observable(f);
        for n in 1..=f.strays {
            let e2 = execute(cfg, prefix, Some(n));
            *extra += 1;
            if e2.err.is_some() {
                // the two runs interleave reads and writes differently, so later option lists
                // may differ: the comparison is then inconclusive, not a verdict
                continue;
            }
            // the same choice numbers must have selected the same events: when the option
            // lists differ in content (not only in length) the rerun is a different history
            if main_events(&e.recs) != main_events(&e2.recs) {
                continue;
            }
            let f2 = facts(&e2.recs);
            let o2 = observable(&f2);
            if o2 != base {
                v(
                    vs,
                    "C01-d-stray-disturbed",
                    cfg,
                    format!(
                        "a reply with no outstanding call changed the run: with it {:?}, without it {:?}",
                        (&base.0, &base.2),
                        (&o2.0, &o2.2)
                    ),
                );
            }
        }
    }
    let order: Vec<u64> = f.replies.iter().map(|r| r.1).collect();
    let mut sorted = order.clone();
    sorted.sort();
    *nt = f.strays > 0 || order != sorted || f.caller_out.len() >= 2;
}

/// the events the explorer chose in the main phase, as text
fn main_events(recs: &[Rec]) -> Vec<&str> {
    let mut out = vec![];
    for r in recs {
        match r {
            Rec::Ev(e) => out.push(e.as_str()),
            Rec::N("main_end", _) => break,
            _ => {}
        }
    }
    out
}

// ---------------------------------------------------------------------------------------------
// C02

fn c02(cfg: &CCfg, e: &Exec, f: &Facts, vs: &mut Vec<Violation>, nt: &mut bool) {
    c02_cancellations(cfg, e, f, vs);
    panics(f, cfg, "C02-panic", vs);
    if f.horizon {
        v(vs, "C02-livelock", cfg, "step horizon exceeded".into());
        return;
    }
    if f.spin {
        v(
            vs,
            "C02-spin",
            cfg,
            "dispatch retried a not-ready transport forever inside one poll".into(),
        );
        return;
    }
    if !f.panics.is_empty() {
        return;
    }
    if let Some((q1idx, q)) = &f.q1 {
        let (inbox, alive, inf) = (q[0], q[1] != 0, q[2]);
        if inbox > 0 && alive {
            v(
                vs,
                "C02-Q1-unread-reply",
                cfg,
                format!("{inbox} delivered replies left unread with nothing woken"),
            );
        }
        // everything has settled with the medium taking whatever it is given: what the dispatch
        // wrote has reached the peer - it is not sitting in the transport's buffer waiting for a
        // flush nobody is going to ask for (writability returning wakes the dispatch, and the
        // dispatch acts on it: seeded change C02m flushed only in polls that had written)
        if alive && cfg.fault.is_none() && !e.recs.iter().any(|r| matches!(r, Rec::T { side: 0, res: Res::Err, .. })) {
            let written = e.recs[..*q1idx].iter().filter(|r| matches!(r, Rec::T { side: 0, op: Op::Send, res: Res::Ok, .. })).count();
            let seen = e.recs[..*q1idx].iter().filter(|r| matches!(r, Rec::PeerSaw { side: 0, .. })).count();
            if written > seen {
                v(
                    vs,
                    "C02-Q1-written-not-flushed",
                    cfg,
                    format!("{} of {written} messages the dispatch wrote are still in the transport's buffer at quiescence: the medium is writable, nothing is woken, and no flush is under way", written - seen),
                );
            }
        }
        if alive {
            for (i, (st, polls)) in &f.q1c {
                if *st == CS_RUNNING
                    && *polls > 0
                    // (not transmitted *by now*: a request that only goes out later, when some
                    // unrelated timer happens to wake the dispatch, was stuck here all the same)
                    && !f.wire.iter().any(|(idx, m)| idx < q1idx && matches!(m, Msg::Req { payload, .. } if *payload as usize == *i))
                    && inf < cfg.max_in_flight as i128
                {
                    v(
                        vs,
                        "C02-Q1-queued-not-sent",
                        cfg,
                        format!(
                            "call {i} still queued at quiescence although only {inf}/{} are in flight and the sink is ready",
                            cfg.max_in_flight
                        ),
                    );
                }
            }
        }
    }
    if let Some((_, q)) = &f.q2 {
        for (i, (st, _)) in &f.q2c {
            if *st == CS_RUNNING || *st == CS_WAITING {
                v(
                    vs,
                    "C02-Q2-call-pending",
                    cfg,
                    format!("call {i} still pending at final quiescence (all deadlines passed, nothing woken)"),
                );
            }
        }
        let alive = q[1] != 0;
        let all_gone = f.q2c.values().all(|(st, _)| *st == CS_DONE || *st == CS_ABANDONED);
        if alive && all_gone {
            v(
                vs,
                "C02-Q2-dispatch-pending",
                cfg,
                "dispatch still pending although every handle is gone and every deadline passed".into(),
            );
        }
    }
    // nontrivial: some task was polled, returned Pending, and was polled again later
    let mut pend: BTreeSet<String> = BTreeSet::new();
    for r in &e.recs {
        match r {
            Rec::PollEnd(t, false) => {
                pend.insert(format!("{t:?}"));
            }
            Rec::PollStart(t) if pend.contains(&format!("{t:?}")) => *nt = true,
            _ => {}
        }
    }
}

/// Calls that were abandoned after their request had been transmitted, that had not ended from the
/// dispatch's point of view (no reply read, deadline not passed, dispatch running), and for which
/// no cancellation has been handed to the transport by the quiescent point Q1.
fn abandoned_without_cancel(f: &Facts) -> Vec<(usize, u64)> {
    let mut out = vec![];
    let Some((q1idx, q1)) = &f.q1 else { return out };
    if q1[1] == 0 {
        return out;
    }
    let q1_now = q1[5];
    for (i, _) in &f.abandoned {
        if f.caller_out.contains_key(i) {
            continue;
        }
        let Some(id) = f.id_of.get(&(*i as u32)) else { continue };
        let Some((rp, dl)) = f.wire.iter().find_map(|(idx, m)| match m {
            Msg::Req { id: rid, deadline_ns, .. } if rid == id => Some((*idx, *deadline_ns)),
            _ => None,
        }) else {
            continue;
        };
        let cancelled = f.wire.iter().chain(f.failed_sends.iter()).any(|(idx, m)| matches!(m, Msg::Cancel { id: cid, .. } if cid == id) && *idx > rp && idx < q1idx);
        let read = f.read.iter().any(|(ridx, rid)| rid == id && ridx < q1idx);
        if !cancelled && !read && dl > q1_now {
            out.push((*i, *id));
        }
    }
    out
}

/// C02, the cancellation as an event: "each event that enables progress (... new request or
/// cancellation ...) wakes the task that must act on it".
fn c02_cancellations(cfg: &CCfg, e: &Exec, f: &Facts, vs: &mut Vec<Violation>) {
    if cfg.fault.is_some() || f.horizon || f.spin || !f.panics.is_empty() {
        return;
    }
    let Some((q1idx, _)) = &f.q1 else { return };
    if e.recs[..*q1idx].iter().any(|r| matches!(r, Rec::T { side: 0, res: Res::Err, .. })) || f.eof_read.map(|x| x < *q1idx).unwrap_or(false) || f.dispatch_dropped.map(|x| x < *q1idx).unwrap_or(false) {
        return;
    }
    for (i, id) in abandoned_without_cancel(f) {
        v(vs, "C02-Q1-cancellation-not-acted-on", cfg, format!("call {i} (id {id}) was abandoned with its request in flight; everything has settled, nothing is woken, and the dispatch has not acted on the cancellation"));
    }
}

// ---------------------------------------------------------------------------------------------
// C03

fn c03(cfg: &CCfg, e: &Exec, f: &Facts, vs: &mut Vec<Violation>, nt: &mut bool) {
    let _ = e;
    panics(f, cfg, "C03-panic", vs);
    if f.horizon || f.spin || !f.panics.is_empty() {
        return;
    }
    let mut cancels: BTreeMap<u64, Vec<usize>> = BTreeMap::new();
    let mut reqpos: BTreeMap<u64, usize> = BTreeMap::new();
    let mut req_deadline: BTreeMap<u64, i128> = BTreeMap::new();
    for (idx, m) in &f.wire {
        match m {
            Msg::Req {
                id, deadline_ns, ..
            } => {
                reqpos.insert(*id, *idx);
                req_deadline.insert(*id, *deadline_ns);
            }
            Msg::Cancel { id, .. } => cancels.entry(*id).or_default().push(*idx),
            _ => {}
        }
    }
    for (id, cs) in &cancels {
        if cs.len() > 1 {
            v(vs, "C03-R1-cancel-twice", cfg, format!("{} cancellations for id {id}", cs.len()));
        }
        match reqpos.get(id) {
            None => v(
                vs,
                "C03-R2-cancel-without-request",
                cfg,
                format!("cancellation for id {id} whose request was never transmitted"),
            ),
            Some(rp) if *rp > cs[0] => v(
                vs,
                "C03-R2-cancel-before-request",
                cfg,
                format!("cancellation for id {id} transmitted before its request"),
            ),
            _ => {}
        }
    }
    for (i, _) in &f.caller_out {
        if let Some(id) = f.id_of.get(&(*i as u32)) {
            if cancels.contains_key(id) {
                v(
                    vs,
                    "C03-R3-cancel-after-resolve",
                    cfg,
                    format!("call {i} (id {id}) resolved normally but a cancellation was transmitted"),
                );
            }
        }
    }
    let Some((q1idx, q1)) = &f.q1 else { return };
    let q1_now = q1[5];
    let dispatch_ended_before_q1 = q1[1] == 0;
    for (i, aidx) in &f.abandoned {
        if f.caller_out.contains_key(i) {
            continue;
        }
        let Some(id) = f.id_of.get(&(*i as u32)) else {
            continue;
        };
        let Some(rp) = reqpos.get(id) else { continue };
        *nt = true;
        let cancelled = cancels
            .get(id)
            .map(|c| c.iter().any(|ci| ci > rp && ci < q1idx))
            .unwrap_or(false);
        if cancelled {
            // "transmits": written is not enough on a transport that only puts on the medium what
            // it was asked to flush - by the time everything has settled the peer has it
            let delivered = e.recs[..*q1idx].iter().any(|r| matches!(r, Rec::PeerSaw { side: 0, msg: Msg::Cancel { id: cid, .. } } if cid == id));
            let transport_failed = e.recs[..*q1idx].iter().any(|r| matches!(r, Rec::T { side: 0, res: Res::Err, .. }));
            if !delivered && !transport_failed && cfg.fault.is_none() {
                v(
                    vs,
                    "C03-R4-cancel-not-delivered",
                    cfg,
                    format!("the cancellation for abandoned call {i} (id {id}) was written but never reached the peer (left unflushed with the dispatch idle)"),
                );
            }
            continue;
        }
        // end-events (weak, sound reading)
        let read = f.read.iter().any(|(ridx, rid)| rid == id && ridx < q1idx);
        let expired = req_deadline.get(id).map(|d| *d <= q1_now).unwrap_or(false);
        if read || expired || dispatch_ended_before_q1 {
            continue;
        }
        let _ = aidx;
        v(
            vs,
            "C03-R4-no-cancel",
            cfg,
            format!(
                "call {i} (id {id}) was abandoned unresolved, its request was transmitted, and no cancellation followed by quiescence"
            ),
        );
    }
    if f.abandoned.iter().any(|(i, _)| !f.caller_out.contains_key(i)) && f.parks > 0 {
        *nt = true;
    }
}

// ---------------------------------------------------------------------------------------------
// C05

fn times(recs: &[Rec]) -> Vec<(usize, i128)> {
    let mut t = vec![(0usize, 0i128)];
    for (i, r) in recs.iter().enumerate() {
        if let Rec::N("time", v) = r {
            t.push((i, v[0]));
        }
    }
    t
}
fn time_at(ts: &[(usize, i128)], idx: usize) -> i128 {
    ts.iter().rev().find(|(i, _)| *i <= idx).map(|x| x.1).unwrap_or(0)
}

fn c05(cfg: &CCfg, e: &Exec, f: &Facts, vs: &mut Vec<Violation>, nt: &mut bool) {
    panics(f, cfg, "C05-panic", vs);
    if f.horizon || f.spin || !f.panics.is_empty() {
        return;
    }
    let ts = times(&e.recs);
    let mut cancelled = BTreeSet::new();
    let mut sent_at: BTreeMap<u64, usize> = BTreeMap::new();
    for (idx, m) in &f.wire {
        match m {
            Msg::Cancel { id, .. } => {
                cancelled.insert(*id);
            }
            Msg::Req { id, .. } => {
                sent_at.insert(*id, *idx);
            }
            _ => {}
        }
    }
    for (i, c) in cfg.callers.iter().enumerate() {
        let d_ns = c.deadline_ms as i128 * 1_000_000;
        let id = f.id_of.get(&(i as u32));
        // first response the dispatch read for this id while the request was on the wire
        let first_read = id.and_then(|id| {
            f.read
                .iter()
                .find(|(ridx, rid)| rid == id && sent_at.get(id).map(|s| s < ridx).unwrap_or(false))
                .map(|(ridx, _)| *ridx)
        });
        if let Some((oidx, o, t)) = f.caller_out.get(&i) {
            // "... and never before that deadline": on a healthy connection (these configurations
            // have no faults and no hang-ups) with the dispatch running, a call does not fail with a
            // connection error either - it ends with its reply or at its deadline
            if (o == "Shutdown" || o.starts_with("Channel") || o == "Send")
                && cfg.fault.is_none()
                && f.eof_sent.is_none()
                && f.eof_read.is_none()
                && f.dispatch_done.as_ref().map(|d| d.0 > *oidx).unwrap_or(true)
                && f.dispatch_dropped.map(|d| d > *oidx).unwrap_or(true)
                && *t < d_ns
            {
                *nt = true;
                v(
                    vs,
                    "C05-failed-without-cause",
                    cfg,
                    format!("call {i} (deadline {}ms) failed with {o} at t={}ms on a healthy connection with the dispatch running", c.deadline_ms, t / 1_000_000),
                );
            }
            // "... fails with a deadline-exceeded error once its deadline passes without a reply":
            // on a healthy connection the error of a transmitted, unanswered call that ends at or
            // after its deadline is the deadline error, not a connection error (seeded change
            // C05n dropped the entries of calls sharing the expired call's deadline instant)
            if (o == "Shutdown" || o.starts_with("Channel"))
                && cfg.fault.is_none()
                && f.eof_sent.is_none()
                && f.eof_read.is_none()
                && f.dispatch_done.as_ref().map(|d| d.0 > *oidx).unwrap_or(true)
                && f.dispatch_dropped.map(|d| d > *oidx).unwrap_or(true)
                && *t >= d_ns
                && id.map(|id| sent_at.contains_key(id)).unwrap_or(false)
                && first_read.map(|r| r > *oidx).unwrap_or(true)
            {
                *nt = true;
                v(
                    vs,
                    "C05-wrong-error",
                    cfg,
                    format!("call {i} (deadline {}ms), transmitted and unanswered, ended at t={}ms with {o} on a healthy connection with the dispatch running: the error of a missed deadline is the deadline error", c.deadline_ms, t / 1_000_000),
                );
            }
            if o == "Deadline" {
                *nt = true;
                if *t < d_ns {
                    v(
                        vs,
                        "C05-early",
                        cfg,
                        format!(
                            "call {i} failed with DeadlineExceeded at t={}ms, before its deadline {}ms",
                            t / 1_000_000,
                            c.deadline_ms
                        ),
                    );
                }
                if let Some(ridx) = first_read {
                    if ridx < *oidx && time_at(&ts, ridx) < d_ns {
                        v(
                            vs,
                            "C05-reply-lost",
                            cfg,
                            format!(
                                "call {i}: a reply was read by the dispatch at t={}ms, before the deadline {}ms, yet the call failed with DeadlineExceeded",
                                time_at(&ts, ridx) / 1_000_000,
                                c.deadline_ms
                            ),
                        );
                    }
                }
            }
        }
    }
    // once a dispatch poll has run at t >= D+1ms (started after the request was transmitted) the
    // call has been failed: its task has been woken (or it has already observed the outcome)
    {
        let mut poll_start = 0usize;
        for (idx, r) in e.recs.iter().enumerate() {
            match r {
                Rec::PollStart(Task::Dispatch(_)) => poll_start = idx,
                Rec::N("snap", sn) if sn.len() >= 5 => {
                    let (now, running, woken) = (sn[2], sn[3], sn[4]);
                    if sn.get(5).copied().unwrap_or(0) != 0 {
                        continue; // the dispatch has scheduled itself again: not idle yet
                    }
                    for (i, c) in cfg.callers.iter().enumerate() {
                        let d_ns = c.deadline_ms as i128 * 1_000_000;
                        if now < d_ns + 1_000_000 || running & (1 << i) == 0 || woken & (1 << i) != 0 {
                            continue;
                        }
                        let Some(id) = f.id_of.get(&(i as u32)) else { continue };
                        let transmitted_before = sent_at.get(id).map(|s| *s < poll_start).unwrap_or(false);
                        let answered = f.read.iter().any(|(ridx, rid)| rid == id && *ridx < idx);
                        if transmitted_before && !answered && !cancelled.contains(id) {
                            *nt = true;
                            v(
                                vs,
                                "C05-expiry-not-processed",
                                cfg,
                                format!(
                                    "call {i} (deadline {}ms) was transmitted and unanswered; the dispatch was polled at t={}ms and went back to sleep without failing it",
                                    c.deadline_ms,
                                    now / 1_000_000
                                ),
                            );
                        }
                    }
                }
                _ => {}
            }
        }
    }
    // after the clock passed D+1ms and the system settled, a transmitted unanswered call has resolved
    let mut cur: Option<(usize, i128)> = None;
    for (idx, r) in e.recs.iter().enumerate() {
        match r {
            Rec::N("QD", q) | Rec::N("Q2", q) => cur = Some((idx, q[5])),
            Rec::N("QDcaller", c) | Rec::N("Q2caller", c) => {
                let Some((qidx, now)) = cur else { continue };
                let i = c[0] as usize;
                let d_ns = cfg.callers[i].deadline_ms as i128 * 1_000_000;
                if c[1] == CS_RUNNING && now > d_ns {
                    if let Some(id) = f.id_of.get(&(i as u32)) {
                        if sent_at.get(id).map(|s| *s < qidx).unwrap_or(false) {
                            v(
                                vs,
                                "C05-late",
                                cfg,
                                format!(
                                    "call {i} (deadline {}ms) transmitted and unanswered is still pending at t={}ms after the system settled",
                                    cfg.callers[i].deadline_ms,
                                    now / 1_000_000
                                ),
                            );
                        }
                    }
                }
            }
            _ => {}
        }
    }
}

// ---------------------------------------------------------------------------------------------
// C09 (client side)

fn c09(cfg: &CCfg, e: &Exec, f: &Facts, vs: &mut Vec<Violation>, nt: &mut bool) {
    panics(f, cfg, "C09-panic", vs);
    if f.spin {
        return;
    }
    if f.horizon {
        v(vs, "C09-hang", cfg, "step horizon exceeded under a transport fault".into());
        return;
    }
    if !f.panics.is_empty() {
        return;
    }
    // which fault fired first: the first transport call with Res::Err
    let mut first_err: Option<(usize, Op, Option<Msg>)> = None;
    let mut fatal: Option<(usize, &'static str)> = None;
    for (i, r) in e.recs.iter().enumerate() {
        if let Rec::T {
            side: 0,
            op,
            res: Res::Err,
            msg,
            ..
        } = r
        {
            if first_err.is_none() {
                first_err = Some((i, *op, msg.clone()));
            }
            let is_req_send = matches!((op, msg), (Op::Send, Some(Msg::Req { .. })));
            if !is_req_send && fatal.is_none() {
                fatal = Some((
                    i,
                    match op {
                        Op::Ready => "Ready",
                        Op::Send => "Write",
                        Op::Flush => "Flush",
                        Op::Close => "Close",
                        Op::Next => "Read",
                    },
                ));
            }
        }
    }
    if first_err.is_some() {
        *nt = true;
    }
    // a failed request write fails only that call with Send
    for (_, m) in &f.failed_sends {
        if let Msg::Req { payload, id, .. } = m {
            let i = *payload as usize;
            match f.caller_out.get(&i) {
                Some((_, o, _)) if o == "Send" => {}
                Some((_, o, _)) => {
                    if !f.abandoned.contains_key(&i) {
                        v(
                            vs,
                            "C09-send-fail-outcome",
                            cfg,
                            format!("writing request {id} of call {i} failed but the call resolved with {o}"),
                        )
                    }
                }
                None => {}
            }
            for (j, (_, o, _)) in &f.caller_out {
                if *j != i && o == "Send" && !f.failed_sends.iter().any(|(_, m2)| matches!(m2, Msg::Req{payload: p2, ..} if *p2 as usize == *j)) {
                    v(
                        vs,
                        "C09-send-fail-spread",
                        cfg,
                        format!("call {j} failed with Send although its own request write did not fail"),
                    );
                }
            }
        }
    }
    match (fatal, &f.dispatch_done) {
        (Some((fidx, kind)), Some((didx, out))) => {
            if didx > &fidx {
                let want = format!("Err({kind})");
                // EOF read earlier in the same run loop iteration ends the dispatch Ok
                if out != &want {
                    v(
                        vs,
                        "C09-wrong-activity",
                        cfg,
                        format!("transport failed during {kind} but the dispatch ended with {out}"),
                    );
                }
            }
        }
        (Some((_, kind)), None) => {
            if f.dispatch_dropped.is_none() {
                v(
                    vs,
                    "C09-dispatch-not-ended",
                    cfg,
                    format!("transport failed during {kind} but the dispatch never ended"),
                );
            }
        }
        (None, Some((_, out))) => {
            if out.starts_with("Err") {
                v(vs, "C09-spurious-error", cfg, format!("dispatch ended with {out} without any transport failure"));
            }
            // the dispatch closes the transport and reports how that went: it does not complete
            // cleanly while its close is still pending (a failure of that close - Close#k for
            // k > 1 - could then never be reported; seeded change C09l)
            let mut last_close: Option<Res> = None;
            for r in e.recs.iter() {
                if let Rec::T { side: 0, op: Op::Close, res, .. } = r {
                    last_close = Some(*res);
                }
            }
            if out == "Ok" && f.eof_read.is_none() && last_close == Some(Res::Pending) {
                *nt = true;
                v(vs, "C09-close-abandoned", cfg, "the dispatch completed successfully while its close of the transport was still pending: the close is never polled again, so its failure would go unreported".into());
            }
        }
        _ => {}
    }
    // every call outstanding at the fatal fault resolves with a connection error; none Ok without reply
    if let Some((fidx, _)) = fatal {
        for (i, (oidx, o, _)) in &f.caller_out {
            if *oidx < fidx {
                continue;
            }
            let ok_with_reply = (o.starts_with("Ok(") || o.starts_with("Server("))
                && f.id_of
                    .get(&(*i as u32))
                    .map(|id| f.read.iter().any(|(ridx, rid)| rid == id && ridx < oidx))
                    .unwrap_or(false);
            let conn_err = o == "Shutdown" || o.starts_with("Channel(");
            let own_send_failed = o == "Send";
            // the call may have been expired by the dispatch before it hit the failure (even in
            // the same poll): acceptable iff its deadline had passed when the failure happened
            let ts = times(&e.recs);
            let deadline_ok = o == "Deadline"
                && time_at(&ts, fidx) >= cfg.callers[*i].deadline_ms as i128 * 1_000_000;
            if !(ok_with_reply || conn_err || own_send_failed || deadline_ok) {
                v(
                    vs,
                    "C09-outcome-after-fault",
                    cfg,
                    format!("after a fatal transport failure call {i} resolved with {o}"),
                );
            }
        }
    }
    // nothing hangs
    if let Some(_) = &f.q2 {
        for (i, (st, _)) in &f.q2c {
            if *st == CS_RUNNING || *st == CS_WAITING {
                v(vs, "C09-hang", cfg, format!("call {i} still pending at final quiescence"));
            }
        }
    }
    // with the fatal fault, at Q1 (clock frozen) nobody is still waiting: fail fast
    if fatal.is_some() {
        if let Some((q1idx, _)) = &f.q1 {
            if fatal.unwrap().0 < *q1idx {
                for (i, (st, polls)) in &f.q1c {
                    if *st == CS_RUNNING && *polls > 0 {
                        v(
                            vs,
                            "C09-not-failed-fast",
                            cfg,
                            format!("call {i} still pending at quiescence after the connection failed (would wait for its deadline)"),
                        );
                    }
                }
            }
        }
    }
}

// ---------------------------------------------------------------------------------------------
// C10 (client side)

fn c10(cfg: &CCfg, e: &Exec, f: &Facts, vs: &mut Vec<Violation>, nt: &mut bool) {
    panics(f, cfg, "C10-panic", vs);
    if f.horizon || f.spin || !f.panics.is_empty() {
        return;
    }
    let mut close_calls = vec![];
    let mut close_ok = 0;
    let mut any_err = false;
    for (i, r) in e.recs.iter().enumerate() {
        if let Rec::T { side: 0, op, res, .. } = r {
            if *res == Res::Err {
                any_err = true;
            }
            if *op == Op::Close {
                close_calls.push(i);
                if *res == Res::Ok {
                    close_ok += 1;
                }
            }
        }
    }
    if any_err {
        return;
    }
    if let Some(first_close) = close_calls.first() {
        for (idx, m) in &f.wire {
            if idx > first_close {
                v(vs, "C10-write-after-close", cfg, format!("{m:?} written after the transport was closed"));
            }
        }
    }
    if close_ok > 1 {
        v(vs, "C10-closed-twice", cfg, format!("{close_ok} successful closes"));
    }
    // Every handle is gone by Q1 (no caller is left, no other handle is kept) and nothing went
    // wrong on the transport: shutting down needs no timer - what is queued is transmitted, the
    // write side is closed and the dispatch has completed while the clock stood still.
    if let Some((_, q1)) = &f.q1 {
        let all_ended = !f.q1c.is_empty() && f.q1c.values().all(|(st, _)| *st == CS_DONE || *st == CS_ABANDONED);
        let dispatch_alive = q1[1] != 0;
        if all_ended && !cfg.keep_root && dispatch_alive && f.eof_read.is_none() && f.dispatch_dropped.is_none() && cfg.fault.is_none() {
            *nt = true;
            v(
                vs,
                "C10-shutdown-waits",
                cfg,
                "every client handle has been dropped and everything has settled, yet the dispatch has not completed (it is waiting for something other than the transport: a reply or a timer)".into(),
            );
        }
    }
    // the peer ended the read side and the dispatch has not even looked (an idle connection,
    // nothing in flight): it must stop all the same
    // (judged at the first quiescent point: also the one reached while the peer is not reading what
    // the client wrote - the dispatch stops "promptly", it does not wait for a flush to go through)
    for (sidx, (q1idx, q)) in f.eof_sent.iter().flat_map(|s| f.q0.iter().chain(f.q1.iter()).map(move |q| (s, q))) {
        let not_before_q1 = |x: Option<usize>| x.map(|i| i > *q1idx).unwrap_or(true);
        if sidx < q1idx
            && q[1] != 0
            && not_before_q1(f.dispatch_done.as_ref().map(|d| d.0))
            && not_before_q1(f.dispatch_dropped)
            && f.panics.is_empty()
            && !f.spin
        {
            *nt = true;
            v(vs, "C10-eof-not-prompt", cfg, format!("the peer closed the read side, nothing is woken, the clock has not moved, and the dispatch is still running ({})", if not_before_q1(f.eof_read) { "it has not looked at the read side since" } else { "it has read the end-of-stream and is waiting for something else" }));
        }
    }
    match (&f.eof_read, &f.dispatch_done, &f.dispatch_dropped) {
        (Some(eidx), done, None) => {
            *nt = true;
            // "promptly": by the time the system is quiescent with the clock still frozen the
            // dispatch has stopped (it normally stops in the very poll that read end-of-stream; an
            // implementation that needs one more self-scheduled poll would be just as prompt)
            if let Some((q1idx, q)) = &f.q1 {
                if eidx < q1idx && q[1] != 0 {
                    v(vs, "C10-eof-not-prompt", cfg, "the peer closed the read side, nothing is woken, the clock has not moved, and the dispatch is still running".into());
                }
            }
            if let Some((_, out)) = done {
                if out != "Ok" {
                    v(vs, "C10-eof-outcome", cfg, format!("peer close ended the dispatch with {out}"));
                }
            }
            // every outstanding call has failed by Q1 (clock frozen)
            if let Some((q1idx, _)) = &f.q1 {
                if eidx < q1idx {
                    for (i, (st, polls)) in &f.q1c {
                        if *st == CS_RUNNING && *polls > 0 {
                            v(
                                vs,
                                "C10-eof-call-hangs",
                                cfg,
                                format!("call {i} still pending at quiescence after the peer closed"),
                            );
                        }
                    }
                }
            }
        }
        (None, Some((didx, out)), None) => {
            // ended because the last handle was dropped
            *nt = true;
            if out != "Ok" {
                v(vs, "C10-drop-outcome", cfg, format!("dispatch ended with {out} after the last handle was dropped"));
            }
            if close_ok != 1 {
                v(vs, "C10-no-close", cfg, format!("dispatch completed with {close_ok} successful closes of the write side"));
            }
            // owed cancels precede the close: every abandoned, transmitted, un-ended call
            let first_close = close_calls.first().copied().unwrap_or(*didx);
            let mut cancels = BTreeSet::new();
            let mut reqpos = BTreeMap::new();
            let mut req_deadline = BTreeMap::new();
            for (idx, m) in &f.wire {
                match m {
                    Msg::Cancel { id, .. } if idx < &first_close => {
                        cancels.insert(*id);
                    }
                    Msg::Req { id, deadline_ns, .. } => {
                        reqpos.insert(*id, *idx);
                        req_deadline.insert(*id, *deadline_ns);
                    }
                    _ => {}
                }
            }
            let ts = times(&e.recs);
            let t_close = time_at(&ts, first_close);
            for (i, _) in &f.abandoned {
                if f.caller_out.contains_key(i) {
                    continue;
                }
                let Some(id) = f.id_of.get(&(*i as u32)) else { continue };
                if !reqpos.contains_key(id) {
                    continue;
                }
                let read = f.read.iter().any(|(ridx, rid)| rid == id && *ridx < first_close);
                let expired = req_deadline.get(id).map(|d| *d <= t_close).unwrap_or(false);
                if !cancels.contains(id) && !read && !expired {
                    v(
                        vs,
                        "C10-close-before-cancel",
                        cfg,
                        format!("the write side was closed before the cancellation owed for abandoned call {i} (id {id}) was transmitted"),
                    );
                }
            }
        }
        _ => {}
    }
}

// ---------------------------------------------------------------------------------------------
// C11 (client side)

fn c11(cfg: &CCfg, e: &Exec, f: &Facts, vs: &mut Vec<Violation>, nt: &mut bool) {
    panics(f, cfg, "C11-panic", vs);
    if f.horizon || f.spin || !f.panics.is_empty() {
        return;
    }
    // wire-derived outstanding count, maintained along the log
    let mut outstanding: BTreeSet<u64> = BTreeSet::new();
    let mut deadlines: BTreeMap<u64, i128> = BTreeMap::new();
    let mut fatal = false;
    let mut ever = 0;
    for r in &e.recs {
        match r {
            Rec::T { side: 0, op: Op::Send, res: Res::Ok, msg: Some(m), .. } => match m {
                Msg::Req { id, deadline_ns, .. } => {
                    outstanding.insert(*id);
                    deadlines.insert(*id, *deadline_ns);
                    ever += 1;
                }
                Msg::Cancel { id, .. } => {
                    outstanding.remove(id);
                }
                _ => {}
            },
            Rec::T { side: 0, op: Op::Next, res: Res::Item, msg: Some(m), .. } => {
                outstanding.remove(&m.id());
            }
            Rec::T { side: 0, op, res: Res::Err, msg, .. } => {
                match (op, msg) {
                    // a failed request write ends only that request
                    (Op::Send, Some(Msg::Req { id, .. })) => {
                        outstanding.remove(id);
                    }
                    // anything else is fatal: the dispatch fails every call and forgets them
                    _ => fatal = true,
                }
            }
            Rec::N("snap", _) if fatal => {}
            Rec::N("snap", s) => {
                let (inf, _tim, now) = (s[0], s[1], s[2]);
                if inf > cfg.max_in_flight as i128 {
                    v(
                        vs,
                        "C11-over-max",
                        cfg,
                        format!("{inf} requests tracked in flight, maximum is {}", cfg.max_in_flight),
                    );
                }
                // requests whose deadline has not passed are certainly unfinished
                let live = outstanding.iter().filter(|id| deadlines[*id] > now).count() as i128;
                if live > cfg.max_in_flight as i128 {
                    v(
                        vs,
                        "C11-wire-over-max",
                        cfg,
                        format!("{live} transmitted-and-unfinished requests on the wire, maximum is {}", cfg.max_in_flight),
                    );
                }
                if inf > outstanding.len() as i128 {
                    v(
                        vs,
                        "C11-tracked-more-than-wire",
                        cfg,
                        format!("{inf} tracked but only {} transmitted and unfinished", outstanding.len()),
                    );
                }
                if inf < live {
                    v(
                        vs,
                        "C11-tracked-less-than-wire",
                        cfg,
                        format!("{inf} tracked but {live} transmitted, unanswered, uncancelled and unexpired"),
                    );
                }
            }
            _ => {}
        }
    }
    if ever >= 2 {
        *nt = true;
    }
    if let Some((_, q)) = &f.q1 {
        let alive = q[1] != 0;
        let all_ended = f.q1c.values().all(|(st, _)| *st == CS_DONE || *st == CS_ABANDONED);
        if alive && all_ended && (q[2] != 0 || q[3] != 0) {
            v(
                vs,
                "C11-not-reclaimed",
                cfg,
                format!(
                    "all calls resolved or dropped, clock stopped, yet {} requests and {} deadline timers are still tracked",
                    q[2], q[3]
                ),
            );
        }
    }
    // the state the dispatch finished with
    for r in &e.recs {
        if let Rec::N("snap_final", s) = r {
            if f.dispatch_done.as_ref().map(|d| d.1 == "Ok").unwrap_or(false)
                && f.eof_read.is_none()
                && (s[0] != 0 || s[1] != 0)
            {
                v(
                    vs,
                    "C11-finished-with-state",
                    cfg,
                    format!("dispatch completed normally with {} requests and {} timers tracked", s[0], s[1]),
                );
            }
        }
    }
}

// ---------------------------------------------------------------------------------------------
// C14: sink/stream contract monitor over the call log of one transport

pub fn c14(
    side: u8,
    owner: Task,
    flavour: Flavour,
    recs: &[Rec],
    vs: &mut Vec<Violation>,
    nt: &mut bool,
) {
    let _ = flavour;
    let mut credit = false;
    let mut closed_called = false;
    let mut sink_err = false;
    let mut write_err = false;
    let mut unflushed = 0u32;
    let mut read_eof = false;
    let mut last_flush_pending_after_write = false;
    let mut saw_pending = false;
    let mk = |rule: &str, msg: String| Violation {
        signature: rule.to_string(),
        message: msg,
    };
    for r in recs {
        match r {
            Rec::S("spin", who) => {
                vs.push(mk(
                    &format!("C14-iv-spin-{who}"),
                    format!("{who}: the transport said not-ready and was retried >1000 times inside one poll instead of returning to the executor"),
                ));
                return;
            }
            Rec::S("horizon", _) => {
                // "... they return control to the executor and wait to be woken": a task that wakes
                // itself every time the transport says not-ready is retrying through the executor,
                // for as long as the peer leaves the transport full
                let pend = recs.iter().filter(|r| matches!(r, Rec::T { side: s, op: Op::Ready, res: Res::Pending, .. } if *s == side)).count();
                if pend > 100 {
                    vs.push(mk(
                        "C14-iv-spin-through-executor",
                        format!("{owner:?}: the transport said not-ready {pend} times and the task was runnable again every time without the transport having woken it: it never waits"),
                    ));
                    return;
                }
            }
            Rec::S("panic", p) => {
                vs.push(mk("C14-panic", format!("panic: {p}")));
                return;
            }
            Rec::T { side: s, op, res, msg, .. } if *s == side => match op {
                Op::Ready => {
                    if *res == Res::Ok {
                        credit = true;
                    }
                    if *res == Res::Pending {
                        saw_pending = true;
                    }
                    if *res == Res::Err {
                        sink_err = true;
                    }
                }
                Op::Send => {
                    if !credit {
                        vs.push(mk(
                            "C14-i-send-without-ready",
                            format!("{msg:?} written without the transport having reported readiness for it"),
                        ));
                    }
                    if closed_called {
                        vs.push(mk("C14-ii-send-after-close", format!("{msg:?} written after close")));
                    }
                    if sink_err {
                        vs.push(mk(
                            "C14-ii-send-after-error",
                            format!("{msg:?} written after the transport reported a readiness/flush/close failure"),
                        ));
                    }
                    credit = false;
                    if *res == Res::Ok {
                        unflushed += 1;
                        last_flush_pending_after_write = false;
                    }
                    if *res == Res::Err {
                        // the transport failed while writing: nothing more can be flushed (this
                        // does not forbid later writes - rule ii names readiness/flush/close only)
                        write_err = true;
                    }
                }
                Op::Flush => match res {
                    Res::Ok => {
                        unflushed = 0;
                    }
                    Res::Pending => {
                        last_flush_pending_after_write = true;
                        saw_pending = true;
                    }
                    Res::Err => sink_err = true,
                    _ => {}
                },
                Op::Close => {
                    closed_called = true;
                    match res {
                        Res::Ok => unflushed = 0,
                        Res::Pending => last_flush_pending_after_write = true,
                        Res::Err => sink_err = true,
                        _ => {}
                    }
                }
                Op::Next => {
                    if *res == Res::Eof {
                        read_eof = true;
                    }
                }
            },
            Rec::PeerSaw { .. } => {}
            Rec::S("stream_end", _) if matches!(owner, Task::Stream(_)) => {
                if unflushed > 0 && !sink_err && !write_err {
                    vs.push(mk(
                        "C14-iii-finished-unflushed",
                        format!("{owner:?} ended with {unflushed} written items neither flushed nor closed"),
                    ));
                }
            }
            Rec::PollEnd(t, ready) if *t == owner => {
                if !*ready && unflushed > 0 && !last_flush_pending_after_write && !sink_err && !write_err {
                    vs.push(mk(
                        "C14-iii-idle-unflushed",
                        format!("{owner:?} returned Pending with {unflushed} written items not flushed and no flush pending"),
                    ));
                }
                // A client dispatch that ends because the peer ended its read side must stop
                // promptly (C10); it is not asked to wait for a flush that may never complete.
                let terminal = *ready && !matches!(owner, Task::Stream(_)) && !read_eof;
                if terminal && unflushed > 0 && !sink_err && !write_err {
                    vs.push(mk(
                        "C14-iii-finished-unflushed",
                        format!("{owner:?} completed with {unflushed} written items neither flushed nor closed"),
                    ));
                }
            }
            _ => {}
        }
    }
    *nt = saw_pending;
}

// ---------------------------------------------------------------------------------------------
// C18 (client side, no-subscriber regime)

fn c18(cfg: &CCfg, e: &Exec, f: &Facts, vs: &mut Vec<Violation>, nt: &mut bool) {
    let _ = e;
    panics(f, cfg, "C18-panic", vs);
    let mut reqs: BTreeMap<u64, (u128, u64, bool)> = BTreeMap::new();
    for (_, m) in f.wire.iter().chain(f.failed_sends.iter()) {
        match m {
            Msg::Req { id, payload, tid, sid, sampled, .. } => {
                let i = *payload as usize;
                let want_tid = caller_tid(i);
                let want_sampled = cfg.callers.get(i).map(|c| c.sampled).unwrap_or(false);
                if *tid != want_tid || *sampled != want_sampled {
                    v(
                        vs,
                        "C18-request-trace",
                        cfg,
                        format!("request of call {i} transmitted with trace id {tid:x}/sampled {sampled}, caller supplied {want_tid:x}/{want_sampled}"),
                    );
                }
                if *sid == 7000 + i as u64 {
                    v(vs, "C18-span-not-fresh", cfg, format!("request of call {i} reuses the caller's span id"));
                }
                reqs.insert(*id, (*tid, *sid, *sampled));
            }
            Msg::Cancel { id, tid, sid, sampled } => {
                *nt = true;
                match reqs.get(id) {
                    Some(r) if *r == (*tid, *sid, *sampled) => {}
                    other => v(
                        vs,
                        "C18-cancel-trace",
                        cfg,
                        format!("cancellation for id {id} carries ({tid:x},{sid:x},{sampled}), its request carried {other:?}"),
                    ),
                }
            }
            _ => {}
        }
    }
    if reqs.len() >= 2 {
        *nt = true;
    }
}

// ---------------------------------------------------------------------------------------------
// configurations

fn base(callers: Vec<CallerCfg>, mif: usize, buf: usize, fl: Flavour, cap: usize, alphabet: u32) -> CCfg {
    CCfg {
        callers,
        max_in_flight: mif,
        buffer: buf,
        flavour: fl,
        cap,
        alphabet,
        fault: None,
        keep_root: false,
        abandon_by_unwind: false,
        start_age_ms: 0,
    }
}

fn policies(n: usize) -> Vec<Vec<bool>> {
    (0..(1u32 << n))
        .map(|m| (0..n).map(|i| m & (1 << i) != 0).collect())
        .collect()
}

pub fn configs(prop: CProp, tier: Tier) -> Vec<CCfg> {
    let mut out = Vec::new();
    let thorough = tier == Tier::Thorough;
    let transports: &[(Flavour, usize)] = &[(Flavour::Always, 1), (Flavour::Coupled, 1), (Flavour::FlushFrees, 1)];
    match prop {
        CProp::C01 => {
            let alpha = A_REPLY_UNOWED | A_DUP | A_UNKNOWN | A_ABANDON | A_ADVANCE;
            for n in 1..=3usize {
                for handle in [Handle::Own, Handle::Shared, Handle::CloneOfClone] {
                    for mif in 1..=n.min(3) {
                        for buf in [1usize, 2] {
                            if !thorough && buf == 2 && n == 3 {
                                continue;
                            }
                            for (errs, dl) in [(false, 10_000i64), (true, 50)] {
                                let callers = (0..n)
                                    .map(|i| CallerCfg {
                                        handle,
                                        reply_err: errs && i == 0,
                                        deadline_ms: if i == n - 1 { dl } else { 10_000 },
                                        ..CallerCfg::simple(true)
                                    })
                                    .collect();
                                out.push(base(callers, mif, buf, Flavour::Always, 1, alpha));
                            }
                        }
                    }
                }
            }
            // one unanswered call next to answered ones, coupled transport
            for n in 2..=3usize {
                let mut callers: Vec<CallerCfg> = (0..n).map(|_| CallerCfg::simple(true)).collect();
                callers[0].answered = false;
                callers[0].deadline_ms = 50;
                out.push(base(callers, n, 1, Flavour::Coupled, 1, alpha | A_DRAIN));
            }
            // a call whose deadline lies beyond the timers' range (1100 days, 30 years) is answered like
            // any other
            for far in [1100i64, 10_950] {
                for n in 1..=2usize {
                    let mut callers: Vec<CallerCfg> = (0..n).map(|_| CallerCfg::simple(true)).collect();
                    callers[n - 1].deadline_ms = far * 86_400_000;
                    // (no clock steps: a step of years with a request in flight and its woken
                    // dispatch not polled is not an environment any executor produces)
                    out.push(base(callers, 2, 1, Flavour::Always, 1, alpha & !A_ADVANCE));
                }
            }
            // a call made on a connection that is more than a day old while an older call is still in
            // flight is answered like any other (seeded change C01l replaced the deadline queue of a
            // BUSY old connection, so that timer keys of old and new calls aliased)
            {
                let h = 3_600_000i64;
                let callers = vec![
                    CallerCfg { deadline_ms: 26 * h, ..CallerCfg::simple(false) },
                    CallerCfg { deadline_ms: 27 * h, after: Some(2), ..CallerCfg::simple(true) },
                    CallerCfg { deadline_ms: 25 * h, ..CallerCfg::simple(false) },
                ];
                out.push(base(callers, 3, 1, Flavour::Always, 1, alpha & !A_ADVANCE));
            }
            // a connection that goes idle between two calls: an unsolicited frame that arrives then
            // (possibly bearing the id the next call will be given) is gone when the next call is made
            for handle in [Handle::Own, Handle::Shared] {
                for (fl, third) in [(Flavour::Always, false), (Flavour::Coupled, false), (Flavour::Always, true)] {
                    let mut callers: Vec<CallerCfg> = (0..if third { 3 } else { 2 }).map(|_| CallerCfg { handle, ..CallerCfg::simple(true) }).collect();
                    callers[1].after = Some(0);
                    if third {
                        callers[2].after = Some(1);
                    }
                    out.push(base(callers, 2, 1, fl, 1, alpha));
                }
            }
            // handle topologies: the original handle, a clone of it that has itself been cloned,
            // and that grandchild, each making a call (seeded change C01d: per-handle id blocks
            // that overlap for a clone of a clone)
            for hs in [
                vec![Handle::Root, Handle::Middle],
                vec![Handle::Middle, Handle::Root],
                vec![Handle::Root, Handle::Middle, Handle::Grand],
                vec![Handle::Grand, Handle::Middle, Handle::Root],
                vec![Handle::Middle, Handle::Grand],
                vec![Handle::Root, Handle::Own, Handle::CloneOfClone],
            ] {
                for mif in [1usize, 3] {
                    for scripted in [false, true] {
                        let mut callers: Vec<CallerCfg> = hs.iter().map(|h| CallerCfg { handle: *h, ..CallerCfg::simple(true) }).collect();
                        if scripted {
                            // the first call is abandoned after it was transmitted and answered late
                            callers[0].script = Script::AbandonAfter(2);
                        }
                        out.push(base(callers, mif, 1, Flavour::Always, 1, alpha));
                    }
                }
            }
        }
        CProp::C02 => {
            let alpha = A_REPLY_UNOWED | A_ABANDON | A_DRAIN | A_EOF | A_RERR | A_ADVANCE | A_DROPDISPATCH;
            let mut tr = vec![(Flavour::Always, 1), (Flavour::Coupled, 1), (Flavour::Coupled, 2)];
            tr.push((Flavour::Indep, 1));
            tr.push((Flavour::FlushFrees, 1));
            for n in 1..=3usize {
                for mif in 1..=2usize.min(n) {
                    for buf in [1usize, 2] {
                        for (fl, cap) in &tr {
                            for pol in policies(n) {
                                if !thorough && n == 3 && (buf == 2 || pol.iter().filter(|b| !**b).count() > 1) {
                                    continue;
                                }
                                for dl in [10_000i64, 50] {
                                    let callers = pol
                                        .iter()
                                        .map(|a| CallerCfg { deadline_ms: dl, ..CallerCfg::simple(*a) })
                                        .collect();
                                    out.push(base(callers, mif, buf, *fl, *cap, alpha));
                                }
                            }
                        }
                    }
                }
            }
            // a socket whose bytes move only inside flushing calls: when the medium is writable
            // again the dispatch is woken and has to flush AGAIN for the request to leave
            // (seeded change C02m flushed only in polls that had written something)
            for n in 1..=2usize {
                for mif in 1..=n {
                    for cap in [1usize, 2] {
                        for pol in policies(n) {
                            for dl in [10_000i64, 50] {
                                let callers = pol.iter().map(|a| CallerCfg { deadline_ms: dl, ..CallerCfg::simple(*a) }).collect();
                                out.push(base(callers, mif, 1, Flavour::Socket, cap, alpha));
                            }
                        }
                    }
                }
            }
            // in-flight limit 2 reached by a short-deadline call and a long one, a third call
            // queued behind the limit: whichever way the short one ends (expiry, abandonment
            // before or after its deadline) the queued call gets its slot
            // (seeded change C02g freed the slot of a call abandoned after its deadline without
            // letting the write pump run again)
            for (fl, cap) in [(Flavour::Always, 1usize), (Flavour::Coupled, 1)] {
                for third_answered in [true, false] {
                    let callers = vec![
                        CallerCfg { deadline_ms: 50, ..CallerCfg::simple(false) },
                        CallerCfg { deadline_ms: 10_000, ..CallerCfg::simple(false) },
                        CallerCfg { deadline_ms: 10_000, ..CallerCfg::simple(third_answered) },
                    ];
                    out.push(base(callers, 2, 1, fl, cap, A_ABANDON | A_ADVANCE | A_DRAIN));
                }
            }
            // at the in-flight limit (2) with an old call outstanding: a late reply for an abandoned call
            // and the reply that frees a slot are read in one poll of the dispatch - the queued call
            // goes out in that poll (seeded change C02k did not run a pump again within one poll once
            // it had returned Pending)
            for (fl, cap) in [(Flavour::Always, 1usize), (Flavour::Coupled, 1)] {
                for buf in [1usize, 2] {
                    let callers = vec![
                        CallerCfg { deadline_ms: 10_000, ..CallerCfg::simple(false) },
                        CallerCfg { script: Script::AbandonOnceSent, deadline_ms: 20_000, ..CallerCfg::simple(false) },
                        CallerCfg { deadline_ms: 20_000, ..CallerCfg::simple(true) },
                        CallerCfg { deadline_ms: 20_000, ..CallerCfg::simple(true) },
                    ];
                    out.push(base(callers, 2, buf, fl, cap, A_REPLY_UNOWED | A_DRAIN));
                }
            }
            // the transport refuses one request (the one fault that does not end the connection): that
            // call fails, the requests queued behind it and made after it go out all the same (seeded
            // changes C02j / C09j let the write pump report "nothing to do" after the refusal, with no
            // waker left on the request queue)
            for (fl, cap) in [(Flavour::Always, 1usize), (Flavour::Coupled, 1)] {
                for n in 2..=3usize {
                    for k in 1..=2u32 {
                        for buf in [1usize, 2] {
                            let mut callers: Vec<CallerCfg> = (0..n).map(|_| CallerCfg::simple(true)).collect();
                            if n == 3 {
                                callers[2].after = Some(0);
                            }
                            let mut c = base(callers, 2, buf, fl, cap, A_DRAIN);
                            c.fault = Some(Fault { op: Op::Send, k, sticky: false, eof: false });
                            out.push(c);
                        }
                    }
                }
            }
            // at the in-flight limit (1): a queued call gives up (a cancellation for an id that is not
            // in flight - nothing to do), then the call in flight is abandoned: that cancellation
            // wakes the dispatch, frees the slot, the third call goes out (seeded change C02i took the
            // first cancellation for "the queue is closed" and stopped listening to it)
            for (fl, cap) in [(Flavour::Always, 1usize), (Flavour::Coupled, 1)] {
                for buf in [1usize, 2] {
                    let callers = vec![
                        CallerCfg { deadline_ms: 10_000, ..CallerCfg::simple(false) },
                        CallerCfg { script: Script::AbandonAfter(1), ..CallerCfg::simple(false) },
                        CallerCfg { deadline_ms: 10_000, ..CallerCfg::simple(true) },
                    ];
                    out.push(base(callers, 1, buf, fl, cap, A_ABANDON | A_DRAIN));
                }
            }
            // kept root handle, sequential reuse
            for (fl, cap) in &tr {
                let mut callers: Vec<CallerCfg> = (0..3).map(|_| CallerCfg::simple(true)).collect();
                callers[2].after = Some(0);
                let mut c = base(callers, 1, 1, *fl, *cap, alpha | A_DROPROOT);
                c.keep_root = true;
                out.push(c);
            }
        }
        CProp::C03 | CProp::C18 => {
            let alpha = A_REPLY_UNOWED | A_ABANDON | A_PARK | A_DRAIN;
            for n in 1..=3usize {
                for mif in 1..=3usize {
                    if mif == 3 && n != 2 {
                        continue;
                    }
                    for buf in [1usize, 2] {
                        for (fl, cap) in transports {
                            for pol in policies(n) {
                                if n == 3 && pol.iter().filter(|b| !**b).count() > 1 && !thorough {
                                    continue;
                                }
                                // free exploration of abandonment points
                                let callers: Vec<CallerCfg> = pol
                                    .iter()
                                    .enumerate()
                                    .map(|(i, a)| CallerCfg { sampled: i % 2 == 1, ..CallerCfg::simple(*a) })
                                    .collect();
                                out.push(base(callers.clone(), mif, buf, *fl, *cap, alpha));
                                if n <= 2 && mif <= 2 && buf == 1 {
                                    // the guard's drop also runs when a call completes: park there too
                                    out.push(base(callers.clone(), mif, buf, *fl, *cap, alpha | A_PARKPOLL));
                                }
                                // scripted abandonment of one caller after k polls (costs no deviation)
                                if n <= 2 || thorough {
                                    for who in 0..n {
                                        for k in 0..=2u32 {
                                            let mut cs = callers.clone();
                                            cs[who].script = Script::AbandonAfter(k);
                                            out.push(base(cs, mif, buf, *fl, *cap, alpha));
                                        }
                                    }
                                }
                            }
                        }
                    }
                }
            }
            // the abandoned call is the last one in flight while a handle stays alive (so the
            // dispatch goes idle instead of shutting down), over transports that only transmit
            // what was flushed (seeded change C03g skipped the idle flush with nothing in flight)
            if prop == CProp::C03 {
                for (fl, cap) in [(Flavour::Coupled, 1usize), (Flavour::Coupled, 2), (Flavour::FlushFrees, 2)] {
                    for n in 1..=2usize {
                        let mut callers: Vec<CallerCfg> = (0..n).map(|_| CallerCfg::simple(true)).collect();
                        callers[n - 1].answered = false;
                        let mut c = base(callers, 2, 1, fl, cap, alpha);
                        c.keep_root = true;
                        out.push(c);
                    }
                }
            }
            // the task that owns a call panics: its call future is dropped while the thread is
            // unwinding - an abandoned call like any other (seeded change C03l skipped the guard's
            // notice on that path)
            if prop == CProp::C03 {
                for (fl, cap) in [(Flavour::Always, 1usize), (Flavour::Coupled, 1)] {
                    for n in 1..=2usize {
                        let mut callers: Vec<CallerCfg> = (0..n).map(|_| CallerCfg::simple(true)).collect();
                        callers[0].answered = false;
                        let mut c = base(callers, 2, 1, fl, cap, A_ABANDON | A_REPLY_UNOWED | A_DRAIN);
                        c.keep_root = true;
                        c.abandon_by_unwind = true;
                        out.push(c);
                    }
                }
            }
            // the caller lives on another thread: it may drop its call while the dispatch is inside the
            // transport's start_send for that very request (a yield point at the start of the mock's
            // start_send; seeded change C03j tracked a request only after the write and skipped the
            // ones whose caller had gone meanwhile - transmitted, never cancelled)
            if prop == CProp::C03 {
                for (fl, cap) in [(Flavour::Always, 1usize), (Flavour::Coupled, 1)] {
                    for n in 1..=2usize {
                        let mut callers: Vec<CallerCfg> = (0..n).map(|_| CallerCfg::simple(true)).collect();
                        callers[0].answered = false;
                        let mut c = base(callers, 2, 1, fl, cap, A_ABANDON | A_PARKSEND | A_DRAIN);
                        c.keep_root = true;
                        out.push(c);
                    }
                }
            }
            // the abandoned call's deadline is far beyond what the deadline timers support
            // (10 years): it is cancelled like any other (seeded change C03f armed no timer for
            // such a call and then lost its cancellation)
            if prop == CProp::C03 {
                for (fl, cap) in [(Flavour::Always, 1usize), (Flavour::Coupled, 1)] {
                    for n in 1..=2usize {
                        for k in 1..=2u32 {
                            let mut callers: Vec<CallerCfg> = (0..n).map(|_| CallerCfg::simple(true)).collect();
                            callers[0].answered = false;
                            callers[0].deadline_ms = 3650 * 86_400_000;
                            callers[0].script = Script::AbandonAfter(k);
                            // (another handle stays alive, so the dispatch keeps running after
                            // the abandonment instead of shutting the connection down)
                            let mut c = base(callers, 2, 1, fl, cap, alpha);
                            c.keep_root = true;
                            out.push(c);
                        }
                    }
                }
            }
            // transient transport faults around the cancellation: a Cancel whose write fails was
            // not transmitted - either the connection is then reported lost or it is sent again
            // (seeded change C03d: the write error was swallowed and the dispatch carried on)
            if prop == CProp::C03 {
                for (fl, cap) in [(Flavour::Always, 1usize), (Flavour::Coupled, 1)] {
                    for n in 1..=2usize {
                        for op in [Op::Send, Op::Ready, Op::Flush] {
                            for k in 1..=4u32 {
                                let mut callers: Vec<CallerCfg> = (0..n).map(|_| CallerCfg::simple(false)).collect();
                                callers[0].script = Script::AbandonAfter(2);
                                let mut c = base(callers, 2, 1, fl, cap, alpha);
                                c.fault = Some(Fault { op, k, sticky: false, eof: false });
                                out.push(c);
                            }
                        }
                    }
                }
            }
        }
        CProp::C05 => {
            // a caller may also give up at any point: the timer of an abandoned call must not
            // disturb the expiry of the others (found missing by seeded change C05c)
            let alpha = A_ADVANCE | A_REPLY_UNOWED | A_DRAIN | A_ABANDON;
            // (beyond the timers' range too: 1100 days, 30 years - the call is answered all the same;
            // seeded change C01j armed no timer for such a call and lost its reply)
            let ds: &[i64] = &[-1000, 0, 1, 50, 1000, 10_000, 700 * 86_400_000, 1100 * 86_400_000, 10_950 * 86_400_000];
            let span_ms = 730 * 86_400_000i64;
            // several unanswered calls made with ONE context (the very same deadline instant, as in
            // a join_all over a shared context): each of them fails with the deadline error at that
            // instant (seeded change C05n failed the first and dropped its siblings' entries, which
            // their callers see as a shut-down connection)
            for (fl, cap) in [(Flavour::Always, 1usize), (Flavour::Coupled, 1)] {
                for n in 2..=3usize {
                    for dl in [1i64, 50] {
                        for answered_last in [false, true] {
                            let mut callers: Vec<CallerCfg> = (0..n).map(|_| CallerCfg { deadline_ms: dl, ..CallerCfg::simple(false) }).collect();
                            callers[n - 1].answered = answered_last;
                            out.push(base(callers, 3, 3, fl, cap, A_ADVANCE | A_DRAIN));
                        }
                    }
                }
            }
            for (fl, cap) in transports {
                for mif in 1..=2usize {
                    for d0 in ds {
                        if *d0 > span_ms {
                            // beyond the supported span the timer is capped (DESIGN.md section 7), so
                            // "never early" is not claimed and the clock is not stepped by years with
                            // a request in flight; what is claimed is that the call is answered
                            out.push(base(
                                vec![CallerCfg { deadline_ms: *d0, ..CallerCfg::simple(true) }],
                                mif, 1, *fl, *cap, alpha & !A_ADVANCE,
                            ));
                            continue;
                        }
                        for ans in [true, false] {
                            out.push(base(
                                vec![CallerCfg { deadline_ms: *d0, ..CallerCfg::simple(ans) }],
                                mif, 1, *fl, *cap, alpha,
                            ));
                        }
                        // the peer answers with an application error (whose kind says TimedOut):
                        // it is a reply like any other and wins against the deadline
                        out.push(base(
                            vec![CallerCfg { deadline_ms: *d0, reply_err: true, ..CallerCfg::simple(true) }],
                            mif, 1, *fl, *cap, alpha,
                        ));
                        for d1 in [1i64, 50, 10_000] {
                            if !thorough && *d0 > 1000 {
                                continue;
                            }
                            for (a0, a1) in [(false, false), (true, false), (false, true)] {
                                out.push(base(
                                    vec![
                                        CallerCfg { deadline_ms: *d0, ..CallerCfg::simple(a0) },
                                        CallerCfg { deadline_ms: d1, ..CallerCfg::simple(a1) },
                                    ],
                                    mif, 1, *fl, *cap, alpha,
                                ));
                            }
                            // the connection has been open and idle for two days / 800 days
                            // before the first call (the timer queue of an idle connection is
                            // renewed; seeded change C05d capped the first timer after an idle
                            // period by the old queue's age)
                            if *d0 >= 0 && *d0 <= 10_000 && d1 == 50 {
                                for age_days in [2i64, 800] {
                                    let age = age_days * 86_400_000;
                                    for ans in [false, true] {
                                        let mut c = base(
                                            vec![
                                                CallerCfg { deadline_ms: age + *d0, ..CallerCfg::simple(ans) },
                                                CallerCfg { deadline_ms: age + 729 * 86_400_000, ..CallerCfg::simple(true) },
                                            ],
                                            mif, 1, *fl, *cap, alpha,
                                        );
                                        c.start_age_ms = age;
                                        out.push(c);
                                    }
                                }
                            }
                            // one of the two is abandoned after its request went out, the other
                            // waits for its own deadline
                            for who in 0..2usize {
                                let mut cs = vec![
                                    CallerCfg { deadline_ms: *d0, ..CallerCfg::simple(false) },
                                    CallerCfg { deadline_ms: d1, ..CallerCfg::simple(false) },
                                ];
                                cs[who].script = Script::AbandonAfter(2);
                                out.push(base(cs, mif, 1, *fl, *cap, alpha));
                            }
                        }
                    }
                }
            }
            // four callers over a request buffer of two: two of them wait for room at the same
            // time, get it together, and may hand their requests over in either order (ids are
            // drawn before the wait), so requests can reach the dispatch out of id order
            // (seeded change C01e assumed they cannot and dropped the "impossible" reply)
            for mif in [2usize, 4] {
                let callers: Vec<CallerCfg> = (0..4).map(|_| CallerCfg::simple(true)).collect();
                out.push(base(callers, mif, 2, Flavour::Always, 1, A_REPLY_UNOWED | A_DRAIN));
            }
        }
        CProp::C09 => {
            // fault plans are generated by the fault enumerator (see c09_fault_configs)
        }
        CProp::C10 => {
            let alpha = A_ABANDON | A_EOF | A_DROPROOT | A_REPLY_UNOWED | A_DRAIN | A_PARK;
            // a socket-like transport with room for two messages: what was written last (a
            // cancellation, a request) is still buffered when the last handle goes, so the close
            // needs more than one poll; the dispatch completes only once it went through
            // (seeded change C09l completed with the close still pending)
            for n in 1..=2usize {
                for who in 0..n {
                    for k in 1..=2u32 {
                        for keep in [false, true] {
                            let mut cs: Vec<CallerCfg> = (0..n).map(|i| CallerCfg::simple(i != who)).collect();
                            cs[who].script = Script::AbandonAfter(k);
                            let mut c = base(cs, 2, 1, Flavour::Coupled, 2, alpha);
                            c.keep_root = keep;
                            out.push(c);
                        }
                    }
                }
            }
            for n in 1..=3usize {
                for mif in 1..=3usize {
                    if mif == 3 && n != 2 {
                        continue;
                    }
                    for (fl, cap) in transports {
                        for pol in policies(n) {
                            if n == 3 && !thorough && pol.iter().filter(|b| !**b).count() > 1 {
                                continue;
                            }
                            for keep in [false, true] {
                                let callers: Vec<CallerCfg> = pol.iter().map(|a| CallerCfg::simple(*a)).collect();
                                let mut c = base(callers.clone(), mif, 1, *fl, *cap, alpha);
                                c.keep_root = keep;
                                out.push(c);
                                if n <= 2 {
                                    for who in 0..n {
                                        for k in 1..=2u32 {
                                            let mut cs = callers.clone();
                                            cs[who].script = Script::AbandonAfter(k);
                                            let mut c = base(cs, mif, 1, *fl, *cap, alpha);
                                            c.keep_root = keep;
                                            out.push(c);
                                        }
                                    }
                                }
                            }
                        }
                    }
                }
            }
        }
        CProp::C11 => {
            let alpha = A_ABANDON | A_REPLY_UNOWED | A_DRAIN | A_ADVANCE | A_DUP;
            // the last handle goes together with the last (abandoned) call, before the dispatch
            // runs again: what the abandoned calls leave behind is reclaimed all the same - the
            // dispatch does not sit on their entries and timers until the deadlines
            // (seeded change C11n stopped reading cancellation notices once the request queue
            // had closed)
            for (fl, cap) in [(Flavour::Always, 1usize), (Flavour::Coupled, 1)] {
                for n in 1..=2usize {
                    for k in 1..=2u32 {
                        let mut callers: Vec<CallerCfg> = (0..n).map(|_| CallerCfg::simple(false)).collect();
                        for c in callers.iter_mut() {
                            c.script = Script::AbandonAfter(k);
                        }
                        let mut c = base(callers, 2, 2, fl, cap, A_ABANDON | A_DRAIN | A_DROPROOT);
                        c.keep_root = false;
                        out.push(c);
                    }
                }
            }
            // a queued call is abandoned and another task runs in the middle of its guard's drop
            // (yield points of the tarpc_verif hooks): whatever the dispatch does in that window, a
            // request whose caller has gone is not left tracked and transmitted with nobody to cancel it
            // (seeded change C11i posted the guard's notice before closing its receiver)
            for (fl, cap) in [(Flavour::Always, 1usize), (Flavour::Coupled, 1)] {
                for buf in [1usize, 2] {
                    for ans0 in [true, false] {
                        for third in [false, true] {
                            let mut callers = vec![CallerCfg::simple(ans0), CallerCfg { script: Script::AbandonAfter(1), ..CallerCfg::simple(false) }];
                            if third {
                                callers.push(CallerCfg::simple(true));
                            }
                            let mut c = base(callers, 1, buf, fl, cap, A_ABANDON | A_PARK | A_DRAIN);
                            c.keep_root = true;
                            out.push(c);
                        }
                    }
                }
            }
            for (fl, cap) in transports {
                for mif in 1..=2usize {
                    for buf in [1usize, 2] {
                        for dl in [10_000i64, 50] {
                            // 3 calls, then 3 more started as the first ones end (slot reuse)
                            for pol in [[true, true, true], [true, false, true], [false, false, true]] {
                                if !thorough && buf == 2 && pol[0] {
                                    continue;
                                }
                                let mut callers: Vec<CallerCfg> = Vec::new();
                                for i in 0..(if thorough { 6usize } else { 4 }) {
                                    let mut c = CallerCfg::simple(pol[i % 3]);
                                    c.deadline_ms = dl;
                                    if i >= 3 {
                                        c.after = Some(i - 3);
                                    }
                                    callers.push(c);
                                }
                                let mut c = base(callers.clone(), mif, buf, *fl, *cap, alpha);
                                c.keep_root = true;
                                out.push(c);
                                // a failed request write must reclaim its entry and timer too
                                if buf == 1 {
                                    for k in 1..=(if thorough { 3u32 } else { 2 }) {
                                        let mut c = base(callers.clone(), mif, buf, *fl, *cap, alpha);
                                        c.keep_root = true;
                                        c.fault = Some(Fault { op: Op::Send, k, sticky: false, eof: false });
                                        out.push(c);
                                    }
                                }
                                let mut cs = callers.clone();
                                cs[1].script = Script::AbandonAfter(1);
                                let last = cs.len() - 1;
                                cs[last.min(4)].script = Script::AbandonAfter(2);
                                let mut c = base(cs, mif, buf, *fl, *cap, alpha);
                                c.keep_root = true;
                                out.push(c);
                            }
                        }
                    }
                }
            }
        }
        CProp::C14 => {
            // the peer may also end the read side at any point (A_EOF): whatever the dispatch
            // wrote must still be flushed or closed before it completes
            let alpha = A_ABANDON | A_DRAIN | A_REPLY_UNOWED | A_EOF;
            // fault sequences: after a reported readiness / write / flush / close failure nothing
            // more is written (the k-th call of each sink operation fails, one-shot and sticky)
            for (fl, cap) in [(Flavour::Always, 1usize), (Flavour::Coupled, 1), (Flavour::Indep, 1)] {
                for n in 1..=2usize {
                    for op in [Op::Ready, Op::Send, Op::Flush, Op::Close] {
                        for k in 1..=(if thorough { 6 } else { 4 }) {
                            for sticky in [false, true] {
                                let mut callers: Vec<CallerCfg> = (0..n).map(|_| CallerCfg::simple(true)).collect();
                                callers[n - 1].script = Script::AbandonAfter(2);
                                callers[n - 1].answered = false;
                                let mut c = base(callers, 2, 1, fl, cap, alpha);
                                c.fault = Some(Fault { op, k, sticky, eof: false });
                                out.push(c);
                            }
                        }
                    }
                }
            }
            for (fl, cap) in [
                (Flavour::Always, 1usize),
                (Flavour::Coupled, 1),
                (Flavour::Coupled, 2),
                (Flavour::Indep, 1),
                (Flavour::Indep, 2),
                (Flavour::FlushFrees, 1),
                (Flavour::FlushFrees, 2),
            ] {
                for n in 1..=3usize {
                    for mif in 1..=2usize {
                        for pol in policies(n) {
                            if n == 3 && !thorough && pol.iter().filter(|b| !**b).count() > 1 {
                                continue;
                            }
                            let callers: Vec<CallerCfg> = pol.iter().map(|a| CallerCfg::simple(*a)).collect();
                            out.push(base(callers.clone(), mif, 1, fl, cap, alpha));
                            for who in 0..n.min(2) {
                                let mut cs = callers.clone();
                                cs[who].script = Script::AbandonAfter(2);
                                out.push(base(cs, mif, 1, fl, cap, alpha));
                            }
                        }
                    }
                }
            }
        }
    }
    out
}
