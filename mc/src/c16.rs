//! C16: whatever a peer sends, the receiving endpoint never panics; well-formed but odd messages
//! leave the connection serving. Exhaustive mutation grids over valid frames + boundary-valued
//! well-typed messages under three tracing-subscriber regimes.

use crate::codec::*;
use crate::driver::*;
use crate::explore::nthreads;
use crate::mock::take_panic;
use futures::{Future, Stream, StreamExt};
use serde::Serialize;
use serde_json::json;
use std::cell::RefCell;
use std::collections::HashSet;
use std::io;
use std::panic::{catch_unwind, AssertUnwindSafe};
use std::pin::Pin;
use std::rc::Rc;
use std::sync::atomic::{AtomicUsize, Ordering};
use std::sync::Mutex;
use std::task::{Context, Poll};
use std::time::{Duration, Instant};
use tarpc::server::{BaseChannel, Channel};
use tarpc::{client, context, trace, ClientMessage, Request, Response};
use tokio::io::{AsyncRead, AsyncWrite, ReadBuf};
use tokio_serde::formats::{Bincode, Json};
use tokio_util::codec::{Framed, LengthDelimitedCodec};

pub struct DuplexIo {
    rd: ReadIo,
    pub out: Rc<RefCell<Vec<u8>>>,
    /// the peer's bytes become readable only once something has been written (a peer cannot
    /// answer a request before it was sent)
    wait_for_write: bool,
}
impl AsyncRead for DuplexIo {
    fn poll_read(mut self: Pin<&mut Self>, cx: &mut Context<'_>, buf: &mut ReadBuf<'_>) -> Poll<io::Result<()>> {
        if self.wait_for_write && self.out.borrow().is_empty() {
            cx.waker().wake_by_ref();
            return Poll::Pending;
        }
        Pin::new(&mut self.rd).poll_read(cx, buf)
    }
}
impl AsyncWrite for DuplexIo {
    fn poll_write(self: Pin<&mut Self>, _: &mut Context<'_>, buf: &[u8]) -> Poll<io::Result<usize>> {
        self.out.borrow_mut().extend_from_slice(buf);
        Poll::Ready(Ok(buf.len()))
    }
    fn poll_flush(self: Pin<&mut Self>, _: &mut Context<'_>) -> Poll<io::Result<()>> {
        Poll::Ready(Ok(()))
    }
    fn poll_shutdown(self: Pin<&mut Self>, _: &mut Context<'_>) -> Poll<io::Result<()>> {
        Poll::Ready(Ok(()))
    }
}

pub const PROBE_ID: u64 = 424_242;

#[derive(Debug, Default)]
pub struct ServeResult {
    pub panic: Option<String>,
    pub probe_answered: bool,
    pub responses: usize,
    pub stuck: bool,
}

/// Feeds `input` (a byte stream, then EOF) to a real server channel executing an echo service.
pub fn serve_bytes(codec: Codec, input: &[u8]) -> ServeResult {
    let mut res = ServeResult::default();
    let out = Rc::new(RefCell::new(Vec::new()));
    let io = DuplexIo {
        rd: ReadIo::new(input.to_vec(), &[], false),
        out: out.clone(),
        wait_for_write: false,
    };
    let r = catch_unwind(AssertUnwindSafe(|| {
        let framed = Framed::new(io, LengthDelimitedCodec::new());
        macro_rules! go {
            ($c:expr) => {{
                let t = tarpc::serde_transport::new::<_, ClientMessage<String>, Response<String>, _>(framed, $c);
                let ch = BaseChannel::with_defaults(t);
                let stream = ch.execute(tarpc::server::serve(|_ctx, s: String| async move { Ok(s) }));
                futures::pin_mut!(stream);
                drive_server(stream)
            }};
        }
        match codec {
            Codec::Json => go!(Json::<ClientMessage<String>, Response<String>>::default()),
            Codec::Bincode => go!(Bincode::<ClientMessage<String>, Response<String>>::default()),
        }
    }));
    match r {
        Ok(stuck) => res.stuck = stuck,
        Err(_) => res.panic = Some(take_panic()),
    }
    let bytes = out.borrow().clone();
    let (items, _) = decode::<Response<String>>(codec, &bytes, &[], false);
    res.responses = items.len();
    res.probe_answered = items.iter().any(|s| s.contains(&format!("request_id: {PROBE_ID},")));
    res
}

fn drive_server<S, F>(mut stream: Pin<&mut S>) -> bool
where
    S: Stream<Item = F>,
    F: Future<Output = ()>,
{
    // a task that wakes itself (a cooperative yield) is polled again
    let flag = crate::mock::Flag::new(false);
    let waker = std::task::Waker::from(flag.clone());
    let mut cx = Context::from_waker(&waker);
    let mut handlers: Vec<Pin<Box<F>>> = vec![];
    let mut ended = false;
    for _ in 0..20_000 {
        let mut progress = flag.is_set();
        flag.clear();
        if !ended {
            match stream.as_mut().poll_next(&mut cx) {
                Poll::Ready(Some(f)) => {
                    handlers.push(Box::pin(f));
                    progress = true;
                }
                Poll::Ready(None) => {
                    ended = true;
                    progress = true;
                }
                Poll::Pending => {}
            }
        }
        let mut i = 0;
        while i < handlers.len() {
            if handlers[i].as_mut().poll(&mut cx).is_ready() {
                handlers.swap_remove(i);
                progress = true;
            } else {
                i += 1;
            }
        }
        if ended && handlers.is_empty() {
            return false;
        }
        if !progress && !flag.is_set() {
            // nothing is runnable: the stream waits for in-flight requests whose handlers are
            // pending, or the input is exhausted; that is a normal end for this harness
            return !ended && !handlers.is_empty() && false;
        }
    }
    true
}

#[derive(Debug, Default)]
pub struct ClientResult {
    pub panic: Option<String>,
    pub call: Option<String>,
    pub dispatch: Option<String>,
    pub stuck: bool,
}

/// Real client dispatch: one call with `ctx`, then the peer's byte stream `input` is delivered.
pub fn client_bytes(codec: Codec, ctx_deadline: Option<Instant>, input: &[u8]) -> ClientResult {
    let mut res = ClientResult::default();
    let out = Rc::new(RefCell::new(Vec::new()));
    let io = DuplexIo {
        rd: ReadIo::new(input.to_vec(), &[], false),
        out: out.clone(),
        wait_for_write: true,
    };
    let r = catch_unwind(AssertUnwindSafe(|| {
        let framed = Framed::new(io, LengthDelimitedCodec::new());
        macro_rules! go {
            ($c:expr) => {{
                let t = tarpc::serde_transport::new::<_, Response<String>, ClientMessage<String>, _>(framed, $c);
                let nc = client::new::<String, String, _>(client::Config::default(), t);
                let ch = nc.client;
                // a completed dispatch future is dropped (tokio::spawn, join!, select! all do)
                let mut dispatch = Some(Box::pin(nc.dispatch));
                let mut ctx = context::current();
                if let Some(d) = ctx_deadline {
                    ctx.deadline = d;
                }
                let call = async move { ch.call(ctx, "probe".to_string()).await };
                futures::pin_mut!(call);
                // tasks run only when woken: a dispatch that goes to sleep on input it has not
                // read, with no wake-up arranged, stays asleep (the call is then lost)
                let flag = crate::mock::Flag::new(true);
                let waker = std::task::Waker::from(flag.clone());
                let mut cx = Context::from_waker(&waker);
                let mut call_out = None;
                let mut disp_out = None;
                let mut stuck = true;
                for _ in 0..20_000 {
                    if !flag.is_set() {
                        break;
                    }
                    flag.clear();
                    if call_out.is_none() {
                        if let Poll::Ready(o) = call.as_mut().poll(&mut cx) {
                            call_out = Some(match o {
                                Ok(s) => format!("Ok({})", s.len()),
                                Err(e) => format!("Err({e})"),
                            });
                        }
                    }
                    if let Some(d) = dispatch.as_mut() {
                        if let Poll::Ready(o) = d.as_mut().poll(&mut cx) {
                            disp_out = Some(match o {
                                Ok(()) => "Ok".to_string(),
                                Err(e) => format!("Err({e})"),
                            });
                            dispatch = None;
                        }
                    }
                    if call_out.is_some() && disp_out.is_some() {
                        stuck = false;
                        break;
                    }
                    if disp_out.is_some() && call_out.is_none() {
                        // the dispatch is gone (dropped above); the caller is woken by that drop
                        continue;
                    }
                }
                (call_out, disp_out, stuck)
            }};
        }
        match codec {
            Codec::Json => go!(Json::<Response<String>, ClientMessage<String>>::default()),
            Codec::Bincode => go!(Bincode::<Response<String>, ClientMessage<String>>::default()),
        }
    }));
    match r {
        Ok((c, d, stuck)) => {
            res.call = c;
            res.dispatch = d;
            res.stuck = stuck;
        }
        Err(_) => res.panic = Some(take_panic()),
    }
    res
}

// ---------------------------------------------------------------------------------------------
// mirrors with a raw Duration deadline, to put arbitrary durations on the wire

#[derive(Serialize)]
struct CtxMirror {
    deadline: Duration,
    trace_context: trace::Context,
}
#[derive(Serialize)]
struct RequestMirror {
    context: CtxMirror,
    id: u64,
    message: String,
}
#[derive(Serialize)]
enum ClientMessageMirror {
    Request(RequestMirror),
    #[allow(dead_code)]
    Cancel { trace_context: trace::Context, request_id: u64 },
}

#[derive(Serialize)]
struct ServerErrorMirror {
    kind: u32,
    detail: String,
}
#[derive(Serialize)]
struct ResponseMirror {
    request_id: u64,
    message: Result<String, ServerErrorMirror>,
}

pub fn response_with_kind(codec: Codec, id: u64, kind: u32) -> Vec<u8> {
    frame(&encode_body(
        codec,
        &ResponseMirror {
            request_id: id,
            message: Err(ServerErrorMirror { kind, detail: "d".into() }),
        },
    ))
}

pub fn frame(body: &[u8]) -> Vec<u8> {
    let mut v = (body.len() as u32).to_be_bytes().to_vec();
    v.extend_from_slice(body);
    v
}

pub fn encode_body<T: Serialize>(codec: Codec, t: &T) -> Vec<u8> {
    match codec {
        Codec::Json => serde_json::to_vec(t).unwrap(),
        Codec::Bincode => {
            use bincode::Options;
            bincode::DefaultOptions::new().serialize(t).unwrap()
        }
    }
}

pub fn request_with_duration(codec: Codec, id: u64, d: Duration) -> Vec<u8> {
    request_msg(codec, id, d, "m")
}

pub fn cancel_frame(codec: Codec, request_id: u64) -> Vec<u8> {
    frame(&encode_body(codec, &ClientMessageMirror::Cancel { trace_context: tctx(1), request_id }))
}

pub fn request_msg(codec: Codec, id: u64, d: Duration, msg: &str) -> Vec<u8> {
    frame(&encode_body(
        codec,
        &ClientMessageMirror::Request(RequestMirror {
            context: CtxMirror {
                deadline: d,
                trace_context: tctx(2),
            },
            id,
            message: msg.into(),
        }),
    ))
}

pub fn probe_frame(codec: Codec) -> Vec<u8> {
    request_with_duration(codec, PROBE_ID, Duration::from_secs(10))
}

const YEAR: u64 = 31_556_952;
pub fn boundary_durations() -> Vec<(&'static str, Duration)> {
    vec![
        ("0", Duration::ZERO),
        ("1ns", Duration::from_nanos(1)),
        ("2y", Duration::from_secs(2 * YEAR)),
        ("2.2y", Duration::from_secs(22 * YEAR / 10)),
        ("3y", Duration::from_secs(3 * YEAR)),
        ("30y", Duration::from_secs(30 * YEAR)),
        ("7000y", Duration::from_secs(7000 * YEAR)),
        ("9000y", Duration::from_secs(9000 * YEAR)),
        ("1e12 s", Duration::from_secs(1_000_000_000_000)),
        ("2^40 s", Duration::from_secs(1 << 40)),
        ("3e8y", Duration::from_secs(300_000_000 * YEAR)),
        ("i64::MAX s", Duration::from_secs(i64::MAX as u64)),
        ("u64::MAX s", Duration::new(u64::MAX, 999_999_999)),
    ]
}

#[derive(Clone, Copy, Debug, PartialEq, Eq, Hash)]
pub enum Regime {
    NoSubscriber,
    Fmt,
    Otel,
}

pub fn with_regime<R>(r: Regime, f: impl FnOnce() -> R) -> R {
    use tracing_subscriber::layer::SubscriberExt;
    match r {
        Regime::NoSubscriber => f(),
        Regime::Fmt => {
            let sub = tracing_subscriber::fmt()
                .with_max_level(tracing::Level::TRACE)
                .with_writer(io::sink)
                .finish();
            tracing::subscriber::with_default(sub, f)
        }
        Regime::Otel => {
            use opentelemetry::trace::TracerProvider as _;
            let provider = opentelemetry_sdk::trace::TracerProvider::builder().build();
            let tracer = provider.tracer("mc");
            let sub = tracing_subscriber::registry().with(tracing_opentelemetry::layer().with_tracer(tracer));
            tracing::subscriber::with_default(sub, f)
        }
    }
}

#[derive(Default)]
pub struct S16 {
    pub samples: Vec<String>,
    pub evals: u64,
    pub distinct: HashSet<u64>,
    pub failures: Vec<(String, String)>,
    pub wellformed: u64,
    pub malformed: u64,
}

pub fn h<T: std::hash::Hash>(t: &T) -> u64 {
    use std::hash::Hasher;
    let mut s = std::collections::hash_map::DefaultHasher::new();
    t.hash(&mut s);
    s.finish()
}

pub fn failure(st: &mut S16, sig: String, msg: String) {
    if st.failures.len() < 400 {
        st.failures.push((sig, msg));
    }
}

/// panic site -> stable signature fragment
pub fn site(p: &str) -> String {
    let loc = p.rsplit(" @ ").next().unwrap_or("");
    let file = loc.rsplit('/').next().unwrap_or(loc);
    let what = if p.contains("invalid deadline") {
        "timer-range"
    } else if p.contains("overflow when adding duration to instant") {
        "instant-overflow"
    } else if p.contains("Display implementation returned an error") || p.contains("formatting trait") {
        "format-error"
    } else {
        "panic"
    };
    // keep the file name, drop the line number (hooks shift lines)
    let file = file.split(':').next().unwrap_or(file);
    format!("{what}@{file}")
}

fn server_case(st: &mut S16, codec: Codec, label: &str, odd: &[u8], expect_probe: Option<bool>) {
    let mut input = odd.to_vec();
    input.extend_from_slice(&probe_frame(codec));
    st.evals += 1;
    st.distinct.insert(h(&(codec, label)));
    if st.samples.len() < 3 || (st.evals % 50_021 == 0 && st.samples.len() < 8) {
        st.samples.push(format!("server {codec:?} <- {label} then a probe request: input bytes (hex, first 48) {}", input.iter().take(48).map(|b| format!("{b:02x}")).collect::<String>()));
    }
    let r = serve_bytes(codec, &input);
    if let Some(p) = &r.panic {
        failure(st, format!("C16-server-panic/{}", site(p)), format!("{codec:?} {label}: {p}"));
        return;
    }
    if r.stuck {
        failure(st, "C16-server-stuck".into(), format!("{codec:?} {label}"));
    }
    if expect_probe == Some(false) && r.probe_answered {
        failure(
            st,
            "C16-served-after-malformed".into(),
            format!("{codec:?} {label}: a complete frame whose payload does not decode was followed by a probe request - and the probe was served: the malformed frame did not end the connection"),
        );
    }
    if expect_probe == Some(true) && !r.probe_answered {
        failure(
            st,
            "C16-server-stops-serving".into(),
            format!("{codec:?} {label}: a well-formed message was followed by a probe request that was never answered"),
        );
    }
}

/// exactly one complete frame, and its payload does not decode as a client message
fn undecodable_payload(codec: Codec, frame_bytes: &[u8]) -> bool {
    if frame_bytes.len() < 4 {
        return false;
    }
    let l = u32::from_be_bytes([frame_bytes[0], frame_bytes[1], frame_bytes[2], frame_bytes[3]]) as usize;
    if 4 + l != frame_bytes.len() {
        return false;
    }
    matches!(
        catch_unwind(AssertUnwindSafe(|| decode::<ClientMessage<String>>(codec, frame_bytes, &[], false))),
        Ok((items, End::Err(_))) if items.is_empty()
    )
}

fn well_formed_client_message(codec: Codec, frame_bytes: &[u8]) -> Option<String> {
    let r = catch_unwind(AssertUnwindSafe(|| decode::<ClientMessage<String>>(codec, frame_bytes, &[], false)));
    match r {
        Ok((items, End::Eof)) if items.len() == 1 => Some(items[0].clone()),
        _ => None,
    }
}

fn mutate_server_frames(st: &mut S16, codec: Codec, frames: &[(String, Vec<u8>)], all_values: bool, pairs: bool) {
    for (name, f) in frames {
        if pairs {
            // two adjacent bytes substituted at once, from a boundary value set
            let vals = [0u8, 1, 0x7f, 0x80, 0xfe, 0xff, b'"', b'0'];
            for pos in 0..f.len().saturating_sub(1) {
                for a in vals {
                    for b in vals {
                        if a == f[pos] && b == f[pos + 1] {
                            continue;
                        }
                        let mut m = f.clone();
                        m[pos] = a;
                        m[pos + 1] = b;
                        let wf = well_formed_client_message(codec, &m);
                        let expect = match &wf {
                            Some(s) if !s.contains(&format!("id: {PROBE_ID}")) && !s.contains(&format!("request_id: {PROBE_ID}")) => Some(true),
                            _ => None,
                        };
                        server_case(st, codec, &format!("{name} bytes {pos},{} := {a:#04x},{b:#04x}", pos + 1), &m, expect);
                    }
                }
            }
        }
        // every single-byte substitution
        for pos in 0..f.len() {
            let vals: Vec<u8> = if all_values {
                (0..=255u8).collect()
            } else {
                vec![0, 1, 0x7f, 0x80, 0xfe, 0xff, f[pos] ^ 1, f[pos].wrapping_add(1)]
            };
            for v in vals {
                if v == f[pos] {
                    continue;
                }
                let mut m = f.clone();
                m[pos] = v;
                // is the mutated frame still one well-formed message?
                let wf = well_formed_client_message(codec, &m);
                let expect = match &wf {
                    Some(s) if !s.contains(&format!("id: {PROBE_ID}")) && !s.contains(&format!("request_id: {PROBE_ID}")) => {
                        st.wellformed += 1;
                        Some(true)
                    }
                    Some(_) => None,
                    None => {
                        st.malformed += 1;
                        // the length prefix is intact and the payload alone fails to decode: that frame
                        // ends the connection, what follows it is not served
                        if pos >= 4 && undecodable_payload(codec, &m) {
                            Some(false)
                        } else {
                            None
                        }
                    }
                };
                server_case(st, codec, &format!("{name} byte {pos} := {v:#04x}"), &m, expect);
            }
        }
        // every truncation followed by the probe (the probe's bytes then complete the torn frame)
        for p in 0..f.len() {
            server_case(st, codec, &format!("{name} truncated at {p}"), &f[..p], None);
        }
    }
    // length prefixes at the boundaries, bodies of length <= 2
    for len in [0u32, 1, 2, 3, 4, 0x7fff_ffff, 0x8000_0000, 0xffff_ffff, 8 * 1024 * 1024, 8 * 1024 * 1024 + 1] {
        let mut v = len.to_be_bytes().to_vec();
        v.extend_from_slice(b"{}");
        server_case(st, codec, &format!("length prefix {len:#x}"), &v, None);
    }
    server_case(st, codec, "empty body", &frame(&[]), None);
    for a in 0..=255u8 {
        server_case(st, codec, &format!("body [{a:#04x}]"), &frame(&[a]), None);
        if all_values || a % 16 == 0 {
            for b in 0..=255u8 {
                server_case(st, codec, &format!("body [{a:#04x},{b:#04x}]"), &frame(&[a, b]), None);
            }
        }
    }
}

fn boundary_server_cases(st: &mut S16, codec: Codec, regime: Regime) {
    (|| {
        for (dn, d) in boundary_durations() {
            for id in [0u64, u64::MAX] {
                let f = request_with_duration(codec, id, d);
                server_case(st, codec, &format!("[{regime:?}] request id {id} deadline {dn}"), &f, Some(true));
            }
        }
        // long request bodies with multi-byte characters across round byte offsets
        for limit in [255usize, 256, 1023, 1024, 1025, 4095, 4096, 65_535, 65_536] {
            for ch in ['é', '€', '😀'] {
                for lead in 0..ch.len_utf8() {
                    let mut text = "y".repeat(lead);
                    while text.len() < limit + 8 {
                        text.push(ch);
                    }
                    let f = request_msg(codec, 3, Duration::from_secs(10), &text);
                    server_case(st, codec, &format!("[{regime:?}] request whose body is {} bytes of {}-byte characters after {lead} ASCII bytes", text.len(), ch.len_utf8()), &f, Some(true));
                }
            }
        }
        // cancels for ids never used, floods of duplicates
        let cancel = frame(&encode_body(codec, &ClientMessageMirror::Cancel { trace_context: tctx(1), request_id: u64::MAX }));
        server_case(st, codec, &format!("[{regime:?}] cancel for an id never used"), &cancel, Some(true));
        let mut flood = vec![];
        for _ in 0..100 {
            flood.extend_from_slice(&request_with_duration(codec, 5, Duration::from_secs(10)));
        }
        server_case(st, codec, &format!("[{regime:?}] 100 duplicates of request 5"), &flood, Some(true));
        let mut flood = vec![];
        for _ in 0..100 {
            flood.extend_from_slice(&cancel);
        }
        server_case(st, codec, &format!("[{regime:?}] 100 cancels"), &flood, Some(true));
    })()
}

fn client_cases(st: &mut S16, codec: Codec, regime: Regime, now: Instant, mutate: bool, all_values: bool) {
    (|| {
        let ok_reply = frame(&encode_body(codec, &Response::<String> { request_id: 0, message: Ok("r".into()) }));
        // deadlines a local caller may put into the context
        for (dn, d) in boundary_durations() {
            let Some(deadline) = now.checked_add(d) else { continue };
            st.evals += 1;
            st.distinct.insert(h(&(codec, regime, "local", dn)));
            let r = client_bytes(codec, Some(deadline), &ok_reply);
            if let Some(p) = &r.panic {
                failure(st, format!("C16-client-panic/{}", site(p)), format!("{codec:?} [{regime:?}] local call with deadline now+{dn}: {p}"));
            } else if d <= Duration::from_nanos(1) && r.call.as_deref() == Some("Err(the request exceeded its deadline)") {
                // a deadline of "now" may legitimately expire before the reply is read
            } else if r.stuck || r.call.as_deref() != Some("Ok(1)") {
                failure(st, "C16-client-call-lost".into(), format!("{codec:?} [{regime:?}] local call with deadline now+{dn}: call {:?} dispatch {:?}", r.call, r.dispatch));
            }
        }
        // responses for ids never used, duplicates, then the real reply
        let mut input = vec![];
        for id in [u64::MAX, 77, 1 << 63] {
            input.extend_from_slice(&frame(&encode_body(codec, &Response::<String> { request_id: id, message: Ok("x".into()) })));
        }
        for _ in 0..100 {
            input.extend_from_slice(&frame(&encode_body(codec, &Response::<String> { request_id: 9, message: Err(tarpc::ServerError::new(io::ErrorKind::Other, "e".into())) })));
        }
        input.extend_from_slice(&ok_reply);
        st.evals += 1;
        st.distinct.insert(h(&(codec, regime, "unsolicited")));
        let r = client_bytes(codec, None, &input);
        if let Some(p) = &r.panic {
            failure(st, format!("C16-client-panic/{}", site(p)), format!("{codec:?} [{regime:?}] unsolicited responses: {p}"));
        } else if r.call.as_deref() != Some("Ok(1)") {
            failure(st, "C16-client-call-lost".into(), format!("{codec:?} [{regime:?}] unsolicited responses then the reply: call {:?} dispatch {:?}", r.call, r.dispatch));
        }
        // error kinds a peer may put on the wire, inside and beyond the 18-entry table: the call
        // for id 0 resolves with that error (never a panic), unknown ids are ignored
        for kind in (0u32..=40).chain([127, 128, 255, 256, 65_535, 65_536, u32::MAX - 1, u32::MAX]) {
            for id in [0u64, 77] {
                let mut input = response_with_kind(codec, id, kind);
                input.extend_from_slice(&ok_reply);
                st.evals += 1;
                st.distinct.insert(h(&(codec, regime, "kind", kind, id)));
                let r = client_bytes(codec, None, &input);
                if let Some(p) = &r.panic {
                    failure(st, format!("C16-client-panic/{}", site(p)), format!("{codec:?} [{regime:?}] response for id {id} with error kind number {kind}: {p}"));
                } else if r.stuck || r.call.is_none() {
                    failure(st, "C16-client-call-lost".into(), format!("{codec:?} [{regime:?}] response for id {id} with error kind number {kind}: call {:?} dispatch {:?}", r.call, r.dispatch));
                } else if id == 77 && r.call.as_deref() != Some("Ok(1)") {
                    failure(st, "C16-client-call-lost".into(), format!("{codec:?} [{regime:?}] unsolicited error response (kind {kind}) disturbed the call: {:?}", r.call));
                }
            }
        }
        // long texts with multi-byte characters across every "round" byte offset: an error detail
        // (or a body) is peer-supplied text of any length and alignment
        for limit in [0usize, 1, 2, 63, 64, 127, 128, 255, 256, 511, 512, 1023, 1024, 1025, 2047, 2048, 4095, 4096, 8191, 8192, 65_535, 65_536] {
            for (cn, ch) in [("2-byte", 'é'), ("3-byte", '€'), ("4-byte", '😀')] {
                for lead in 0..ch.len_utf8() {
                    let mut text = "x".repeat(lead);
                    while text.len() < limit + 8 {
                        text.push(ch);
                    }
                    for as_error in [true, false] {
                        let message = if as_error { Err(tarpc::ServerError::new(io::ErrorKind::Other, text.clone())) } else { Ok(text.clone()) };
                        let input = frame(&encode_body(codec, &Response::<String> { request_id: 0, message }));
                        st.evals += 1;
                        st.distinct.insert(h(&(codec, regime, "long-text", limit, cn, lead, as_error)));
                        let r = client_bytes(codec, None, &input);
                        let label = format!("{codec:?} [{regime:?}] reply with a {} of {} bytes ({lead} ASCII bytes, then {cn} characters)", if as_error { "server error detail" } else { "body" }, text.len());
                        if let Some(p) = &r.panic {
                            failure(st, format!("C16-client-panic/{}", site(p)), format!("{label}: {p}"));
                        } else if r.stuck || r.call.is_none() {
                            failure(st, "C16-client-call-lost".into(), format!("{label}: call {:?} dispatch {:?}", r.call, r.dispatch));
                        }
                    }
                }
            }
        }
        if mutate {
            // every single-byte substitution / truncation of a valid response frame, then the real reply
            let frames = [
                ("ok-response", ok_reply.clone()),
                ("err-response", frame(&encode_body(codec, &Response::<String> { request_id: 0, message: Err(tarpc::ServerError::new(io::ErrorKind::WouldBlock, "d".into())) }))),
            ];
            for (name, f) in &frames {
                for pos in 0..f.len() {
                    let vals: Vec<u8> = if all_values { (0..=255u8).collect() } else { vec![0, 1, 0x7f, 0x80, 0xff, f[pos] ^ 1] };
                    for v in vals {
                        if v == f[pos] {
                            continue;
                        }
                        let mut m = f.clone();
                        m[pos] = v;
                        m.extend_from_slice(&ok_reply);
                        st.evals += 1;
                        st.distinct.insert(h(&(codec, name, pos, v)));
                        let r = client_bytes(codec, None, &m);
                        if let Some(p) = &r.panic {
                            failure(st, format!("C16-client-panic/{}", site(p)), format!("{codec:?} {name} byte {pos} := {v:#04x}: {p}"));
                        } else if r.stuck {
                            failure(st, "C16-client-stuck".into(), format!("{codec:?} {name} byte {pos} := {v:#04x}: call {:?} dispatch {:?}", r.call, r.dispatch));
                        }
                    }
                }
                for p in 0..f.len() {
                    st.evals += 1;
                    let r = client_bytes(codec, None, &f[..p]);
                    if let Some(pn) = &r.panic {
                        failure(st, format!("C16-client-panic/{}", site(pn)), format!("{codec:?} {name} truncated at {p}: {pn}"));
                    } else if r.stuck {
                        failure(st, "C16-client-stuck".into(), format!("{codec:?} {name} truncated at {p}: call {:?} dispatch {:?}", r.call, r.dispatch));
                    }
                }
            }
        }
    })()
}

pub fn run_c16(tier: Tier) -> i32 {
    let start = Instant::now();
    #[derive(Clone, Copy)]
    enum Job {
        Mutate(Codec, usize),
        Boundary(Codec, Regime),
        Client(Codec, Regime, bool),
        Flood(Codec),
        ClientFlood(Codec),
        ServerAge(Codec),
        Timed(Codec),
        ClientAge(Codec),
        StubVariant,
    }
    let flood_n = if tier == Tier::Thorough { 160 } else { 48 };
    let n_frames = 6;
    let mut jobs = vec![Job::StubVariant];
    for codec in [Codec::Json, Codec::Bincode] {
        jobs.push(Job::Flood(codec));
        jobs.push(Job::ClientFlood(codec));
        jobs.push(Job::ServerAge(codec));
        jobs.push(Job::Timed(codec));
        jobs.push(Job::ClientAge(codec));
        for i in 0..n_frames {
            jobs.push(Job::Mutate(codec, i));
        }
        for regime in [Regime::NoSubscriber, Regime::Fmt, Regime::Otel] {
            jobs.push(Job::Boundary(codec, regime));
            jobs.push(Job::Client(codec, regime, regime == Regime::NoSubscriber));
        }
    }
    // every one of the 256 values at every position, in both tiers (the thorough tier adds
    // pairs of adjacent substitutions)
    let all_values = true;
    let pairs = tier == Tier::Thorough;
    // Jobs that need a tracing subscriber run afterwards, serially, under one subscriber each
    // (see chain_props::run_c07 for why per-thread subscribers in parallel are unreliable).
    let (jobs, regime_jobs): (Vec<Job>, Vec<Job>) = jobs.into_iter().partition(|j| match j {
        Job::Mutate(..) | Job::Flood(_) | Job::ClientFlood(_) | Job::ServerAge(_) | Job::Timed(_) | Job::ClientAge(_) | Job::StubVariant => true,
        Job::Boundary(_, r) | Job::Client(_, r, _) => *r == Regime::NoSubscriber,
    });
    let next = AtomicUsize::new(0);
    let total = Mutex::new(S16::default());
    std::thread::scope(|s| {
        for _ in 0..nthreads() {
            s.spawn(|| {
                let rt = tokio::runtime::Builder::new_current_thread().enable_time().start_paused(true).build().unwrap();
                let mut st = S16::default();
                rt.block_on(tokio::task::unconstrained(async {
                    let now = tokio::time::Instant::now().into_std();
                    loop {
                        let i = next.fetch_add(1, Ordering::SeqCst);
                        if i >= jobs.len() {
                            break;
                        }
                        // the age jobs advance this thread's paused clock
                        let now = tokio::time::Instant::now().into_std();
                        let job_label = format!("{:?}", std::mem::discriminant(&jobs[i]));
                        let st_ref = &mut st;
                        let this_job = jobs[i];
                        let job = async move {
                        let st = st_ref;
                        match this_job {
                            Job::Mutate(codec, k) => {
                                let cc = client_corpus(now);
                                // valid frames: a request, a cancel, requests with odd bodies / ids
                                let picks = [0usize, 1, 2, 5, 8, 9];
                                let m = &cc[picks[k]];
                                let body = encode_body(codec, m);
                                let frames = vec![(format!("frame#{}", picks[k]), frame(&body))];
                                mutate_server_frames(st, codec, &frames, all_values || k == 0, pairs);
                            }
                            Job::Boundary(codec, regime) => boundary_server_cases(st, codec, regime),
                            Job::Client(codec, regime, mutate) => client_cases(st, codec, regime, now, mutate, all_values),
                            Job::Flood(codec) => {
                                crate::c16_hist::duplicate_deadline_cases(st, codec);
                                crate::c16_hist::flood_cases(st, codec, flood_n)
                            }
                            Job::ClientFlood(codec) => crate::c16_hist::client_flood_cases(st, codec, flood_n),
                            Job::ServerAge(codec) => crate::c16_hist::server_age_cases(st, codec).await,
                            Job::Timed(codec) => crate::c16_hist::timed_history_cases(st, codec, if tier == Tier::Thorough { 6 } else { 5 }).await,
                            Job::ClientAge(codec) => crate::c16_hist::client_age_cases(st, codec).await,
                            Job::StubVariant => {
                                crate::c16_hist::stub_variant_cases(st);
                                crate::c16_hist::spawned_backlog_cases(st, tier == Tier::Thorough);
                                crate::c16_hist::limited_bounded_flood_cases(st, 6);
                                crate::c16_hist::distinct_flood_cases(st, if all_values { 4096 } else { 2048 });
                            }
                        }
                        };
                        // A panic outside the guarded subject runs: when it comes from tarpc's
                        // own code (say, its serializer run by the harness in the role of a
                        // caller or peer) it is a verdict; anywhere else it is the checker's.
                        if futures::FutureExt::catch_unwind(AssertUnwindSafe(job)).await.is_err() {
                            let p = take_panic();
                            // (the checker's own files are reported relative to its crate,
                            // "src/..."; tarpc, the standard library and the dependencies tarpc
                            // calls into are reported with absolute paths)
                            let loc = p.rsplit(" @ ").next().unwrap_or("");
                            if !loc.starts_with("src/") {
                                failure(&mut st, format!("C16-panic-in-tarpc/{}", site(&p)), format!("while the harness prepared or fed well-typed values ({job_label}): {p}"));
                            } else {
                                panic!("{p}");
                            }
                        }
                    }
                }));
                let mut t = total.lock().unwrap();
                t.evals += st.evals;
                t.distinct.extend(st.distinct);
                t.failures.extend(st.failures);
                if t.samples.len() < 12 {
                    t.samples.extend(st.samples.iter().take(2).cloned());
                }
                t.wellformed += st.wellformed;
                t.malformed += st.malformed;
            });
        }
    });
    for regime in [Regime::Fmt, Regime::Otel] {
        with_regime(regime, || {
            tracing::callsite::rebuild_interest_cache();
            let rt = tokio::runtime::Builder::new_current_thread().enable_time().start_paused(true).build().unwrap();
            let mut st = S16::default();
            rt.block_on(tokio::task::unconstrained(async {
                let now = tokio::time::Instant::now().into_std();
                let began = std::time::Instant::now();
                for j in &regime_jobs {
                    match *j {
                        Job::Boundary(codec, r) if r == regime => boundary_server_cases(&mut st, codec, r),
                        Job::Client(codec, r, mutate) if r == regime => client_cases(&mut st, codec, r, now, mutate, all_values),
                        _ => {}
                    }
                }
                // the same boundary messages once more in a process that has been rendering deadlines
                // for more than a second of real time (span fields are rendered against the wall
                // clock; seeded change C16h cached "how far away is the year 9999" at first use)
                let age = began.elapsed();
                if age < Duration::from_millis(1200) {
                    std::thread::sleep(Duration::from_millis(1200) - age);
                }
                let now = tokio::time::Instant::now().into_std();
                for j in &regime_jobs {
                    match *j {
                        Job::Boundary(codec, r) if r == regime => boundary_server_cases(&mut st, codec, r),
                        Job::Client(codec, r, _) if r == regime => client_cases(&mut st, codec, r, now, false, false),
                        _ => {}
                    }
                }
            }));
            let mut t = total.lock().unwrap();
            t.evals += st.evals;
            t.distinct.extend(st.distinct);
            t.failures.extend(st.failures);
            t.samples.extend(st.samples.iter().take(2).cloned());
        });
    }
    let njobs = jobs.len() + regime_jobs.len();
    let t = total.into_inner().unwrap();
    finish_grid(
        "C16",
        tier,
        start,
        t.evals,
        t.distinct.len() as u64,
        &t.failures,
        json!({"mutants_still_well_formed": t.wellformed, "mutants_malformed": t.malformed, "jobs": njobs, "flood_run_length_bound": flood_n, "connection_ages": crate::c16_hist::ages().iter().map(|a| a.0).collect::<Vec<_>>()}),
        "server: for each codec and each of 6 valid client frames, every single-byte substitution (all 256 values for the first frame and in the thorough tier, a boundary value set otherwise), every truncation, boundary length prefixes and every body of length <=2, fed through the real framed serde transport into a real BaseChannel.execute(echo) followed by a well-formed probe request, which must be answered whenever the odd input still decodes to one message; well-typed boundary messages (ids 0/u64::MAX, deadlines 0 .. Duration::MAX, cancels for unused ids, floods of 100 duplicates) under three subscriber regimes; floods readable within one poll: with a request held in flight, every pair of run lengths (a, b) up to N of duplicates of it and cancels for an unused id, in both orders; connections of every age in a grid (0 .. 30 years, fresh / having served a request / holding a request in flight) receiving every boundary deadline next; every sequence of at most 5 (thorough: 6) peer actions on one id out of {request that stays in flight with a 1/10/30 s deadline, request answered at once, cancellation, 2 s or 40 s passing}, then 40 s and the probe; a macro-generated client stub answered with a well-typed response of another method (none, tracing_subscriber::fmt, tracing-opentelemetry); client: every deadline a local caller can put in the context, unsolicited/duplicate responses, and every single-byte substitution/truncation of valid response frames into a real dispatch with one call outstanding. Oracle: no panic anywhere (catch_unwind around every subject run), nothing stuck, probe served",
        t.samples.iter().map(|c| json!({"case": c})).collect(),
    )
}
