//! C20: load-balancing and retry stubs. Exhaustive grids over backend counts, call sequences,
//! clone patterns, first-poll orders, hashers, result sequences and retry policies; the
//! thread-level part runs the real `mod cycle` text under loom (mc-loom binary).

use crate::codec::{drive, finish_grid};
use crate::driver::*;
use serde_json::json;
use std::cell::RefCell;
use std::collections::HashSet;
use std::future::Future;
use std::hash::{BuildHasher, Hasher};
use std::pin::Pin;
use std::rc::Rc;
use std::sync::Arc;
use std::task::{Context, Poll};
use std::time::Instant;
use tarpc::client::stub::load_balance::{ConsistentHash, RoundRobin};
use tarpc::client::stub::retry::Retry;
use tarpc::client::stub::Stub;
use tarpc::client::RpcError;
use tarpc::{context, ServerError};

type Log = Rc<RefCell<Vec<(usize, u64)>>>;

/// A backend that records (backend index, request) and answers immediately.
#[derive(Clone, Debug)]
struct Backend {
    idx: usize,
    log: Log,
}
impl Stub for Backend {
    type Req = u64;
    type Resp = u64;
    async fn call(&self, _: context::Context, r: u64) -> Result<u64, RpcError> {
        self.log.borrow_mut().push((self.idx, r));
        // a backend whose connection has gone (its dispatch was dropped) answers every call with
        // Shutdown; a slow one with DeadlineExceeded: it is still one of the backends
        match DEAD.with(|d| d.get()) {
            Some((i, 0)) if i == self.idx => Err(RpcError::Shutdown),
            Some((i, 1)) if i == self.idx => Err(RpcError::DeadlineExceeded),
            Some((i, _)) if i == self.idx => Err(RpcError::Server(ServerError::new(std::io::ErrorKind::Other, "down".to_string()))),
            _ => Ok(r),
        }
    }
}
thread_local! {
    /// (index of the failing backend, kind of failure)
    static DEAD: std::cell::Cell<Option<(usize, u8)>> = const { std::cell::Cell::new(None) };
}

/// A backend whose calls stay pending (to keep several calls in flight at once).
#[derive(Clone)]
struct PendingBackend {
    idx: usize,
    log: Log,
}
struct Never;
impl Future for Never {
    type Output = ();
    fn poll(self: Pin<&mut Self>, _: &mut Context<'_>) -> Poll<()> {
        Poll::Pending
    }
}
impl Stub for PendingBackend {
    type Req = u64;
    type Resp = u64;
    async fn call(&self, _: context::Context, r: u64) -> Result<u64, RpcError> {
        self.log.borrow_mut().push((self.idx, r));
        Never.await;
        Ok(r)
    }
}

fn balanced(log: &[(usize, u64)], n: usize) -> Result<(), String> {
    let mut counts = vec![0i64; n];
    for (k, (b, _)) in log.iter().enumerate() {
        if *b >= n {
            return Err(format!("call {k} went to backend {b} of {n}"));
        }
        counts[*b] += 1;
        let (mn, mx) = (counts.iter().min().unwrap(), counts.iter().max().unwrap());
        if mx - mn > 1 {
            return Err(format!("after {} calls the per-backend counts are {counts:?}", k + 1));
        }
    }
    Ok(())
}

struct St {
    samples: Vec<String>,
    evals: u64,
    distinct: HashSet<u64>,
    failures: Vec<(String, String)>,
}
fn h<T: std::hash::Hash>(t: &T) -> u64 {
    let mut s = std::collections::hash_map::DefaultHasher::new();
    t.hash(&mut s);
    s.finish()
}

fn round_robin(st: &mut St, max_calls: usize) {
    let ctx = context::current();
    let past = std::time::Instant::now() - std::time::Duration::from_secs(1);
    for n in 1..=5usize {
        // every pattern of which of two clones issues each call
        for k in 0..=max_calls {
          // which calls carry a context whose deadline has already passed (a caller re-using an old
          // context): none, every other one, two in every three - in every phase
          // one backend that answers every call with an error (in turn: each position, each kind)
          let mut deads: Vec<Option<(usize, u8)>> = vec![None];
          if n >= 2 && k <= 8 {
              for i in [0, 1, n - 1] {
                  for kind in 0..3u8 {
                      if !deads.contains(&Some((i, kind))) {
                          deads.push(Some((i, kind)));
                      }
                  }
              }
          }
          for dead in deads {
          DEAD.with(|d| d.set(dead));
          for expired_mask in [0u32, 0x5555_5555, 0xAAAA_AAAA, 0xDB6D_B6DB, 0xB6DB_6DB6, 0x6DB6_DB6D, 0xFFFF_FFFE, 0x7FFF_FFFF] {
          for describe in [false, true] {
            if describe && (k > 8 || expired_mask != 0) {
                continue;
            }
            if dead.is_some() && (describe || expired_mask != 0) {
                continue;
            }
            if expired_mask != 0 && k > 9 {
                continue;
            }
            for pattern in 0..(1u32 << k.min(10)) {
                let log: Log = Rc::new(RefCell::new(vec![]));
                let rr = RoundRobin::new((0..n).map(|i| Backend { idx: i, log: log.clone() }).collect());
                let rr2 = rr.clone();
                for c in 0..k {
                    let s = if pattern & (1 << (c % 10)) != 0 { &rr2 } else { &rr };
                    // looking at a stub (logging it, printing it in an error path) is not a call
                    if describe && c % 2 == 1 {
                        let _ = format!("{s:?} {:?}", rr);
                    }
                    let mut cctx = ctx;
                    if expired_mask & (1 << (c % 32)) != 0 {
                        cctx.deadline = past;
                    }
                    let f = s.call(cctx, c as u64);
                    futures::pin_mut!(f);
                    if drive(f, 10).is_none() {
                        st.failures.push(("C20-rr-call-stuck".into(), format!("n={n}")));
                    }
                }
                st.evals += 1;
                st.distinct.insert(h(&("rr", n, k, pattern, describe, expired_mask, dead)));
                if k == 7 && pattern == 0b1010101 {
                    st.samples.push(format!("round robin n={n} calls={k} clone pattern {pattern:#b}: backends hit {:?}", log.borrow().iter().map(|x| x.0).collect::<Vec<_>>()));
                }
                if let Err(e) = balanced(&log.borrow(), n) {
                    st.failures.push(("C20-rr-unbalanced".into(), format!("n={n} calls={k} clone pattern {pattern:#b}{}{}: {e}", if describe { " (the stub is Debug-formatted before every second call)" } else { "" }, if expired_mask != 0 { format!(" (calls {expired_mask:#b} carry a context whose deadline has passed)") } else if let Some((i, kind)) = dead { format!(" (backend {i} answers every call with {})", ["Shutdown", "DeadlineExceeded", "a server error"][kind as usize]) } else { String::new() })));
                }
                if log.borrow().len() != k {
                    st.failures.push(("C20-rr-lost-call".into(), format!("n={n}: {k} calls, {} reached a backend", log.borrow().len())));
                }
            }
          }
          }
          }
          DEAD.with(|d| d.set(None));
        }
        // call futures that are created and dropped without ever being polled (the losing arm of a
        // hedged request, `let f = stub.call(..); if cond { f.await }`) are not calls: the calls that
        // are made stay balanced (seeded change C20l took the turn when the future was created)
        for period in 1..=3usize {
            for pat in 0..(1u32 << period) {
                let log: Log = Rc::new(RefCell::new(vec![]));
                let rr = RoundRobin::new((0..n).map(|i| Backend { idx: i, log: log.clone() }).collect());
                for c in 0..(6 * period) {
                    if pat & (1 << (c % period)) != 0 {
                        let unpolled = rr.call(ctx, 9_000 + c as u64);
                        drop(unpolled);
                    }
                    let f = rr.call(ctx, c as u64);
                    futures::pin_mut!(f);
                    let _ = drive(f, 10);
                    if let Err(e) = balanced(&log.borrow(), n) {
                        st.failures.push(("C20-rr-unbalanced".into(), format!("n={n}, call futures created and dropped unpolled before calls {pat:#b} (period {period}): {e}")));
                        break;
                    }
                }
                st.evals += 1;
                st.distinct.insert(h(&("rr-unpolled", n, period, pat)));
            }
        }
        // two (three) independent round-robin stubs in one process, called in every short periodic
        // interleaving: each spreads ITS calls evenly, whatever the others are doing (seeded change
        // C20k drew the turns of every stub from one process-wide counter)
        for pools in 2..=3usize {
            for period in 1..=4usize {
                for pat in 0..pools.pow(period as u32) {
                    let order: Vec<usize> = (0..period).map(|i| (pat / pools.pow(i as u32)) % pools).collect();
                    let logs: Vec<Log> = (0..pools).map(|_| Rc::new(RefCell::new(vec![]))).collect();
                    let rrs: Vec<_> = logs.iter().map(|l| RoundRobin::new((0..n).map(|i| Backend { idx: i, log: l.clone() }).collect())).collect();
                    for c in 0..(6 * period) {
                        let which = order[c % period];
                        let f = rrs[which].call(ctx, c as u64);
                        futures::pin_mut!(f);
                        let _ = drive(f, 10);
                        if let Err(e) = balanced(&logs[which].borrow(), n) {
                            st.failures.push(("C20-rr-unbalanced".into(), format!("n={n}, {pools} independent stubs called in the repeating order {order:?}: stub {which} after {} calls overall: {e}", c + 1)));
                        }
                    }
                    st.evals += 1;
                    st.distinct.insert(h(&("rr-pools", n, pools, period, pat)));
                }
            }
        }
        // task-level concurrency: 3 calls created, first polls in every order, all stay in flight
        let orders: [[usize; 3]; 6] = [[0, 1, 2], [0, 2, 1], [1, 0, 2], [1, 2, 0], [2, 0, 1], [2, 1, 0]];
        for order in orders {
            for pre in 0..=n {
                let log: Log = Rc::new(RefCell::new(vec![]));
                let rr = RoundRobin::new((0..n).map(|i| PendingBackend { idx: i, log: log.clone() }).collect::<Vec<_>>());
                // `pre` earlier calls move the cursor
                let mut keep = vec![];
                for c in 0..pre {
                    let mut f = Box::pin(rr.call(ctx, 100 + c as u64));
                    let w = futures::task::noop_waker();
                    let _ = f.as_mut().poll(&mut Context::from_waker(&w));
                    keep.push(f);
                }
                let mut futs: Vec<Pin<Box<dyn Future<Output = Result<u64, RpcError>> + '_>>> =
                    (0..3).map(|c| Box::pin(rr.call(ctx, c as u64)) as _).collect();
                let w = futures::task::noop_waker();
                for i in order {
                    let _ = futs[i].as_mut().poll(&mut Context::from_waker(&w));
                }
                // polling again must not move the cursor
                for i in order {
                    let _ = futs[i].as_mut().poll(&mut Context::from_waker(&w));
                }
                st.evals += 1;
                st.distinct.insert(h(&("rr-conc", n, order, pre)));
                if let Err(e) = balanced(&log.borrow(), n) {
                    st.failures.push(("C20-rr-unbalanced-concurrent".into(), format!("n={n} first-poll order {order:?} after {pre} calls: {e}")));
                }
                if log.borrow().len() != pre + 3 {
                    st.failures.push(("C20-rr-repoll-moves-cursor".into(), format!("n={n}: {} backend calls for {} calls", log.borrow().len(), pre + 3)));
                }
                drop(futs);
                drop(keep);
            }
        }
    }
}

#[derive(Clone)]
struct FixedHasher {
    mode: u8,
    val: u64,
}
struct FH {
    mode: u8,
    val: u64,
    acc: u64,
}
impl Hasher for FH {
    fn finish(&self) -> u64 {
        match self.mode {
            0 => self.val,
            1 => self.acc,
            _ => self.acc.wrapping_mul(0x9E37_79B9_7F4A_7C15) ^ self.val,
        }
    }
    fn write(&mut self, bytes: &[u8]) {
        for b in bytes {
            self.acc = self.acc.wrapping_mul(31).wrapping_add(*b as u64);
        }
    }
}
impl BuildHasher for FixedHasher {
    type Hasher = FH;
    fn build_hasher(&self) -> FH {
        FH { mode: self.mode, val: self.val, acc: 0 }
    }
}

fn consistent_hash(st: &mut St) {
    let ctx = context::current();
    let reqs: [u64; 8] = [0, 1, 2, 3, 255, 256, 1 << 63, u64::MAX];
    for n in 1..=5usize {
        let vals = [0u64, 1, (n as u64).wrapping_sub(1), n as u64, n as u64 + 1, 1 << 63, u64::MAX];
        for mode in 0..3u8 {
            for val in vals {
                let log: Log = Rc::new(RefCell::new(vec![]));
                let r = std::panic::catch_unwind(std::panic::AssertUnwindSafe(|| {
                    let ch = ConsistentHash::with_hasher(
                        (0..n).map(|i| Backend { idx: i, log: log.clone() }).collect(),
                        FixedHasher { mode, val },
                    )
                    .unwrap();
                    let ch2 = ch.clone();
                    for round in 0..3 {
                        for r in reqs {
                            let s = if round == 1 { &ch2 } else { &ch };
                            let f = s.call(ctx, r);
                            futures::pin_mut!(f);
                            let _ = drive(f, 10);
                        }
                    }
                }));
                st.evals += 1;
                st.distinct.insert(h(&("ch", n, mode, val)));
                if r.is_err() {
                    st.failures.push(("C20-ch-panic".into(), format!("n={n} hasher mode {mode} value {val}: {}", crate::mock::take_panic())));
                    continue;
                }
                let l = log.borrow();
                if l.len() != 24 {
                    st.failures.push(("C20-ch-lost-call".into(), format!("n={n}: {} of 24 calls reached a backend", l.len())));
                }
                let mut map = std::collections::BTreeMap::new();
                for (b, r) in l.iter() {
                    if *b >= n {
                        st.failures.push(("C20-ch-invalid-backend".into(), format!("n={n}: backend {b}")));
                    }
                    if let Some(prev) = map.insert(*r, *b) {
                        if prev != *b {
                            st.failures.push(("C20-ch-inconsistent".into(), format!("n={n} hasher mode {mode}: request {r} went to backends {prev} and {b}")));
                        }
                    }
                }
            }
        }
        // the default RandomState: value-independent oracle
        let log: Log = Rc::new(RefCell::new(vec![]));
        let r = std::panic::catch_unwind(std::panic::AssertUnwindSafe(|| {
            let ch = ConsistentHash::new((0..n).map(|i| Backend { idx: i, log: log.clone() }).collect()).unwrap();
            for _ in 0..3 {
                for r in reqs {
                    let f = ch.call(ctx, r);
                    futures::pin_mut!(f);
                    let _ = drive(f, 10);
                }
            }
        }));
        if r.is_err() {
            st.failures.push(("C20-ch-panic".into(), format!("n={n} RandomState: {}", crate::mock::take_panic())));
            continue;
        }
        st.evals += 1;
        st.distinct.insert(h(&("ch-random", n)));
        let mut map = std::collections::BTreeMap::new();
        for (b, r) in log.borrow().iter() {
            if *b >= n {
                st.failures.push(("C20-ch-invalid-backend".into(), format!("n={n}: backend {b}")));
            }
            if let Some(prev) = map.insert(*r, *b) {
                if prev != *b {
                    st.failures.push(("C20-ch-inconsistent".into(), format!("n={n} RandomState: request {r} went to backends {prev} and {b}")));
                }
            }
        }
    }
}

/// Backend for Retry: answers from a script, remembers the Arc it was given.
/// error kinds a backend may return: 0 = server error, 1 = deadline exceeded, 2 = shutdown,
/// 3 = send failure, 4 = channel failure
struct Scripted {
    script: Vec<Result<u64, u32>>,
    seen: RefCell<Vec<Arc<u64>>>,
    /// (deadline, trace id) of the context each attempt was made with
    seen_ctx: RefCell<Vec<(std::time::Instant, u128)>>,
}

fn mk_err(kind: u32, attempt: usize) -> RpcError {
    match kind {
        0 => RpcError::Server(ServerError::new(std::io::ErrorKind::Other, format!("e{attempt}"))),
        1 => RpcError::DeadlineExceeded,
        2 => RpcError::Shutdown,
        3 => RpcError::Send(format!("send{attempt}").into()),
        5 => RpcError::Channel(tarpc::ChannelError::Write(Arc::new(std::io::Error::new(
            std::io::ErrorKind::Other,
            format!("chan{attempt}"),
        ))
            as Arc<dyn std::error::Error + Send + Sync>)),
        _ => RpcError::Server(ServerError::new(std::io::ErrorKind::WouldBlock, format!("busy{attempt}"))),
    }
}

fn show(r: &Result<u64, RpcError>) -> String {
    match r {
        Ok(v) => format!("Ok({v})"),
        Err(RpcError::Server(e)) => format!("Server({:?},{})", e.kind, e.detail),
        Err(RpcError::Send(e)) => format!("Send({e})"),
        Err(RpcError::Channel(c)) => format!("Channel({c:?})"),
        Err(e) => format!("{e:?}"),
    }
}
impl Stub for &Scripted {
    type Req = Arc<u64>;
    type Resp = u64;
    async fn call(&self, ctx: context::Context, r: Arc<u64>) -> Result<u64, RpcError> {
        let k = self.seen.borrow().len();
        self.seen.borrow_mut().push(r);
        self.seen_ctx.borrow_mut().push((ctx.deadline, u128::from(ctx.trace_context.trace_id)));
        match self.script.get(k) {
            Some(Ok(v)) => Ok(*v),
            Some(Err(e)) => Err(mk_err(*e, k)),
            None => Ok(u64::MAX),
        }
    }
}

/// A request with a name of its own, as the generated request enums have.
struct Named(&'static str);
impl tarpc::RequestName for Named {
    fn name(&self) -> &str {
        self.0
    }
}
struct NameLog(RefCell<Vec<String>>);
impl Stub for &NameLog {
    type Req = Arc<Named>;
    type Resp = u64;
    async fn call(&self, _: context::Context, r: Arc<Named>) -> Result<u64, RpcError> {
        use tarpc::RequestName;
        self.0.borrow_mut().push(r.name().to_string());
        Err(RpcError::Shutdown)
    }
}

/// What travels below the retry stub is the caller's request behind an `Arc`: every attempt still
/// bears the request's own name (spans and server hooks read it), as does a boxed request
/// (seeded change C17n gave the smart-pointer impls of RequestName a default body).
fn retry_names(st: &mut St) {
    use tarpc::RequestName;
    for name in ["World.hello", "World.add", ""] {
        st.evals += 1;
        st.distinct.insert(h(&("retry-name", name)));
        let direct = (Arc::new(Named(name)).name().to_string(), Box::new(Named(name)).name().to_string());
        if direct.0 != name || direct.1 != name {
            st.failures.push(("C20-retry-request-name".into(), format!("a request named {name:?} reports the name {:?} behind an Arc and {:?} in a Box", direct.0, direct.1)));
        }
        let backend = NameLog(RefCell::new(vec![]));
        let stub = Retry::new(&backend, |_: &Result<u64, RpcError>, attempt: u32| attempt < 3);
        let f = stub.call(context::current(), Named(name));
        futures::pin_mut!(f);
        let _ = drive(f, 100);
        let seen = backend.0.borrow().clone();
        if seen.len() != 3 || seen.iter().any(|n| n != name) {
            st.failures.push(("C20-retry-request-name".into(), format!("three attempts of a request named {name:?} through the retry stub reached the backend under the names {seen:?}")));
        }
    }
}

fn retry(st: &mut St, max_len: usize) {
    retry_names(st);
    // two callers' contexts: a deadline ten seconds away, and one that has already passed (every
    // attempt is still made with the caller's context, not with a fresh one)
    let now = std::time::Instant::now();
    for (ci, deadline) in [now + std::time::Duration::from_secs(10), now.checked_sub(std::time::Duration::from_secs(1)).unwrap_or(now)].into_iter().enumerate() {
        let mut ctx = context::current();
        ctx.deadline = deadline;
        ctx.trace_context.trace_id = tarpc::trace::TraceId::from(0x5150u128 + ci as u128);
        retry_with(st, if ci == 0 { max_len } else { max_len.min(3) }, ctx);
    }
}

fn retry_with(st: &mut St, max_len: usize, ctx: context::Context) {
    for len in 1..=max_len {
        for shape in 0..7u32.pow(len as u32) {
            // result sequence: digit i (base 7) = 0: attempt i+1 succeeds, 1..=6: fails with that kind
            let script: Vec<Result<u64, u32>> = (0..len)
                .map(|i| {
                    let d = (shape / 7u32.pow(i as u32)) % 7;
                    if d == 0 { Ok(1000 + i as u64) } else { Err(d - 1) }
                })
                .collect();
            // every policy table over (is_ok, attempt) for attempts < len; the policy declines at attempt len
            for policy in 0..(1u32 << (2 * (len - 1))) {
                let seen_attempts: Rc<RefCell<Vec<u32>>> = Rc::new(RefCell::new(vec![]));
                let backend = Scripted { script: script.clone(), seen: RefCell::new(vec![]), seen_ctx: RefCell::new(vec![]) };
                let sa = seen_attempts.clone();
                let l = len as u32;
                let stub = Retry::new(&backend, move |r: &Result<u64, RpcError>, attempt: u32| {
                    sa.borrow_mut().push(attempt);
                    if attempt >= l {
                        return false;
                    }
                    let bit = 2 * (attempt - 1) + r.is_ok() as u32;
                    policy & (1 << bit) != 0
                });
                let f = stub.call(ctx, 42u64);
                futures::pin_mut!(f);
                let out = drive(f, 100);
                st.evals += 1;
                st.distinct.insert(h(&("retry", len, shape, policy, u128::from(ctx.trace_context.trace_id))));
                // reference: walk the script with the policy
                let mut k = 1u32;
                loop {
                    let ok = script[(k - 1) as usize].is_ok();
                    let retry = k < l && policy & (1 << (2 * (k - 1) + ok as u32)) != 0;
                    if !retry {
                        break;
                    }
                    k += 1;
                }
                let want_attempts: Vec<u32> = (1..=k).collect();
                let label = format!("results {script:?} policy {policy:#b}");
                if st.evals % 30_011 == 1 && st.samples.len() < 6 {
                    st.samples.push(format!("retry: backend {label}: policy saw attempts {:?}, backend called {} times", seen_attempts.borrow(), backend.seen.borrow().len()));
                }
                if *seen_attempts.borrow() != want_attempts {
                    st.failures.push(("C20-retry-attempt-numbers".into(), format!("{label}: policy saw attempts {:?}, expected {want_attempts:?}", seen_attempts.borrow())));
                }
                let seen = backend.seen.borrow();
                if seen.len() != k as usize {
                    st.failures.push(("C20-retry-attempt-count".into(), format!("{label}: backend called {} times, expected {k}", seen.len())));
                }
                let want_ctx = (ctx.deadline, u128::from(ctx.trace_context.trace_id));
                if backend.seen_ctx.borrow().iter().any(|c| *c != want_ctx) {
                    st.failures.push(("C20-retry-context-changed".into(), format!("{label}: an attempt was made with a context other than the caller's (deadline / trace id differ)")));
                }
                if seen.iter().any(|a| **a != 42 || !Arc::ptr_eq(a, &seen[0])) {
                    st.failures.push(("C20-retry-request-changed".into(), format!("{label}: the backend did not receive the identical request each time")));
                }
                let want: Result<u64, RpcError> = match &script[(k - 1) as usize] {
                    Ok(v) => Ok(*v),
                    Err(e) => Err(mk_err(*e, (k - 1) as usize)),
                };
                let got_s = out.as_ref().map(show).unwrap_or_else(|| "stuck".into());
                let want_s = show(&want);
                if got_s != want_s {
                    st.failures.push(("C20-retry-result".into(), format!("{label}: returned {got_s}, last result was {want_s}")));
                }
            }
        }
    }
}

/// Long runs: the policy asks for exactly `wanted` attempts (a polling policy: "retry while the
/// answer says not done"), the backend fails every attempt but the last. Lengths around every power
/// of two up to `max` and around 1000: a bound or a counter that wraps shows at its edge.
fn retry_long(st: &mut St, max: u32) {
    let mut lens: Vec<u32> = vec![];
    let mut p = 8u32;
    while p <= max {
        lens.extend([p - 1, p, p + 1]);
        p *= 2;
    }
    lens.extend([99, 100, 101, 999, 1000, 1001, 1500]);
    lens.retain(|l| *l <= max + 1);
    lens.sort();
    lens.dedup();
    let ctx = context::current();
    for wanted in lens {
        let seen_attempts: Rc<RefCell<Vec<u32>>> = Rc::new(RefCell::new(vec![]));
        let calls = Rc::new(std::cell::Cell::new(0u32));
        struct Counting(Rc<std::cell::Cell<u32>>, u32);
        impl Stub for &Counting {
            type Req = Arc<u64>;
            type Resp = u64;
            async fn call(&self, _: context::Context, _r: Arc<u64>) -> Result<u64, RpcError> {
                self.0.set(self.0.get() + 1);
                if self.0.get() >= self.1 {
                    Ok(self.0.get() as u64)
                } else {
                    Err(RpcError::Server(ServerError::new(std::io::ErrorKind::WouldBlock, "not yet".to_string())))
                }
            }
        }
        let backend = Counting(calls.clone(), wanted);
        let sa = seen_attempts.clone();
        let stub = Retry::new(&backend, move |_r: &Result<u64, RpcError>, attempt: u32| {
            sa.borrow_mut().push(attempt);
            attempt < wanted
        });
        let f = stub.call(ctx, 42u64);
        futures::pin_mut!(f);
        let out = drive(f, 10);
        st.evals += 1;
        st.distinct.insert(h(&("retry-long", wanted)));
        let want_attempts: Vec<u32> = (1..=wanted).collect();
        if *seen_attempts.borrow() != want_attempts {
            let seen = seen_attempts.borrow();
            st.failures.push(("C20-retry-attempt-numbers".into(), format!("a policy that asks for {wanted} attempts was consulted {} times (last attempt number {:?})", seen.len(), seen.last())));
        }
        if calls.get() != wanted {
            st.failures.push(("C20-retry-attempt-count".into(), format!("a policy that asks for {wanted} attempts: the backend was called {} times", calls.get())));
        }
        match out {
            Some(Ok(v)) if v == wanted as u64 => {}
            other => st.failures.push(("C20-retry-result".into(), format!("a policy that asks for {wanted} attempts: returned {}, the last result was Ok({wanted})", other.as_ref().map(show).unwrap_or_else(|| "stuck".into())))),
        }
    }
}

pub fn run_c20(tier: Tier) -> i32 {
    let start = Instant::now();
    let mut st = St { samples: vec![], evals: 0, distinct: HashSet::new(), failures: vec![] };
    if std::panic::catch_unwind(std::panic::AssertUnwindSafe(|| round_robin(&mut st, 12))).is_err() {
        st.failures.push(("C20-rr-panic".into(), crate::mock::take_panic()));
    }
    consistent_hash(&mut st);
    if std::panic::catch_unwind(std::panic::AssertUnwindSafe(|| retry_long(&mut st, if tier == Tier::Quick { 4096 } else { 1 << 17 }))).is_err() {
        st.failures.push(("C20-retry-panic".into(), crate::mock::take_panic()));
    }
    let rl = if tier == Tier::Quick { 4 } else { 5 };
    if std::panic::catch_unwind(std::panic::AssertUnwindSafe(|| retry(&mut st, rl))).is_err() {
        st.failures.push(("C20-retry-panic".into(), crate::mock::take_panic()));
    }
    // the same grids once more with every tracing callsite enabled (a TRACE-level formatting
    // subscriber writing to a sink): tracing evaluates the fields of an event only when the
    // callsite is enabled, so anything with an effect in there shows only in this regime
    // (seeded change C20e: the retry policy consulted a second time inside a trace! field)
    let before = st.failures.len();
    crate::c16::with_regime(crate::c16::Regime::Fmt, || {
        tracing::callsite::rebuild_interest_cache();
        if std::panic::catch_unwind(std::panic::AssertUnwindSafe(|| round_robin(&mut st, 8))).is_err() {
            st.failures.push(("C20-rr-panic".into(), crate::mock::take_panic()));
        }
        consistent_hash(&mut st);
        if std::panic::catch_unwind(std::panic::AssertUnwindSafe(|| retry(&mut st, rl))).is_err() {
            st.failures.push(("C20-retry-panic".into(), crate::mock::take_panic()));
        }
    });
    tracing::callsite::rebuild_interest_cache();
    for f in st.failures.iter_mut().skip(before) {
        f.1 = format!("[TRACE-level subscriber installed] {}", f.1);
    }
    // thread-level: loom over the extracted module text
    let loom_bin = verif_dir().join("target/loom/release/mc-loom");
    let mut loom_doc = json!({"run": false, "reason": "mc-loom binary not built"});
    if loom_bin.exists() {
        // (threads, calls per thread, elements, preemption bound): few calls over three backends,
        // and enough calls over two backends for a cursor race to accumulate a visible imbalance
        let plans: Vec<(&str, &str, &str, &str)> = if tier == Tier::Quick {
            vec![("2", "2", "3", "3"), ("2", "4", "2", "4")]
        } else {
            vec![("2", "2", "3", "3"), ("2", "4", "2", "4"), ("3", "2", "3", "4"), ("2", "5", "2", "4"), ("2", "3", "3", "5")]
        };
        let mut runs = vec![];
        let mut all_ran = true;
        for (threads, calls, elems, bound) in plans {
            let out = std::process::Command::new(&loom_bin)
                .env("LOOM_MAX_PREEMPTIONS", bound)
                .env("LOOM_THREADS", threads)
                .env("LOOM_CALLS", calls)
                .env("LOOM_ELEMS", elems)
                .output();
            match out {
                Ok(o) => {
                    let text = String::from_utf8_lossy(&o.stdout);
                    let line = text.lines().last().unwrap_or("").to_string();
                    match serde_json::from_str::<serde_json::Value>(&line) {
                        Ok(mut v) => {
                            v["threads"] = json!(threads);
                            v["calls_per_thread"] = json!(calls);
                            v["backends"] = json!(elems);
                            v["preemption_bound"] = json!(bound);
                            if !v["extracted"].as_bool().unwrap_or(false) {
                                all_ran = false;
                            }
                            if let Some(viol) = v["violation"].as_str() {
                                st.failures.push((
                                    "C20-rr-unbalanced-threads(loom)".into(),
                                    format!("{threads} threads x {calls} calls + 1 over {elems} backends, preemption bound {bound}: {viol}"),
                                ));
                            }
                            st.evals += v["executions"].as_u64().unwrap_or(0);
                            runs.push(v);
                        }
                        Err(_) => {
                            all_ran = false;
                            runs.push(json!({"run": false, "reason": format!("unparsable output (exit {:?}): {}", o.status.code(), String::from_utf8_lossy(&o.stderr).lines().last().unwrap_or(""))}));
                        }
                    }
                }
                Err(e) => {
                    all_ran = false;
                    runs.push(json!({"run": false, "reason": e.to_string()}));
                }
            }
        }
        loom_doc = json!({"run": all_ran, "runs": runs});
    }
    finish_grid(
        "C20",
        tier,
        start,
        st.evals,
        st.distinct.len() as u64,
        &st.failures,
        json!({"loom": loom_doc}),
        "round robin: backends n in 1..5, every number of calls 0..12 x every pattern of which of two clones (sharing the cursor) issues each call: per-backend counts differ by <=1 at every prefix; 3 calls created then first-polled in every order (after 0..n earlier calls), re-polls do not move the cursor; thread level: loom explores the module text cut from load_balance.rs (std::sync -> loom::sync) with concurrent next() calls under a preemption bound. consistent hash: n in 1..5 x hashers (constant / request-derived / mixed) with values {0,1,n-1,n,n+1,2^63,u64::MAX} and RandomState: index always valid, equal requests -> same backend, across clones. every grid runs a second time under a TRACE-level formatting subscriber (all tracing callsites enabled). retry: every result sequence of length <=4 over {Ok, Server error, DeadlineExceeded, Shutdown, Send failure, throttling error, Channel failure} x every policy table over (is_ok, attempt): identical Arc each time, attempts 1,2,3.., last result returned. distinct_nontrivial = distinct grid cells",
        st.samples.iter().map(|c| json!({"case": c})).collect(),
    )
}
