//! Properties checked on the `chain` harness: C07 (grid), C04 cascade and C18 across hops
//! (explorer).

use crate::chain::*;
use crate::client_core::{hash_recs, render};
use crate::codec::finish_grid;
use crate::driver::*;
use crate::explore::{nthreads, Harness, Point, RunOut, Violation};
use crate::mock::*;
use serde_json::{json, Value};
use std::collections::{BTreeMap, HashSet};
use std::sync::atomic::{AtomicUsize, Ordering};
use std::sync::Mutex;
use std::time::Instant;

#[derive(Default, Debug)]
pub struct HFacts {
    /// per hop: (deadline_ns, sampled, at_ns, sid, tid)
    pub hstart: BTreeMap<usize, Vec<(i128, bool, i128, u64, u128)>>,
    pub hcurrent: BTreeMap<usize, Vec<(i128, bool, i128, u64, u128)>>,
    /// (hop, deadline_ns of a deadline-less JSON request decoded inside the handler, at_ns)
    pub hdefault: Vec<(usize, i128, i128)>,
    pub hdrop: BTreeMap<usize, usize>,
    pub hfinish: BTreeMap<usize, usize>,
    /// per side: messages sent (rec idx, msg, at_ns)
    pub sent: BTreeMap<u8, Vec<(usize, Msg, i128)>>,
    pub recv: BTreeMap<u8, Vec<(usize, Msg, i128)>>,
    pub head: Option<String>,
    pub abandon: Option<(usize, i128)>,
    pub q1: Option<(usize, Vec<i128>)>,
    pub q2: Option<(usize, Vec<i128>)>,
    pub panics: Vec<String>,
    pub horizon: bool,
    pub transport_errs: Vec<String>,
}

pub fn hfacts(recs: &[Rec]) -> HFacts {
    let mut f = HFacts::default();
    let mut pending: Option<(&'static str, usize, i128, bool, i128)> = None;
    let mut last_sent: Option<(u8, usize, Msg)> = None;
    let mut last_recv: Option<(u8, usize, Msg)> = None;
    for (i, r) in recs.iter().enumerate() {
        match r {
            Rec::N(n @ ("hstart" | "hcurrent"), v) => pending = Some((n, v[0] as usize, v[1], v[2] != 0, v[3])),
            Rec::N("hsid", v) => {
                if let Some((n, hop, d, s, at)) = pending.take() {
                    let e = (d, s, at, v[1] as u64, v[2] as u128);
                    if n == "hstart" {
                        f.hstart.entry(hop).or_default().push(e);
                    } else {
                        f.hcurrent.entry(hop).or_default().push(e);
                    }
                }
            }
            Rec::N("hdefault", v) => f.hdefault.push((v[0] as usize, v[1], v[2])),
            Rec::N("hdrop", v) => {
                f.hdrop.insert(v[0] as usize, i);
            }
            Rec::N("hfinish", v) => {
                f.hfinish.insert(v[0] as usize, i);
            }
            Rec::T { side, op: Op::Send, msg: Some(m), .. } => last_sent = Some((*side, i, m.clone())),
            Rec::N("sent_at", v) => {
                if let Some((s, idx, m)) = last_sent.take() {
                    f.sent.entry(s).or_default().push((idx, m, v[1]));
                }
            }
            Rec::T { side, op: Op::Next, res: Res::Item, msg: Some(m), .. } => last_recv = Some((*side, i, m.clone())),
            Rec::N("recv_at", v) => {
                if let Some((s, idx, m)) = last_recv.take() {
                    f.recv.entry(s).or_default().push((idx, m, v[1]));
                }
            }
            Rec::S("head_done", s) => f.head = Some(s.clone()),
            Rec::N("abandon", v) => f.abandon = Some((i, v[0])),
            Rec::N("Q1", v) => f.q1 = Some((i, v.clone())),
            Rec::N("Q2", v) => f.q2 = Some((i, v.clone())),
            Rec::S("panic", p) => f.panics.push(p.clone()),
            Rec::S("horizon", _) => f.horizon = true,
            Rec::S("transport_err", e) => f.transport_errs.push(e.clone()),
            _ => {}
        }
    }
    f
}

// ---------------------------------------------------------------------------------------------
// C07

const MS: i128 = 1_000_000;

fn c07_case(cfg: &ChainCfg, failures: &mut Vec<(String, String)>) -> u64 {
    c07_eval(cfg, execute(cfg, &[]), failures)
}

fn c07_case_in_place(cfg: &ChainCfg, failures: &mut Vec<(String, String)>) -> u64 {
    c07_eval(cfg, execute_in_place(cfg, &[]), failures)
}

fn c07_eval(cfg: &ChainCfg, e: Exec, failures: &mut Vec<(String, String)>) -> u64 {
    let f = hfacts(&e.recs);
    let label = format!("hops {:?} r={}ns tau={:?}ms regime {:?}", cfg.hops, cfg.r_ns, cfg.tau_ms, cfg.regime);
    for p in &f.panics {
        failures.push(("C07-panic".into(), format!("{label}: {p}")));
    }
    if !f.transport_errs.is_empty() {
        failures.push(("C07-transport-error".into(), format!("{label}: {:?}", f.transport_errs)));
    }
    let d0 = cfg.r_ns as i128; // caller's deadline (relative to t0; the call is issued at t0)
    let mut expected = d0; // deadline the next hop's handler must observe
    let mut transit_total: i128 = 0;
    for (hop, kind) in cfg.hops.iter().enumerate() {
        let cs = (hop * 2) as u8;
        let ss = (hop * 2 + 1) as u8;
        // the request as sent / received on this hop
        let sent = f.sent.get(&cs).and_then(|v| v.iter().find(|(_, m, _)| matches!(m, Msg::Req { .. })));
        let recv = f.recv.get(&ss).and_then(|v| v.iter().find(|(_, m, _)| matches!(m, Msg::Req { .. })));
        let (Some((_, sm, t_send)), Some((_, rm, t_recv))) = (sent, recv) else {
            // an already-expired nested call may legitimately never be transmitted further down
            break;
        };
        let transit = t_recv - t_send;
        let (Msg::Req { deadline_ns: wire_d, .. }, Msg::Req { deadline_ns: got_d, .. }) = (sm, rm) else { continue };
        // what the sender put on the wire is the context it was given
        if *wire_d != expected {
            failures.push((
                "C07-nested-call-deadline".into(),
                format!("{label}: hop {hop}: request sent with deadline {}ms, the context it was issued with says {}ms", wire_d / MS, expected / MS),
            ));
        }
        let want = match kind {
            HopKind::Mem => expected,
            // remaining time is measured when the request is serialized and re-based when it is read
            _ => std::cmp::max(expected, *t_send) + transit,
        };
        if *got_d != want {
            failures.push((
                "C07-deadline-shift".into(),
                format!(
                    "{label}: hop {hop} ({kind:?}): decoded deadline {}ns, expected {}ns (sender's {}ns, sent at {}ns, read at {}ns)",
                    got_d, want, expected, t_send, t_recv
                ),
            ));
        }
        if *got_d < expected {
            failures.push(("C07-deadline-earlier".into(), format!("{label}: hop {hop}: deadline moved earlier ({} -> {})", expected, got_d)));
        }
        transit_total += transit;
        if *got_d > std::cmp::max(d0, *t_send) + transit_total && *got_d > d0 + transit_total {
            failures.push((
                "C07-deadline-stretched".into(),
                format!("{label}: hop {hop}: deadline {}ns exceeds the caller's {}ns by more than the accumulated transit {}ns", got_d, d0, transit_total),
            ));
        }
        // what the handler observes is what was decoded
        match f.hstart.get(&hop).and_then(|v| v.first()) {
            Some((hd, _, _, _, _)) => {
                if *hd != *got_d {
                    failures.push((
                        "C07-handler-context".into(),
                        format!("{label}: hop {hop}: handler observed deadline {}ns, the request carried {}ns", hd, got_d),
                    ));
                }
                if cfg.regime == Regime::Otel {
                    for (h, d, at) in f.hdefault.iter().filter(|(h, _, _)| *h == hop) {
                        if *d != *at + 10_000_000_000 {
                            failures.push((
                                "C07-default-deadline".into(),
                                format!("{label}: hop {h}: a JSON request without a deadline decoded inside the handler (at {at}ns) got the deadline {d}ns; the documented default is 10 s from then"),
                            ));
                        }
                    }
                    // [0] asked in the handler's body, [1] asked inside a span of the handler's own
                    let seen = f.hcurrent.get(&hop).cloned().unwrap_or_default();
                    if seen.len() < 2 || seen.iter().any(|(cd, _, _, _, _)| *cd != *got_d) {
                        failures.push((
                            "C07-current-context".into(),
                            format!("{label}: hop {hop}: context::current() inside the handler (in its body, inside a span of its own) gave {:?}, the request carried {}ns", seen.iter().map(|o| o.0).collect::<Vec<_>>(), got_d),
                        ));
                    }
                }
            }
            None => {
                // the handler may never run if the deadline had passed on arrival and the channel
                // expired it first; with handlers polled first this should not happen
                failures.push(("C07-handler-never-ran".into(), format!("{label}: hop {hop}")));
            }
        }
        expected = *got_d;
    }
    e.steps as u64
}

pub fn run_c07(tier: Tier) -> i32 {
    let start = Instant::now();
    let rs: Vec<u64> = if tier == Tier::Quick {
        // (spans beyond the two years the deadline *timers* support still travel exactly)
        vec![0, 1, 1_000_000, 999_000_000, 1_000_000_000, 10_000_000_000, 3_600_000_000_000, 400 * 86_400_000_000_000, 1_100 * 86_400_000_000_000, 40_000 * 86_400_000_000_000]
    } else {
        vec![0, 1, 999, 1_000_000, 1_500_000, 999_000_000, 1_000_000_000, 1_000_000_001, 10_000_000_000, 60_000_000_000, 3_600_000_000_000, 400 * 86_400_000_000_000, 700 * 86_400_000_000_000, 731 * 86_400_000_000_000, 1_100 * 86_400_000_000_000, 11_000 * 86_400_000_000_000, 40_000 * 86_400_000_000_000]
    };
    let taus: Vec<u64> = if tier == Tier::Quick { vec![0, 1, 1000, 20_000] } else { vec![0, 1, 7, 1000, 20_000, 3_600_000] };
    let kinds = [HopKind::Mem, HopKind::Json, HopKind::Bincode];
    let mut cfgs = vec![];
    for depth in 1..=3usize {
        // every assignment of transports to hops
        let n = 3usize.pow(depth as u32);
        for a in 0..n {
            let hops: Vec<HopKind> = (0..depth).map(|i| kinds[(a / 3usize.pow(i as u32)) % 3]).collect();
            for r in &rs {
                for tau in &taus {
                    // per-hop delays: the same tau on every hop, and (depth>1) a staggered variant
                    let mut variants = vec![vec![*tau; depth]];
                    if depth > 1 && *tau > 0 {
                        variants.push((0..depth).map(|i| if i % 2 == 0 { *tau } else { 1 }).collect());
                    }
                    for tv in variants {
                        for regime in [Regime::NoSubscriber, Regime::Otel] {
                            if regime == Regime::Otel && (depth == 3 && tier == Tier::Quick) {
                                continue;
                            }
                            cfgs.push(ChainCfg {
                                hops: hops.clone(),
                                r_ns: *r,
                                tau_ms: tv.clone(),
                                regime,
                                last_finishes: true,
                                abandon_after: None,
                                alphabet: 0,
                                own_clients: false,
                                client_mif: 0,
                                zero_trace_id: false,
                                head_untraced: false,
                                head_unsampled: false,
                            });
                            // a traced server behind an untraced caller (the request then
                            // carries the all-zero trace id): the handler's ambient context
                            // still has the request's deadline (seeded change C07d)
                            if regime == Regime::Otel && tv.iter().all(|t| *t == *tau) {
                                cfgs.push(ChainCfg {
                                    hops: hops.clone(),
                                    r_ns: *r,
                                    tau_ms: tv.clone(),
                                    regime,
                                    last_finishes: true,
                                    abandon_after: None,
                                    alphabet: 0,
                                    own_clients: false,
                                    client_mif: 0,
                                    zero_trace_id: true,
                                    head_untraced: true,
                                    head_unsampled: false,
                                });
                            }
                        }
                    }
                }
            }
        }
    }
    // Phase 1: the no-subscriber cells, in parallel. Phase 2: the OpenTelemetry cells on one
    // thread under one subscriber installed once: tracing caches callsite interest process-wide,
    // and per-thread subscribers created and dropped concurrently with other threads that have
    // none made the span (and with it the span-scoped deadline) intermittently disabled - a
    // property of the harness's regime set-up, not of tarpc.
    let (plain, otel): (Vec<ChainCfg>, Vec<ChainCfg>) = cfgs.iter().cloned().partition(|c| c.regime == Regime::NoSubscriber);
    let next = AtomicUsize::new(0);
    let total: Mutex<(u64, Vec<(String, String)>, u64)> = Mutex::new((0, vec![], 0));
    std::thread::scope(|s| {
        for _ in 0..nthreads() {
            s.spawn(|| {
                let mut fails = vec![];
                let (mut n, mut steps) = (0u64, 0u64);
                loop {
                    let i = next.fetch_add(1, Ordering::SeqCst);
                    if i >= plain.len() {
                        break;
                    }
                    steps += c07_case(&plain[i], &mut fails);
                    n += 1;
                }
                let mut t = total.lock().unwrap();
                t.0 += n;
                t.1.extend(fails);
                t.2 += steps;
            });
        }
    });
    {
        use opentelemetry::trace::TracerProvider as _;
        use tracing_subscriber::layer::SubscriberExt;
        let provider = opentelemetry_sdk::trace::TracerProvider::builder().build();
        let tracer = provider.tracer("mc");
        let sub = tracing_subscriber::registry().with(tracing_opentelemetry::layer().with_tracer(tracer));
        tracing::subscriber::with_default(sub, || {
            tracing::callsite::rebuild_interest_cache();
            let mut t = total.lock().unwrap();
            for c in &otel {
                let mut c2 = c.clone();
                // the subscriber is already installed for this thread: run the cell in place
                c2.regime = Regime::Otel;
                let mut fails = vec![];
                t.2 += c07_case_in_place(&c2, &mut fails);
                t.1.extend(fails);
                t.0 += 1;
            }
        });
    }
    let (n, mut fails, steps) = total.into_inner().unwrap();
    // the documented default for an omitted deadline (self-describing encoding)
    {
        let rt = tokio::runtime::Builder::new_current_thread().enable_time().start_paused(true).build().unwrap();
        rt.block_on(async {
            let now = tokio::time::Instant::now().into_std();
            let js = r#"{"Request":{"context":{"trace_context":{"trace_id":[1,0,0,0,0,0,0,0,0,0,0,0,0,0,0,0],"span_id":2,"sampling_decision":"Sampled"}},"id":9,"message":3}}"#;
            match serde_json::from_str::<tarpc::ClientMessage<u32>>(js) {
                Ok(tarpc::ClientMessage::Request(r)) => {
                    let d = r.context.deadline.checked_duration_since(now);
                    if d != Some(std::time::Duration::from_secs(10)) {
                        fails.push(("C07-default-deadline".into(), format!("omitted deadline decoded as now+{d:?}, documented default is 10s")));
                    }
                }
                other => fails.push(("C07-default-deadline".into(), format!("request without deadline rejected: {:?}", other.map(|_| ()).map_err(|e| e.to_string())))),
            }
            // two requests with the same deadline written 600 ms apart (a context used twice): each
            // carries the time left when IT is written (seeded change C07l cached the first value)
            {
                let mut ctx = tarpc::context::current();
                ctx.deadline = now + std::time::Duration::from_secs(60);
                let left = |js: &str| -> Option<std::time::Duration> {
                    let v: serde_json::Value = serde_json::from_str(js).ok()?;
                    let d = &v["Request"]["context"]["deadline"];
                    Some(std::time::Duration::new(d["secs"].as_u64()?, d["nanos"].as_u64()? as u32))
                };
                let m = |id| tarpc::ClientMessage::Request(tarpc::Request { context: ctx, id, message: 3u32 });
                let first = serde_json::to_string(&m(1)).ok().and_then(|j| left(&j));
                tokio::time::advance(std::time::Duration::from_millis(600)).await;
                let second = serde_json::to_string(&m(2)).ok().and_then(|j| left(&j));
                let again = serde_json::to_string(&m(3)).ok().and_then(|j| left(&j));
                if first != Some(std::time::Duration::from_secs(60)) || second != Some(std::time::Duration::from_millis(59_400)) || again != second {
                    fails.push(("C07-deadline-stretched".into(), format!("one context used for three JSON requests, the second and third written 600 ms after the first: time left on the wire {first:?}, {second:?}, {again:?} (expected 60 s, 59.4 s, 59.4 s)")));
                }
            }
            // a stated remainder the receiver's clock cannot express (a caller whose deadline is the
            // last instant of its clock; a peer that writes u64::MAX seconds for "never") is decoded
            // as far away - never earlier than the largest span tarpc supports (2 years), let alone
            // as the 10 s default (seeded change C07n)
            {
                let now = tokio::time::Instant::now().into_std();
                for secs in [u64::MAX, 1u64 << 63, 1u64 << 40, 100_000_000_000] {
                    let js = format!(r#"{{"Request":{{"context":{{"deadline":{{"secs":{secs},"nanos":0}},"trace_context":{{"trace_id":[1,0,0,0,0,0,0,0,0,0,0,0,0,0,0,0],"span_id":2,"sampling_decision":"Sampled"}}}},"id":9,"message":3}}}}"#);
                    match std::panic::catch_unwind(|| serde_json::from_str::<tarpc::ClientMessage<u32>>(&js)) {
                        Ok(Ok(tarpc::ClientMessage::Request(r))) => {
                            let d = r.context.deadline.checked_duration_since(now);
                            if d.map(|d| d < std::time::Duration::from_secs(2 * 365 * 86_400)).unwrap_or(true) {
                                fails.push(("C07-deadline-earlier".into(), format!("a JSON request stating {secs} s left was decoded as now+{d:?}: earlier than the caller's deadline and than any span tarpc supports")));
                            }
                        }
                        Ok(other) => fails.push(("C07-default-deadline".into(), format!("request with {secs} s left rejected: {:?}", other.map(|_| ()).map_err(|e| e.to_string())))),
                        Err(_) => fails.push(("C07-deadline-panic".into(), format!("decoding a request with {secs} s left panicked: {}", crate::mock::take_panic()))),
                    }
                }
            }
            // ... and a deadline that IS there, in the documented format, written by a peer that is
            // not this tree, is the deadline (not the default): 500 ms, 60 s, 1 hour
            let now = tokio::time::Instant::now().into_std();
            for (secs, nanos) in [(0u64, 500_000_000u32), (60, 0), (3600, 0)] {
                let js = format!(r#"{{"Request":{{"context":{{"deadline":{{"secs":{secs},"nanos":{nanos}}},"trace_context":{{"trace_id":[1,0,0,0,0,0,0,0,0,0,0,0,0,0,0,0],"span_id":2,"sampling_decision":"Sampled"}}}},"id":9,"message":3}}}}"#);
                match serde_json::from_str::<tarpc::ClientMessage<u32>>(&js) {
                    Ok(tarpc::ClientMessage::Request(r)) => {
                        let d = r.context.deadline.checked_duration_since(now);
                        if d != Some(std::time::Duration::new(secs, nanos)) {
                            fails.push(("C07-deadline-shift".into(), format!("a JSON request in the documented format with {secs}.{nanos:09} s left was decoded as now+{d:?}")));
                        }
                    }
                    other => fails.push(("C07-default-deadline".into(), format!("request with a deadline rejected: {:?}", other.map(|_| ()).map_err(|e| e.to_string())))),
                }
            }
        });
    }
    let sample = {
        let e = execute(&cfgs[cfgs.len() / 2], &[]);
        json!({"config": serde_json::to_value(&cfgs[cfgs.len() / 2]).unwrap(), "trace": render(&e.recs).lines().take(80).collect::<Vec<_>>()})
    };
    finish_grid(
        "C07",
        tier,
        start,
        n + 1,
        n + 1,
        &fails,
        json!({"grid_cells": n, "transitions": steps}),
        "complete grid: chain depth 1-3 x every assignment of {in-memory channel, serde+Json, serde+Bincode over a byte pipe} to the hops x remaining duration of the caller's deadline (0 = already passed .. 400 days) x per-hop transit delay (uniform and staggered) x {no subscriber, OpenTelemetry layer}; real client dispatches and real BaseChannel.execute at every hop, handlers issue the nested call with their own context; on the hooked virtual clock the oracle is exact: wire deadline of each hop's request == the context it was issued with; decoded deadline == max(sender's deadline, send time) + transit for serde hops, == sender's deadline for in-memory hops; never earlier; never beyond caller's deadline + accumulated transit; handler's ctx (and context::current() under the OpenTelemetry layer) == decoded deadline; omitted JSON deadline == receive time + 10s. Canonical schedule (the property quantifies over inputs/configurations). distinct_nontrivial = grid cells",
        vec![sample],
    )
}

// ---------------------------------------------------------------------------------------------
// C04 cascade / C18 across hops (explorer)

#[derive(Clone, Copy, Debug, PartialEq, Eq)]
pub enum HProp {
    C02,
    C04,
    C18,
}

pub struct ChainHarness {
    pub prop: HProp,
    pub cfgs: Vec<ChainCfg>,
}

impl Harness for ChainHarness {
    fn name(&self) -> String {
        format!("chain/{:?}", self.prop)
    }
    fn n_configs(&self) -> usize {
        self.cfgs.len()
    }
    fn config_json(&self, idx: usize) -> Value {
        serde_json::to_value(&self.cfgs[idx]).unwrap()
    }
    fn run(&self, idx: usize, prefix: &[u16], render_it: bool) -> (RunOut, Vec<Point>) {
        run_cfg(self.prop, &self.cfgs[idx], prefix, render_it)
    }
}

pub fn run_cfg(prop: HProp, cfg: &ChainCfg, prefix: &[u16], render_it: bool) -> (RunOut, Vec<Point>) {
    let e = execute(cfg, prefix);
    let mut out = RunOut {
        trace_hash: hash_recs(&e.recs),
        steps: e.steps,
        state_hashes: e.state_hashes.clone(),
        render: if render_it { Some(render(&e.recs)) } else { None },
        machinery_error: e.err.clone(),
        ..Default::default()
    };
    if out.machinery_error.is_some() {
        return (out, e.points);
    }
    let f = hfacts(&e.recs);
    let mut vs = vec![];
    let depth = cfg.hops.len();
    let class = format!("depth{depth}/{:?}", cfg.hops);
    let mut v = |rule: &str, msg: String| {
        vs.push(Violation { signature: rule.to_string(), message: format!("[{class}] {msg}") })
    };
    for p in &f.panics {
        v("chain-panic", p.clone());
    }
    if f.horizon {
        v("chain-horizon", "step horizon exceeded".into());
    }
    let mut nt = false;
    match prop {
        HProp::C02 => {
            // end-to-end liveness with wake-only polling across every hop
            if let Some((_, q1)) = &f.q1 {
                if cfg.last_finishes && f.abandon.is_none() && f.head.is_none() {
                    v(
                        "C02-chain-Q1-head-pending",
                        "every handler down the chain completes unprompted, the clock is frozen, nothing is woken, yet the head call has not resolved".into(),
                    );
                }
                let _ = q1;
            }
            if let Some((_, q2)) = &f.q2 {
                if q2[0] != 0 {
                    v("C02-chain-Q2-handler-pending", format!("{} handlers still pending at final quiescence", q2[0]));
                }
                if q2[1] == 0 && q2[2] == 0 {
                    v("C02-chain-Q2-head-pending", "the head call is still pending at final quiescence, past every deadline".into());
                }
            }
            nt = f.hstart.len() >= 2 || f.abandon.is_some();
        }
        HProp::C04 => {
            if let (Some((aidx, _)), Some((q1idx, q1))) = (&f.abandon, &f.q1) {
                // the head call was abandoned unresolved
                if f.head.is_none() {
                    let started: Vec<usize> = f.hstart.keys().copied().collect();
                    if started.iter().any(|h| !f.hfinish.contains_key(h)) {
                        nt = true;
                    }
                    // (1) at Q1 (clock frozen) no unfinished handler is left alive anywhere down the chain
                    if q1[0] != 0 {
                        v(
                            "C04-cascade-handler-alive",
                            format!("{} handlers still alive at quiescence after the head call was abandoned", q1[0]),
                        );
                    }
                    for h in &started {
                        if !f.hfinish.contains_key(h) && f.hdrop.get(h).map(|d| d > q1idx).unwrap_or(true) {
                            v("C04-cascade-handler-not-dropped", format!("handler at hop {h} was not stopped"));
                        }
                    }
                    // (2) every hop whose request was transmitted and not answered shows a Cancel after it
                    for hop in 0..depth {
                        let cs = (hop * 2) as u8;
                        let ss = (hop * 2 + 1) as u8;
                        let req = f.sent.get(&cs).and_then(|s| s.iter().find(|(_, m, _)| matches!(m, Msg::Req { .. })));
                        let Some((ridx, Msg::Req { id, .. }, _)) = req else { continue };
                        let answered = f.sent.get(&ss).map(|s| s.iter().any(|(i, m, _)| matches!(m, Msg::Resp { id: rid, .. } if rid == id) && i < q1idx)).unwrap_or(false);
                        let cancelled = f.sent.get(&cs).map(|s| s.iter().any(|(i, m, _)| matches!(m, Msg::Cancel { id: cid, .. } if cid == id) && i > ridx && i < q1idx)).unwrap_or(false);
                        if !answered && !cancelled && ridx < q1idx {
                            v(
                                "C04-cascade-no-cancel",
                                format!("hop {hop}: request {id} was transmitted, never answered, and no cancellation followed after the head call was abandoned"),
                            );
                        }
                    }
                    let _ = aidx;
                }
            }
        }
        HProp::C18 => {
            // trace id and sampling follow the request down the chain; span ids are fresh per hop
            let mut prev_sid: u64 = 0x1111;
            for hop in 0..depth {
                let cs = (hop * 2) as u8;
                let req = f.sent.get(&cs).and_then(|s| s.iter().find(|(_, m, _)| matches!(m, Msg::Req { .. })));
                let Some((_, Msg::Req { id, tid, sid, sampled, .. }, _)) = req else { break };
                nt = nt || hop > 0;
                if *tid != cfg.head_tid() || !*sampled {
                    v("C18-hop-request-trace", format!("hop {hop}: request transmitted with trace id {tid:x} sampled {sampled}, the caller supplied {:x}/true", cfg.head_tid()));
                }
                if *sid == prev_sid {
                    v("C18-hop-span-not-fresh", format!("hop {hop}: request reuses span id {sid:x}"));
                }
                if let Some((_, hs, _, hsid, htid)) = f.hstart.get(&hop).and_then(|x| x.first()) {
                    if *htid != *tid || !*hs {
                        v("C18-handler-trace", format!("hop {hop}: handler observed trace id {htid:x} sampled {hs}, the request carried {tid:x}/true"));
                    }
                    if *hsid == *sid {
                        v("C18-handler-span-not-fresh", format!("hop {hop}: handler's span id equals the transmitted one"));
                    }
                    prev_sid = *hsid;
                }
                for (_, m, _) in f.sent.get(&cs).map(|s| s.as_slice()).unwrap_or(&[]) {
                    if let Msg::Cancel { id: cid, tid: ct, sid: csid, sampled: csm } = m {
                        nt = true;
                        if cid == id && (*ct != *tid || *csid != *sid || *csm != *sampled) {
                            v(
                                "C18-hop-cancel-trace",
                                format!("hop {hop}: cancellation carries ({ct:x},{csid:x},{csm}), its request carried ({tid:x},{sid:x},{sampled})"),
                            );
                        }
                    }
                }
            }
        }
    }
    let mut h = std::collections::hash_map::DefaultHasher::new();
    use std::hash::{Hash, Hasher};
    (f.head.clone(), f.abandon.is_some(), f.hstart.len(), f.hdrop.len(), f.hfinish.len()).hash(&mut h);
    out.outcome_hash = h.finish();
    out.nontrivial = nt;
    out.violations = vs;
    let _: HashSet<u8> = HashSet::new();
    (out, e.points)
}

pub fn configs(prop: HProp, tier: Tier) -> Vec<ChainCfg> {
    let mut out = vec![];
    if prop == HProp::C02 {
        for depth in 1..=3usize {
            for kind in [HopKind::Mem, HopKind::Json] {
                for last_finishes in [true, false] {
                    for abandon_after in [None, Some(2)] {
                        if depth == 3 && tier == Tier::Quick && (kind == HopKind::Json && abandon_after.is_some()) {
                            continue;
                        }
                        for own_clients in [false, true] {
                            if own_clients && (kind != HopKind::Mem || depth == 3 && tier == Tier::Quick) {
                                continue;
                            }
                            out.push(ChainCfg {
                                hops: vec![kind; depth],
                                r_ns: if last_finishes { 10_000_000_000 } else { 50_000_000 },
                                tau_ms: vec![0; depth],
                                regime: Regime::NoSubscriber,
                                last_finishes,
                                abandon_after,
                                alphabet: H_ABANDON | H_FINISH | H_REORDER,
                                own_clients,
                                client_mif: 0,
                                zero_trace_id: false,
                                head_untraced: false,
                                head_unsampled: false,
                            });
                        }
                    }
                }
            }
        }
        return out;
    }
    for depth in 1..=3usize {
        for last_finishes in [false, true] {
            let mk = |abandon_after: Option<u32>| ChainCfg {
                hops: vec![HopKind::Mem; depth],
                r_ns: 10_000_000_000,
                tau_ms: vec![0; depth],
                regime: Regime::NoSubscriber,
                last_finishes,
                abandon_after,
                alphabet: H_ABANDON | H_FINISH,
                own_clients: false,
                client_mif: 0,
                zero_trace_id: false,
                head_untraced: false,
                head_unsampled: false,
            };
            out.push(mk(None));
            for k in 0..=(if tier == Tier::Quick { 2 } else { 3 }) {
                out.push(mk(Some(k)));
            }
        }
    }
    // the head caller is an untraced process: the all-zero trace id must travel like any other
    if prop == HProp::C18 {
        for depth in 1..=3usize {
            for abandon_after in [None, Some(2)] {
                out.push(ChainCfg {
                    hops: vec![HopKind::Mem; depth],
                    r_ns: 10_000_000_000,
                    tau_ms: vec![0; depth],
                    regime: Regime::NoSubscriber,
                    last_finishes: abandon_after.is_none(),
                    abandon_after,
                    alphabet: H_ABANDON | H_FINISH,
                    own_clients: false,
                    client_mif: 0,
                    zero_trace_id: true,
                    head_untraced: false,
                    head_unsampled: false,
                });
            }
        }
    }
    // back-pressure on the clients' outbound side somewhere along the chain
    for depth in 2..=(if prop == HProp::C04 { 3usize } else { 0 }) {
        for gated in 0..depth {
            for last_finishes in [false, true] {
                let hops: Vec<HopKind> = (0..depth).map(|i| if i == gated { HopKind::Gated } else { HopKind::Mem }).collect();
                for abandon_after in [None, Some(2)] {
                    out.push(ChainCfg {
                        hops: hops.clone(),
                        r_ns: 10_000_000_000,
                        tau_ms: vec![0; depth],
                        regime: Regime::NoSubscriber,
                        last_finishes,
                        abandon_after,
                        alphabet: H_ABANDON | H_FINISH | H_GATE,
                        own_clients: false,
                        client_mif: 0,
                        zero_trace_id: false,
                        head_untraced: false,
                        head_unsampled: false,
                    });
                }
            }
        }
    }
    // the head call has less than a second (800 ms, 1 ms) or exactly one second left when it is
    // abandoned: it is cancelled down the chain like any other (seeded change C04j sent no Cancel
    // for a call with "0 whole seconds" left)
    if prop == HProp::C04 {
        for depth in 1..=3usize {
            for r_ns in [800_000_000u64, 1_000_000, 1_000_000_000] {
                for hops in [vec![HopKind::Mem; depth], vec![HopKind::Json; depth]] {
                    if depth == 3 && hops[0] != HopKind::Mem && tier == Tier::Quick {
                        continue;
                    }
                    out.push(ChainCfg {
                        hops,
                        r_ns,
                        tau_ms: vec![0; depth],
                        regime: Regime::NoSubscriber,
                        last_finishes: false,
                        abandon_after: Some(2),
                        alphabet: H_ABANDON | H_FINISH,
                        own_clients: false,
                        client_mif: 0,
                        zero_trace_id: false,
                        head_untraced: false,
                        head_unsampled: false,
                    });
                }
            }
        }
    }
    // every handle owned by the future that uses it: an abandoned call takes the last handle of
    // its client with it, and the cancellation must still go out while that dispatch shuts down
    // (seeded changes C03c/C04c)
    if prop == HProp::C04 {
        for depth in 1..=3usize {
            for last_finishes in [false, true] {
                for abandon_after in [None, Some(1), Some(2)] {
                    out.push(ChainCfg {
                        hops: vec![HopKind::Mem; depth],
                        r_ns: 10_000_000_000,
                        tau_ms: vec![0; depth],
                        regime: Regime::NoSubscriber,
                        last_finishes,
                        abandon_after,
                        alphabet: H_ABANDON | H_FINISH,
                        own_clients: true,
                        client_mif: 0,
                        zero_trace_id: false,
                        head_untraced: false,
                        head_unsampled: false,
                    });
                    // the abandoned call fills its client's in-flight limit (seeded change C04d:
                    // cancellations were held back while the client was at capacity)
                    out.push(ChainCfg {
                        hops: vec![HopKind::Mem; depth],
                        r_ns: 10_000_000_000,
                        tau_ms: vec![0; depth],
                        regime: Regime::NoSubscriber,
                        last_finishes,
                        abandon_after,
                        alphabet: H_ABANDON | H_FINISH,
                        own_clients: false,
                        client_mif: 1,
                        zero_trace_id: false,
                        head_untraced: false,
                        head_unsampled: false,
                    });
                }
            }
        }
    }
    // one serde chain so that cancels travel over a byte pipe as well
    for last_finishes in [false, true] {
        out.push(ChainCfg {
            hops: vec![HopKind::Json, HopKind::Bincode],
            r_ns: 10_000_000_000,
            tau_ms: vec![0, 0],
            regime: Regime::NoSubscriber,
            last_finishes,
            abandon_after: None,
            alphabet: H_ABANDON | H_FINISH | H_REORDER,
            own_clients: false,
            client_mif: 0,
            zero_trace_id: false,
            head_untraced: false,
            head_unsampled: false,
        });
    }
    out
}

/// C18 under an OpenTelemetry layer: the tracer chooses trace ids and the sampling decision, so
/// the oracle is consistency along the chain: what is transmitted at hop k is what hop k's
/// handler observes (same trace id and sampling, fresh span id), what the nested request at hop
/// k+1 carries, and what a cancellation carries.
pub fn c18_otel_grid(tier: Tier) -> (u64, Vec<(String, String)>) {
    use opentelemetry::trace::TracerProvider as _;
    use tracing_subscriber::layer::SubscriberExt;
    let provider = opentelemetry_sdk::trace::TracerProvider::builder().build();
    let tracer = provider.tracer("mc");
    let sub = tracing_subscriber::registry().with(tracing_opentelemetry::layer().with_tracer(tracer));
    let mut fails = vec![];
    let mut cells = 0u64;
    tracing::subscriber::with_default(sub, || {
        tracing::callsite::rebuild_interest_cache();
        for depth in 1..=3usize {
            for kind in [HopKind::Mem, HopKind::Json, HopKind::Bincode] {
                for last_finishes in [true, false] {
                    for abandon_after in [None, Some(1), Some(2), Some(3)] {
                      // regimes: everything traced; or only the servers traced, behind an
                      // untraced caller whose context is Sampled / Unsampled
                      // ... also with the all-zero trace id (tarpc permits it; under OpenTelemetry it
                      // makes an "invalid" span context that still carries the sampling flag;
                      // seeded change C18m dropped the flag for such contexts)
                      for (head_untraced, head_unsampled, zero_tid) in [(false, false, false), (true, false, false), (true, true, false), (true, false, true), (true, true, true)] {
                        if tier == Tier::Quick && kind == HopKind::Bincode && depth == 3 {
                            continue;
                        }
                        if head_untraced && abandon_after.map(|k| k != 2).unwrap_or(false) {
                            continue;
                        }
                        if zero_tid && (abandon_after.is_some() || !last_finishes) {
                            continue;
                        }
                        let cfg = ChainCfg {
                            hops: vec![kind; depth],
                            r_ns: 10_000_000_000,
                            tau_ms: vec![0; depth],
                            regime: Regime::Otel,
                            last_finishes,
                            abandon_after,
                            alphabet: 0,
                            own_clients: false,
                            client_mif: 0,
                            zero_trace_id: zero_tid,
                            head_untraced,
                            head_unsampled,
                        };
                        let e = execute_in_place(&cfg, &[]);
                        cells += 1;
                        let f = hfacts(&e.recs);
                        let label = format!("[otel{}{}] depth {depth} {kind:?} last_finishes={last_finishes} abandon_after={abandon_after:?}", if head_untraced { if head_unsampled { ", untraced caller, Unsampled" } else { ", untraced caller, Sampled" } } else { "" }, if zero_tid { ", trace id 0" } else { "" });
                        for p in &f.panics {
                            fails.push(("C18-otel-panic".into(), format!("{label}: {p}")));
                        }
                        let mut chain_tid: Option<u128> = None;
                        for hop in 0..depth {
                            let cs = (hop * 2) as u8;
                            let Some((_, Msg::Req { id, tid, sid, sampled, .. }, _)) =
                                f.sent.get(&cs).and_then(|s| s.iter().find(|(_, m, _)| matches!(m, Msg::Req { .. })))
                            else {
                                break;
                            };
                            if *tid == 0 && !zero_tid {
                                fails.push(("C18-otel-no-trace-id".into(), format!("{label}: hop {hop} transmitted an all-zero trace id")));
                            }
                            if let Some(t) = chain_tid {
                                if t != *tid {
                                    fails.push(("C18-otel-nested-trace".into(), format!("{label}: hop {hop} request carries trace id {tid:x}, the previous hop's handler had {t:x}")));
                                }
                            }
                            if let Some((_, hs, _, hsid, htid)) = f.hstart.get(&hop).and_then(|x| x.first()) {
                                if *htid != *tid || *hs != *sampled {
                                    fails.push(("C18-otel-handler-trace".into(), format!("{label}: hop {hop}: handler observed ({htid:x},{hs}), the request carried ({tid:x},{sampled})")));
                                }
                                if *hsid == *sid {
                                    fails.push(("C18-otel-span-not-fresh".into(), format!("{label}: hop {hop}: handler span id equals the transmitted one")));
                                }
                                chain_tid = Some(*htid);
                            }
                            for (_, m, _) in f.sent.get(&cs).map(|s| s.as_slice()).unwrap_or(&[]) {
                                if let Msg::Cancel { id: cid, tid: ct, sid: csid, sampled: csm } = m {
                                    if cid == id && (*ct != *tid || *csid != *sid || *csm != *sampled) {
                                        fails.push(("C18-otel-cancel-trace".into(), format!("{label}: hop {hop}: cancellation carries ({ct:x},{csid:x},{csm}), its request ({tid:x},{sid:x},{sampled})")));
                                    }
                                }
                            }
                        }
                      }
                    }
                }
            }
        }
    });
    (cells, fails)
}
