mod client_core;
mod client_props;
mod codec;
mod burst;
mod c16;
mod c16_hist;
mod chain;
mod chain_props;
mod driver;
mod explore;
mod fault;
mod hooks;
mod limits_key;
mod mock;
mod server_core;
mod server_props;
mod stubs;

use client_props::{CProp, ClientHarness};
use server_props::{SProp, ServerHarness};
use driver::*;
use std::collections::BTreeMap;
use std::time::Duration;

fn parts_for(prop: &str, tier: Tier) -> Vec<Box<dyn explore::Harness>> {
    let c = |p: CProp| -> Box<dyn explore::Harness> {
        Box::new(ClientHarness {
            prop: p,
            cfgs: client_props::configs(p, tier),
        })
    };
    let s = |p: SProp| -> Box<dyn explore::Harness> {
        Box::new(ServerHarness {
            prop: p,
            cfgs: server_props::configs(p, tier),
        })
    };
    let hc = |p: chain_props::HProp| -> Box<dyn explore::Harness> {
        Box::new(chain_props::ChainHarness {
            prop: p,
            cfgs: chain_props::configs(p, tier),
        })
    };
    match prop {
        "C01" => vec![c(CProp::C01)],
        // (cheap parts first: each part gets an equal share of the wall cap that is LEFT)
        "C02" => vec![
            // wake-ups of the shipped in-memory transports (two-way histories, both ends)
            Box::new(codec::ChanHarness { cfgs: codec::chan_configs(if tier == Tier::Thorough { 8 } else { 5 }) }),
            Box::new(burst::BurstHarness { prop: "C02", cfgs: burst::configs_many(burst::Side::ClientManyCalls, tier == Tier::Thorough) }),
            hc(chain_props::HProp::C02),
            c(CProp::C02),
            // (the largest part last: it gets all the time that is left)
            s(SProp::C02),
        ],
        "C03" => vec![
            // one abandonment among n calls in flight, with a new call begun in the same step
            Box::new(burst::BurstHarness { prop: "C03", cfgs: burst::configs_many(burst::Side::ClientAbandonAmongMany, tier == Tier::Thorough) }),
            Box::new(burst::BurstHarness { prop: "C03", cfgs: burst::configs_many(burst::Side::ClientAbandonSeveralOfMany, tier == Tier::Thorough) }),
            c(CProp::C03),
        ],
        "C04" => vec![
            // abandoning many calls in one step cancels every one of them (bursts; the sizes
            // enumerated for C11)
            Box::new(burst::BurstHarness { prop: "C04", cfgs: burst::configs(tier == Tier::Thorough).into_iter().filter(|c| c.side != burst::Side::Server).collect() }),
            // several transmitted calls abandoned between two dispatch polls (an aborted handler
            // that awaited a join of nested calls): every one is cancelled at the next hop
            Box::new(burst::BurstHarness { prop: "C04", cfgs: burst::configs_many(burst::Side::ClientAbandonSeveralOfMany, tier == Tier::Thorough) }),
            hc(chain_props::HProp::C04),
            s(SProp::C04),
        ],
        "C05" => vec![c(CProp::C05)],
        "C06" => vec![
            Box::new(burst::BurstHarness { prop: "C06", cfgs: burst::configs_many(burst::Side::ServerManyExpire, tier == Tier::Thorough) }),
            // the same count, the server run as the examples run it (spawn_incoming, real tokio tasks)
            Box::new(burst::BurstHarness { prop: "C06", cfgs: burst::configs_many(burst::Side::SpawnedServerExpire, tier == Tier::Thorough) }),
            // spawned channel, deadlines 10 ms apart, a finished response waiting behind a peer that is not reading
            Box::new(burst::BurstHarness { prop: "C06", cfgs: burst::configs_many(burst::Side::SpawnedServerExpireQueued, tier == Tier::Thorough) }),
            s(SProp::C06),
        ],
        "C08" => vec![
            // "at most one response ... only if the handler finished before the request expired":
            // the expiry bursts of C06 judge exactly that
            Box::new(burst::BurstHarness { prop: "C08", cfgs: burst::configs_many(burst::Side::ServerManyExpire, tier == Tier::Thorough) }),
            s(SProp::C08),
        ],
        "C10" => vec![
            // the client as the examples run it (spawned dispatch, tokio's cooperative budget): the
            // drain at shutdown spans several task polls
            Box::new(burst::BurstHarness { prop: "C10", cfgs: burst::configs_many(burst::Side::SpawnedClientShutdown, tier == Tier::Thorough) }),
            c(CProp::C10),
            s(SProp::C10),
        ],
        "C11" => vec![
            Box::new(burst::BurstHarness { prop: "C11", cfgs: burst::configs(tier == Tier::Thorough) }),
            c(CProp::C11),
            s(SProp::C11),
        ],
        "C12" => vec![s(SProp::C12)],
        "C14" => vec![
            // the client as the examples run it (spawned tasks, tokio's cooperative budget): nothing is
            // written once the transport has failed a flush, however many calls were queued
            Box::new(burst::BurstHarness { prop: "C14", cfgs: burst::configs_many(burst::Side::SpawnedClientFlushFault, tier == Tier::Thorough) }),
            c(CProp::C14),
            s(SProp::C14),
        ],
        "C18" => vec![c(CProp::C18), hc(chain_props::HProp::C18)],
        _ => vec![],
    }
}

fn client_prop(name: &str) -> Option<CProp> {
    Some(match name {
        "C01" => CProp::C01,
        "C02" => CProp::C02,
        "C03" => CProp::C03,
        "C05" => CProp::C05,
        "C09" => CProp::C09,
        "C10" => CProp::C10,
        "C11" => CProp::C11,
        "C14" => CProp::C14,
        "C18" => CProp::C18,
        _ => return None,
    })
}

fn server_prop(name: &str) -> Option<SProp> {
    Some(match name {
        "C02" => SProp::C02,
        "C04" => SProp::C04,
        "C06" => SProp::C06,
        "C08" => SProp::C08,
        "C09" => SProp::C09,
        "C10" => SProp::C10,
        "C11" => SProp::C11,
        "C12" => SProp::C12,
        "C14" => SProp::C14,
        _ => return None,
    })
}

fn usage() -> ! {
    eprintln!("usage: mc <PROPERTY> [--tier quick|thorough] [--replay <path>]");
    std::process::exit(2)
}

fn main() {
    let args: Vec<String> = std::env::args().collect();
    if args.len() < 2 {
        usage();
    }
    let prop = args[1].clone();
    let mut tier = match std::env::var("VERIF_TIER").as_deref() {
        Ok("thorough") => Tier::Thorough,
        _ => Tier::Quick,
    };
    let mut replay: Option<String> = None;
    let mut i = 2;
    while i < args.len() {
        match args[i].as_str() {
            "--tier" => {
                tier = match args.get(i + 1).map(|s| s.as_str()) {
                    Some("quick") => Tier::Quick,
                    Some("thorough") => Tier::Thorough,
                    _ => usage(),
                };
                i += 2;
            }
            "--replay" => {
                replay = args.get(i + 1).cloned();
                i += 2;
            }
            "--explore-config" => {
                // developer aid: explore one configuration (a replay-file-shaped JSON) to a bound
                let path = args.get(i + 1).cloned().unwrap_or_else(|| usage());
                let bound: u32 = args.get(i + 2).and_then(|b| b.parse().ok()).unwrap_or(2);
                mock::install_quiet_panic_hook();
                std::process::exit(explore_one(&prop, &path, bound));
            }
            _ => usage(),
        }
    }
    mock::install_quiet_panic_hook();
    let code = match std::panic::catch_unwind(|| run(&prop, tier, replay)) {
        Ok(c) => c,
        Err(_) => {
            eprintln!("machinery: the checker itself panicked: {}", mock::take_panic());
            2
        }
    };
    std::process::exit(code);
}

fn run(prop: &str, tier: Tier, replay: Option<String>) -> i32 {
    if let Some(p) = replay {
        return do_replay(prop, &p);
    }
    if prop == "C09" {
        return fault::run_c09(tier);
    }
    if prop == "C13" {
        return limits_key::run_c13(tier);
    }
    if prop == "C15" {
        return codec::run_c15(tier);
    }
    if prop == "C16" {
        return c16::run_c16(tier);
    }
    if prop == "C20" {
        return stubs::run_c20(tier);
    }
    if prop == "C07" {
        return chain_props::run_c07(tier);
    }
    if prop == "C19" {
        return hooks::run_c19(tier);
    }
    let mut parts = parts_for(prop, tier);
    // developer aid: MC_ONLY_PARTS=<substring> keeps the parts whose name contains it
    if let Ok(only) = std::env::var("MC_ONLY_PARTS") {
        parts.retain(|p| p.name().contains(&only));
    }
    if !parts.is_empty() {
        // Quick: B = 0,1,2 always complete in seconds; where B = 2 is cheap a third deviation is
        // attempted under a short wall cap (evidence reports the largest *completed* bound and, if
        // the cap cut a round, where). Thorough: one more deviation under a 20 minute cap.
        let mut extra = BTreeMap::new();
        let mut extra_failures = vec![];
        if prop == "C18" {
            // the OpenTelemetry regime: canonical runs of every chain shape, serially under one
            // subscriber (trace ids are then chosen by the tracer, so only consistency is checked)
            let (cells, fails) = chain_props::c18_otel_grid(tier);
            extra.insert("otel_regime_cells".to_string(), serde_json::json!(cells));
            extra_failures = fails;
        }
        let cheap = matches!(prop, "C03" | "C05" | "C18");
        let bounds = match tier {
            // (C05 has grown: three deviations only in the thorough tier)
            Tier::Quick if cheap && prop != "C05" => vec![0, 1, 2, 3],
            Tier::Quick => vec![0, 1, 2],
            Tier::Thorough if cheap => vec![0, 1, 2, 3, 4],
            Tier::Thorough => vec![0, 1, 2, 3],
        };
        let spec = Spec {
            prop: Box::leak(prop.to_string().into_boxed_str()),
            level: "model_checking",
            tier,
            bounds,
            // (VERIF_WALL_CAP_S: a smaller cap for smoke runs of the thorough configurations; the
            // evidence records the largest bound completed and whether the cap cut a round)
            wall_cap: Duration::from_secs(std::env::var("VERIF_WALL_CAP_S").ok().and_then(|s| s.parse().ok()).unwrap_or(if tier == Tier::Quick { 45 } else { 1200 })),
            rule: format!("every execution of the real tarpc code (client dispatch + callers, server channel + request stream + gated handlers, or a chain of both) under the harness-owned scheduler/transport/clock, for every listed configuration, with at most `bound_completed` deviations from the canonical schedule (a deviation = any choice other than the first option at a choice point: polling another woken task first, an unowed/duplicate/unknown peer message, an abandonment, a drop, a drain, a clock step, parking inside a drop). distinct_nontrivial counts distinct trace hashes among executions in which the property's antecedent occurred: {}", nontrivial_rule(prop)),
            assumptions: vec![
                "tokio mpsc/oneshot, futures Abortable and tokio-util DelayQueue internals are trusted".into(),
                "a completed dispatch future is dropped (as tokio::spawn/join!/select! do)".into(),
                "cross-thread interleavings are covered at the granularity of whole polls plus the yield points inside the call guard's drop".into(),
            ],
            extra,
            extra_failures,
        };
        let refs: Vec<&dyn explore::Harness> = parts.iter().map(|b| b.as_ref()).collect();
        return run_parts(&refs, spec);
    }
    eprintln!("unknown property {prop}");
    2
}

fn do_replay(prop: &str, path: &str) -> i32 {
    let Ok(s) = std::fs::read_to_string(path) else {
        eprintln!("machinery: cannot read {path}");
        return 2;
    };
    let doc: serde_json::Value = serde_json::from_str(&s).expect("replay file parses");
    if prop == "C09" {
        return fault::replay_c09(&doc, path);
    }
    if prop == "C13" {
        return limits_key::replay_c13(&doc, path);
    }
    let choices: Vec<u16> = doc["choices"]
        .as_array()
        .unwrap()
        .iter()
        .map(|c| c.as_u64().unwrap() as u16)
        .collect();
    let sig = doc["signature"].as_str().unwrap_or("");
    let harness = doc["harness"].as_str().unwrap_or("");
    if doc["regime"].as_str() == Some("trace-subscriber") {
        driver::install_trace_subscriber(prop);
    }
    if harness.starts_with("chain") {
        let hp = match prop {
            "C02" => chain_props::HProp::C02,
            "C04" => chain_props::HProp::C04,
            _ => chain_props::HProp::C18,
        };
        let cfg: chain::ChainCfg = serde_json::from_value(doc["config"].clone()).expect("config");
        let (out, _) = chain_props::run_cfg(hp, &cfg, &choices, true);
        if let Some(e) = out.machinery_error {
            eprintln!("machinery: {e}");
            return 2;
        }
        println!("{}", out.render.unwrap_or_default());
        for v in &out.violations {
            println!("violated: {} — {}", v.signature, v.message);
        }
        if out.violations.iter().any(|v| v.signature == sig) {
            println!("VIOLATION property={prop} replay={path}");
            return 1;
        }
        return 0;
    }
    if harness.starts_with("channel") {
        let cfg: codec::ChanCfg = serde_json::from_value(doc["config"].clone()).expect("config");
        let out = codec::run_chan_cfg(&cfg, true);
        println!("{}", out.render.unwrap_or_default());
        for v in &out.violations {
            println!("violated: {} — {}", v.signature, v.message);
        }
        if out.violations.iter().any(|v| v.signature == sig) {
            println!("VIOLATION property={prop} replay={path}");
            return 1;
        }
        return 0;
    }
    if harness.starts_with("burst") {
        let cfg: burst::BurstCfg = serde_json::from_value(doc["config"].clone()).expect("config");
        let out = burst::run_cfg(&cfg, true);
        println!("{}", out.render.unwrap_or_default());
        for v in &out.violations {
            println!("violated: {} — {}", v.signature, v.message);
        }
        if out.violations.iter().any(|v| v.signature == sig) {
            println!("VIOLATION property={prop} replay={path}");
            return 1;
        }
        return 0;
    }
    if harness.starts_with("server_core") {
        let Some(sp) = server_prop(prop) else { return 2 };
        let cfg: server_core::SCfg = serde_json::from_value(doc["config"].clone()).expect("config");
        let (out, _) = server_props::run_cfg(sp, &cfg, &choices, true);
        if let Some(e) = out.machinery_error {
            eprintln!("machinery: {e}");
            return 2;
        }
        println!("{}", out.render.unwrap_or_default());
        for v in &out.violations {
            println!("violated: {} — {}", v.signature, v.message);
        }
        if out.violations.iter().any(|v| v.signature == sig) || (sig.is_empty() && !out.violations.is_empty()) {
            println!("VIOLATION property={prop} replay={path}");
            return 1;
        }
        return 0;
    }
    if let Some(cp) = client_prop(prop) {
        let cfg: client_core::CCfg = serde_json::from_value(doc["config"].clone()).expect("config");
        let (out, _) = client_props::run_cfg(cp, &cfg, &choices, true);
        if let Some(e) = out.machinery_error {
            eprintln!("machinery: {e}");
            return 2;
        }
        println!("{}", out.render.unwrap_or_default());
        for v in &out.violations {
            println!("violated: {} — {}", v.signature, v.message);
        }
        if out.violations.iter().any(|v| v.signature == sig) || (sig.is_empty() && !out.violations.is_empty()) {
            println!("VIOLATION property={prop} replay={path}");
            return 1;
        }
        return 0;
    }
    2
}

fn explore_one(prop: &str, path: &str, bound: u32) -> i32 {
    let doc: serde_json::Value = serde_json::from_str(&std::fs::read_to_string(path).expect("read")).expect("json");
    let harness = doc["harness"].as_str().unwrap_or("");
    let h: Box<dyn explore::Harness> = if harness.starts_with("server_core") {
        Box::new(ServerHarness {
            prop: server_prop(prop).expect("server property"),
            cfgs: vec![serde_json::from_value(doc["config"].clone()).expect("config")],
        })
    } else if harness.starts_with("chain") {
        Box::new(chain_props::ChainHarness {
            prop: match prop {
                "C02" => chain_props::HProp::C02,
                "C04" => chain_props::HProp::C04,
                _ => chain_props::HProp::C18,
            },
            cfgs: vec![serde_json::from_value(doc["config"].clone()).expect("config")],
        })
    } else {
        Box::new(ClientHarness {
            prop: client_prop(prop).expect("client property"),
            cfgs: vec![serde_json::from_value(doc["config"].clone()).expect("config")],
        })
    };
    for b in 0..=bound {
        let r = explore::explore_round(h.as_ref(), b, None);
        eprintln!("bound {b}: executions {} violating {}", r.stats.evaluations, r.stats.found.len());
        let found = dedupe(&r.stats.found);
        for f in &found {
            println!("{} choices {:?}\n   {}", f.v.signature, f.choices, f.v.message);
        }
        if !found.is_empty() {
            return 1;
        }
    }
    0
}

fn nontrivial_rule(prop: &str) -> &'static str {
    match prop {
        "C01" => "a stray (unknown/duplicate/late) reply was sent, or replies arrived out of id order, or at least two calls resolved",
        "C02" => "some task returned Pending and was polled again later (a real wait and wake-up happened)",
        "C03" => "a call was abandoned unresolved after its request had been transmitted, or a park inside the guard's drop was taken",
        "C04" => "a Cancel was read while its handler was started and unanswered; a stray cancel was sent; (chain) the head call was abandoned with a handler unfinished down the chain",
        "C05" => "a call ended with DeadlineExceeded, or a dispatch poll ran past a transmitted call's deadline",
        "C06" => "a handler was dropped by expiry, or a channel poll ran past a started handler's deadline, or a response was written at/after a deadline",
        "C08" => "a duplicate of an in-flight id was read, or at least two requests were read",
        "C10" => "the dispatch ended because the peer closed or the last handle was dropped; (server) the request stream ended",
        "C11" => "at least two requests were transmitted (client) / read (server)",
        "C12" => "a request was refused",
        "C14" => "the transport answered Pending at least once (poll_ready or poll_flush)",
        "C18" => "a Cancel was transmitted, or at least two requests were transmitted, or a request crossed a second hop",
        _ => "see DESIGN.md §5",
    }
}
