#!/bin/bash
# Builds the verification harness offline from files on disk (hooks on).
set -e
HERE="$(cd "$(dirname "$0")" && pwd)"
export CARGO_NET_OFFLINE=true RUSTFLAGS="--cfg tarpc_verif" CARGO_TARGET_DIR="$HERE/target"
cargo build --release --offline --manifest-path "$HERE/mc/Cargo.toml"
CARGO_TARGET_DIR="$HERE/target/loom" RUSTFLAGS="" cargo build --release --offline --manifest-path "$HERE/mc-loom/Cargo.toml"
VERIF_DIR="$HERE" python3 "$HERE/macro_grid/run.py" --tier quick --build-only
